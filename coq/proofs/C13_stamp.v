(* C13: decimal formatting / int() / ID3TimeStamp parsing of formatted text. *)
From Coq Require Import ZArith List Bool Lia.
Import ListNotations.
Require Import Base.Py Base.ZList Model.Id3Util Model.Id3Conv.
Open Scope Z_scope.

Definition dstep (acc c : Z) : Z := acc * 10 + (c - 48).
Definition dval (l : text) : Z := fold_left dstep l 0.

Lemma is_digit_range c : conv_is_digit c = true <-> 48 <= c <= 57.
Proof. unfold conv_is_digit. rewrite andb_true_iff, !Z.leb_le. tauto. Qed.
Lemma digit_not_sep c : conv_is_digit c = true -> conv_is_sepchar c = false.
Proof.
  intro H. apply is_digit_range in H. unfold conv_is_sepchar.
  repeat (apply orb_false_iff; split); apply Z.eqb_neq; lia.
Qed.
Lemma digit_not_space c : conv_is_digit c = true -> conv_is_space c = false.
Proof.
  intro H. apply is_digit_range in H. unfold conv_is_space.
  repeat (apply orb_false_iff; split);
    try (apply Z.eqb_neq; lia);
    apply andb_false_iff; (left; apply Z.leb_gt; lia) || (right; apply Z.leb_gt; lia).
Qed.
Lemma digit_not_int_space c : conv_is_digit c = true -> conv_is_int_space c = false.
Proof. intro H. unfold conv_is_int_space. rewrite (digit_not_space c H). reflexivity. Qed.

Lemma all_digits_app a b : conv_all_digits (a ++ b) = conv_all_digits a && conv_all_digits b.
Proof. unfold conv_all_digits. apply forallb_app. Qed.
Lemma all_digits_repeat n : conv_all_digits (repeat 48 n) = true.
Proof. induction n; cbn; [reflexivity | exact IHn]. Qed.

(* ---------------------------------------------------------------- conv_dec *)
Lemma dec_fuel_digits fuel n : 0 <= n -> conv_all_digits (conv_dec_fuel fuel n) = true.
Proof.
  revert n. induction fuel as [|k IH]; intros n Hn; cbn [conv_dec_fuel]; [reflexivity|].
  destruct (n <? 10) eqn:E.
  - apply Z.ltb_lt in E. unfold conv_all_digits. cbn [forallb]. rewrite andb_true_r. apply is_digit_range. lia.
  - apply Z.ltb_ge in E. rewrite all_digits_app. rewrite IH by (apply Z.div_pos; lia). unfold conv_all_digits. cbn [forallb andb]. rewrite andb_true_r.
    apply is_digit_range. pose proof (Z.mod_pos_bound n 10 ltac:(lia)). lia.
Qed.
Lemma dval_app a c : dval (a ++ [c]) = dval a * 10 + (c - 48).
Proof. unfold dval. rewrite fold_left_app. reflexivity. Qed.
Lemma dec_fuel_val fuel n : 0 <= n < 10 ^ Z.of_nat fuel -> dval (conv_dec_fuel fuel n) = n.
Proof.
  revert n. induction fuel as [|k IH]; intros n Hn.
  - change (Z.of_nat 0) with 0 in Hn. rewrite Z.pow_0_r in Hn. assert (n = 0) by lia. subst. reflexivity.
  - cbn [conv_dec_fuel]. destruct (n <? 10) eqn:E.
    + unfold dval, dstep. cbn [fold_left]. lia.
    + apply Z.ltb_ge in E. rewrite dval_app. rewrite IH.
      * pose proof (Z.div_mod n 10 ltac:(lia)). lia.
      * split; [apply Z.div_pos; lia|]. apply Z.div_lt_upper_bound; [lia|].
        rewrite Nat2Z.inj_succ, Z.pow_succ_r in Hn by lia. lia.
Qed.
Lemma dec_fuel_nonempty fuel n : conv_dec_fuel (S fuel) n <> [].
Proof.
  cbn [conv_dec_fuel]. destruct (n <? 10); [discriminate|]. intro H. apply app_eq_nil in H. destruct H; discriminate.
Qed.
Lemma dec_fuel_len fuel n k : 0 <= n < 10 ^ Z.of_nat k -> (1 <= k)%nat -> (length (conv_dec_fuel fuel n) <= k)%nat.
Proof.
  revert n k. induction fuel as [|f IH]; intros n k Hn Hk; cbn [conv_dec_fuel]; [cbn; lia|].
  destruct (n <? 10) eqn:E; [cbn; lia|]. apply Z.ltb_ge in E.
  rewrite app_length. cbn [length].
  destruct k as [|k']; [lia|]. destruct k' as [|k''].
  - change (10 ^ Z.of_nat 1) with 10 in Hn. lia.
  - assert (length (conv_dec_fuel f (n / 10)) <= S k'')%nat; [|lia].
    apply IH; [|lia]. split; [apply Z.div_pos; lia|]. apply Z.div_lt_upper_bound; [lia|].
    rewrite (Nat2Z.inj_succ (S k'')), Z.pow_succ_r in Hn by lia. lia.
Qed.

Lemma dec_fuel_enough n : 0 <= n -> n < 10 ^ Z.of_nat (S (Z.to_nat (Z.log2 n))).
Proof.
  intro Hn. destruct (Z.eq_dec n 0) as [->|N]; [reflexivity|].
  pose proof (Z.log2_spec n ltac:(lia)) as [_ H]. pose proof (Z.log2_nonneg n).
  rewrite Nat2Z.inj_succ, Z2Nat.id by lia.
  eapply Z.lt_le_trans; [exact H|]. apply Z.pow_le_mono_l. lia.
Qed.
Lemma dec_digits n : 0 <= n -> conv_all_digits (conv_dec n) = true.
Proof. intro. apply dec_fuel_digits. assumption. Qed.
Lemma dec_val n : 0 <= n -> dval (conv_dec n) = n.
Proof. intro H. apply dec_fuel_val. split; [exact H | apply dec_fuel_enough; exact H]. Qed.
Lemma dec_nonempty n : conv_dec n <> [].
Proof. apply dec_fuel_nonempty. Qed.
Lemma dec_len n k : 0 <= n < 10 ^ Z.of_nat k -> (1 <= k)%nat -> zlen (conv_dec n) <= Z.of_nat k.
Proof. intros H K. unfold zlen. apply Nat2Z.inj_le. apply dec_fuel_len; assumption. Qed.

(* ---------------------------------------------------------------- conv_fmt *)
Lemma dval_zeros k l : dval (repeat 48 k ++ l) = dval l.
Proof.
  unfold dval. rewrite fold_left_app. f_equal. induction k; cbn; [reflexivity|]. exact IHk.
Qed.
Lemma fmt_nonneg w n : 0 <= n -> conv_fmt w n = repeat 48 (Z.to_nat (w - zlen (conv_dec n))) ++ conv_dec n.
Proof. intro H. unfold conv_fmt. destruct (n <? 0) eqn:E; [apply Z.ltb_lt in E; lia | reflexivity]. Qed.
Lemma fmt_digits w n : 0 <= n -> conv_all_digits (conv_fmt w n) = true.
Proof. intro H. rewrite fmt_nonneg by exact H. rewrite all_digits_app, all_digits_repeat, dec_digits by exact H. reflexivity. Qed.
Lemma fmt_val w n : 0 <= n -> dval (conv_fmt w n) = n.
Proof. intro H. rewrite fmt_nonneg by exact H. rewrite dval_zeros. apply dec_val. exact H. Qed.
Lemma fmt_nonempty w n : 0 <= n -> conv_fmt w n <> [].
Proof.
  intro H. rewrite fmt_nonneg by exact H. intro E. apply app_eq_nil in E. destruct E as [_ E]. exact (dec_nonempty n E).
Qed.
Lemma fmt_len w n : 0 <= n < 10 ^ w -> 1 <= w -> zlen (conv_fmt w n) = w.
Proof.
  intros H W. rewrite fmt_nonneg by lia. rewrite zlen_app.
  pose proof (dec_len n (Z.to_nat w) ltac:(rewrite Z2Nat.id by lia; exact H) ltac:(lia)) as L.
  rewrite Z2Nat.id in L by lia. pose proof (zlen_nonneg (conv_dec n)).
  unfold zlen at 1. rewrite repeat_length, Z2Nat.id by lia. lia.
Qed.

(* ---------------------------------------------------------------- int() on digit strings *)
Lemma int_digits_all l : conv_all_digits l = true -> forall acc b,
  conv_int_digits l acc b = match l with [] => if b then Some acc else None | _ :: _ => Some (fold_left dstep l acc) end.
Proof.
  induction l as [|c r IH]; intros H acc b; [reflexivity|].
  cbn in H. apply andb_true_iff in H. destruct H as [Hc Hr].
  cbn [conv_int_digits]. rewrite Hc. rewrite IH by exact Hr. destruct r; reflexivity.
Qed.
Lemma lstrip_digit c r : conv_is_digit c = true -> conv_lstrip (c :: r) = c :: r.
Proof. intro H. cbn. rewrite (digit_not_int_space c H). reflexivity. Qed.
Lemma strip_digits l : conv_all_digits l = true -> conv_strip l = l.
Proof.
  intro H. unfold conv_strip. destruct l as [|c r]; [reflexivity|].
  cbn in H. apply andb_true_iff in H. destruct H as [Hc Hr].
  rewrite lstrip_digit by exact Hc.
  destruct (rev (c :: r)) as [|x y] eqn:E.
  - apply (f_equal (@length Z)) in E. rewrite rev_length in E. discriminate.
  - assert (Hx : conv_is_digit x = true).
    { assert (In x (c :: r)) by (apply in_rev; rewrite E; left; reflexivity).
      assert (A : conv_all_digits (c :: r) = true) by (cbn; rewrite Hc, Hr; reflexivity).
      unfold conv_all_digits in A. rewrite forallb_forall in A. apply A. assumption. }
    rewrite lstrip_digit by exact Hx. rewrite <- E. apply rev_involutive.
Qed.
Lemma py_int_digits l : conv_all_digits l = true -> l <> [] -> conv_py_int l = Some (dval l).
Proof.
  intros H N. unfold conv_py_int. rewrite strip_digits by exact H.
  destruct l as [|c r]; [contradiction|].
  pose proof H as H'. cbn in H'. apply andb_true_iff in H'. destruct H' as [Hc _]. apply is_digit_range in Hc.
  replace (c =? 43) with false by (symmetry; apply Z.eqb_neq; lia).
  replace (c =? 45) with false by (symmetry; apply Z.eqb_neq; lia).
  rewrite int_digits_all by exact H. reflexivity.
Qed.
Lemma py_int_fmt w n : 0 <= n -> conv_py_int (conv_fmt w n) = Some n.
Proof.
  intro H. rewrite py_int_digits; [rewrite fmt_val by exact H; reflexivity | apply fmt_digits; exact H | apply fmt_nonempty; exact H].
Qed.
Lemma py_int_nil : conv_py_int [] = None.
Proof. reflexivity. Qed.

(* ---------------------------------------------------------------- the splitter on digit pieces *)
Lemma resplit_piece p c rest : conv_all_digits p = true -> conv_is_sepchar c = true ->
  conv_resplit false (p ++ c :: rest) = p :: conv_resplit false rest.
Proof.
  intros Hp Hc. induction p as [|d p' IH].
  - cbn. rewrite Hc. reflexivity.
  - cbn in Hp. apply andb_true_iff in Hp. destruct Hp as [Hd Hp'].
    cbn [app conv_resplit]. rewrite (digit_not_sep d Hd), (digit_not_space d Hd), IH by exact Hp'. reflexivity.
Qed.
Lemma resplit_last p : conv_all_digits p = true ->
  conv_resplit false (p ++ [58;58;58;58;58]) = [p; []; []; []; []; []].
Proof. intro H. rewrite resplit_piece by (exact H || reflexivity). reflexivity. Qed.

(* ID3TimeStamp of the three shapes update_to_v24 builds *)
Lemma stamp_parse_year Y : conv_all_digits Y = true -> Y <> [] ->
  conv_stamp_parse Y = mkStamp (Some (dval Y)) None None None None None.
Proof.
  intros H N. unfold conv_stamp_parse. rewrite resplit_last by exact H. cbn [nth].
  rewrite py_int_digits by assumption. rewrite py_int_nil. reflexivity.
Qed.
Lemma stamp_parse_date Y Mo D : conv_all_digits Y = true -> Y <> [] -> conv_all_digits Mo = true -> Mo <> [] ->
  conv_all_digits D = true -> D <> [] ->
  conv_stamp_parse (Y ++ (45 :: Mo ++ 45 :: D) ++ []) = mkStamp (Some (dval Y)) (Some (dval Mo)) (Some (dval D)) None None None.
Proof.
  intros HY NY HM NM HD ND. unfold conv_stamp_parse. rewrite app_nil_r.
  replace ((Y ++ 45 :: Mo ++ 45 :: D) ++ [58;58;58;58;58]) with (Y ++ 45 :: Mo ++ 45 :: D ++ [58;58;58;58;58])
    by (rewrite <- !app_assoc; cbn; rewrite <- !app_assoc; reflexivity).
  rewrite resplit_piece by (assumption || reflexivity).
  rewrite resplit_piece by (assumption || reflexivity).
  rewrite resplit_last by assumption. cbn [nth].
  rewrite !py_int_digits by assumption. rewrite py_int_nil. reflexivity.
Qed.
Lemma stamp_parse_datetime Y Mo D H Mi : conv_all_digits Y = true -> Y <> [] -> conv_all_digits Mo = true -> Mo <> [] ->
  conv_all_digits D = true -> D <> [] -> conv_all_digits H = true -> H <> [] -> conv_all_digits Mi = true -> Mi <> [] ->
  conv_stamp_parse (Y ++ (45 :: Mo ++ 45 :: D) ++ (84 :: H ++ 58 :: Mi ++ [58;48;48])) =
  mkStamp (Some (dval Y)) (Some (dval Mo)) (Some (dval D)) (Some (dval H)) (Some (dval Mi)) (Some 0).
Proof.
  intros HY NY HM NM HD ND HH NH HMi NMi. unfold conv_stamp_parse.
  replace ((Y ++ (45 :: Mo ++ 45 :: D) ++ 84 :: H ++ 58 :: Mi ++ [58;48;48]) ++ [58;58;58;58;58])
    with (Y ++ 45 :: Mo ++ 45 :: D ++ 84 :: H ++ 58 :: Mi ++ 58 :: [48;48] ++ [58;58;58;58;58]).
  2:{ repeat (rewrite <- ?app_assoc; cbn [app]). reflexivity. }
  do 5 (rewrite resplit_piece by (assumption || reflexivity)).
  rewrite resplit_last by reflexivity. cbn [nth].
  rewrite !py_int_digits by (assumption || discriminate || reflexivity). reflexivity.
Qed.
