(* C12 (e): read_frames (concat (map save_frame frames)) returns the same frames in order (v2.3 and v2.4),
   and the nested-frame knot: ID3FramesSpec read/write at every nesting depth *)
From Coq Require Import ZArith List Bool Lia.
Import ListNotations.
Require Import Base.Py Base.ZList Model.Id3Spec Model.Id3Frame
  Proofs.C12_ints Proofs.C12_codec Proofs.C12_specs Proofs.C12_specs2 Proofs.C12_frame.
Open Scope Z_scope.

(* a v2.3/v2.4 frame id: four characters A-Z 0-9 *)
Definition id_ok (id : list Z) : bool := (zlen id =? 4) && forallb is_upper_alnum id.

Lemma upper_alnum_range c : is_upper_alnum c = true -> 48 <= c <= 90.
Proof.
  unfold is_upper_alnum. intros H. apply orb_true_iff in H as [H|H]; apply andb_true_iff in H as [A B];
    apply Z.leb_le in A, B; lia.
Qed.
Lemma id_ok_shape id : id_ok id = true ->
  exists a b c e, id = [a; b; c; e] /\ 48 <= a <= 90 /\ 48 <= b <= 90 /\ 48 <= c <= 90 /\ 48 <= e <= 90.
Proof.
  unfold id_ok. intros H. apply andb_true_iff in H as [L F]. apply Z.eqb_eq in L. unfold zlen in L.
  destruct id as [|a [|b [|c [|e [|x r]]]]]; cbn [length] in L; try lia.
  cbn [forallb] in F. repeat (apply andb_true_iff in F as [? F]).
  exists a, b, c, e. repeat split; try (apply upper_alnum_range; assumption).
Qed.
Lemma id_ok_facts tbl22 id : id_ok id = true ->
  zlen id = 4 /\ all_zero id = false /\ forallb ascii_cp id = true /\ resolve_name tbl22 id = Some id /\ id <> [].
Proof.
  intros H. destruct (id_ok_shape id H) as (a & b & c & e & -> & Ha & Hb & Hc & He).
  split; [reflexivity|]. split.
  - unfold all_zero. cbn [forallb]. replace (a =? 0) with false by (symmetry; apply Z.eqb_neq; lia). reflexivity.
  - split.
    + unfold ascii_cp. cbn [forallb].
      repeat (apply andb_true_iff; split); try (apply Z.leb_le; lia); try (apply Z.ltb_lt; lia). reflexivity.
    + split; [|discriminate]. unfold resolve_name. cbn [rev app]. destruct e; try lia; reflexivity.
Qed.

Lemma frames_loop_unfold sub ver fuel gunsync tbl22 tbl bits data :
  frames_loop sub ver (S fuel) gunsync tbl22 tbl bits data =
    if is_nil data then Ok (mkParsed [] [] data)
    else if zlen data <? 10 then Ok (mkParsed [] [] data)
    else
      let header := ztake 10 data in
      let name := ztake 4 header in
      if all_zero name then Ok (mkParsed [] [] data)
      else
        let size := bpi_decode bits (zslice 4 8 header) in
        let flags := be_decode (zslice 8 10 header) in
        let take := Z.min size (zlen data) in
        let framedata := zslice 10 (10 + take) data in
        let next := frames_loop sub ver fuel gunsync tbl22 tbl bits (zdrop (10 + take) data) in
        if size =? 0 then next
        else if negb (forallb ascii_cp name) then next
        else
          match (match resolve_name tbl22 name with Some n => frame_lookup tbl n | None => None end) with
          | None =>
            if match resolve_name tbl22 name with Some n => valid_frame_id n | None => false end
            then rmap (add_unknown (header ++ framedata)) next else next
          | Some fr =>
            match from_data sub ver gunsync fr flags framedata with
            | Ok (vs, _) => rmap (add_frame (fr_id fr, vs)) next
            | Raise ENotImpl => rmap (add_unknown (header ++ framedata)) next
            | Raise EMutagen => next
            | Raise e => Raise e
            end
          end.
Proof. reflexivity. Qed.

Section Tag.
Variable sub : list Z -> result (value * list Z).
Variable subw : value -> result (list Z).
Variable subvalid : value -> bool.
Variable ver : Z.
Hypothesis sub_roundtrip : forall v, subvalid v = true -> exists b, subw v = Ok b /\ sub b = Ok (v, []).
Hypothesis Hver : ver = 3 \/ ver = 4.
Variable tbl22 tbl : list frame_desc.

(* a frame that can be saved into a tag and found again: composable spec list, proper id, in the table,
   valid values, and a non-empty body (save_frame writes nothing for text frames with empty text, and
   read_frames drops empty frames) *)
Definition entry_ok (x : frame_desc * list value) : Prop :=
  spec_list_ok (fst x) = true /\ id_ok (fr_id (fst x)) = true /\
  frame_lookup tbl (fr_id (fst x)) = Some (fst x) /\ frame_valid subw subvalid ver (fst x) (snd x) = true /\
  exists b, save_frame subw ver (fst x) (snd x) = Ok b /\ 10 < zlen b.

Lemma from_data_plain fr d : from_data sub ver false fr 0 d = frame_read sub ver fr d.
Proof. destruct Hver; subst ver; reflexivity. Qed.

Lemma save_frame_shape fr vs : entry_ok (fr, vs) ->
  exists sz d, save_frame subw ver fr vs = Ok (fr_id fr ++ sz ++ [0; 0] ++ d) /\ zlen sz = 4 /\
               bpi_decode (size_bits ver) sz = zlen d /\ 0 < zlen d /\ frame_read sub ver fr d = Ok (vs, []).
Proof.
  intros (Hok & Hid & Hlk & Hval & b & Hs & Hlen). cbn [fst snd] in *.
  destruct (frame_roundtrip sub subw subvalid ver sub_roundtrip fr vs Hok Hval) as (d & Hw & Hr).
  unfold save_frame in Hs |- *. destruct (is_text_frame fr && text_is_empty fr vs).
  { injection Hs as <-. unfold zlen in Hlen. cbn [length] in Hlen. lia. }
  rewrite Hw in Hs |- *. destruct (bpi_to_str (size_bits ver) 4 (zlen d)) as [sz|] eqn:Esz; [|discriminate].
  inversion Hs; subst b. exists sz, d. split; [reflexivity|].
  assert (Lsz : zlen sz = 4). { unfold zlen. rewrite (bpi_to_str_length _ _ _ _ Esz). reflexivity. }
  split; [exact Lsz|]. split.
  - eapply bpi_roundtrip; [|exact Esz]. destruct Hver; subst ver; reflexivity.
  - split; [|exact Hr]. destruct (id_ok_facts tbl22 _ Hid) as (Lid & _).
    rewrite !zlen_app, !zlen_cons, Lid, Lsz in Hlen. lia.
Qed.

Definition saved (x : frame_desc * list value) : result (list Z) := save_frame subw ver (fst x) (snd x).
Definition loaded_of (x : frame_desc * list value) : loaded := (fr_id (fst x), snd x).

Lemma frames_loop_rt : forall xs fuel bs,
  Forall entry_ok xs -> rmapM saved xs = Ok bs -> (length (concat bs) < fuel)%nat ->
  frames_loop sub ver fuel false tbl22 tbl (size_bits ver) (concat bs) = Ok (mkParsed (map loaded_of xs) [] []).
Proof.
  induction xs as [|[fr vs] xs IH]; intros fuel bs Hall Hs Hfuel.
  - cbn in Hs. inversion Hs; subst bs. destruct fuel; [cbn in Hfuel; lia|]. reflexivity.
  - inversion Hall as [|? ? Hx Hxs]; subst.
    cbn [rmapM] in Hs. unfold saved at 1 in Hs. cbn [fst snd] in Hs.
    destruct (save_frame_shape fr vs Hx) as (sz & d & Hsave & Lsz & Hdec & Hd & Hread).
    rewrite Hsave in Hs. destruct (rmapM saved xs) as [bs'|] eqn:Ebs; [|discriminate].
    inversion Hs; subst bs. clear Hs.
    destruct Hx as (_ & Hid & Hlk & _). cbn [fst snd] in Hid, Hlk.
    destruct (id_ok_facts tbl22 _ Hid) as (Lid & Hnz & Hascii & Hres & Hne).
    cbn [concat] in Hfuel |- *. set (rest := concat bs') in *. set (id := fr_id fr) in *. set (n := zlen d) in *.
    set (hdr := id ++ sz ++ [0; 0]).
    assert (Lhdr : zlen hdr = 10) by (unfold hdr; rewrite !zlen_app, Lid, Lsz; reflexivity).
    assert (Edata : (id ++ sz ++ 0 :: 0 :: d) ++ rest = hdr ++ d ++ rest).
    { unfold hdr. rewrite <- !app_assoc. reflexivity. }
    rewrite Edata in *.
    destruct fuel as [|fuel]; [lia|]. rewrite frames_loop_unfold.
    assert (F1 : is_nil (hdr ++ d ++ rest) = false).
    { unfold hdr. destruct id; [congruence|reflexivity]. }
    pose proof (zlen_nonneg rest) as Hrest0.
    assert (F2 : (zlen (hdr ++ d ++ rest) <? 10) = false) by (apply Z.ltb_ge; rewrite !zlen_app, Lhdr; fold n; lia).
    rewrite F1, F2. cbv zeta.
    rewrite (ztake_app_len 10 hdr) by exact Lhdr.
    assert (F4 : ztake 4 hdr = id) by (unfold hdr; apply ztake_app_len; exact Lid).
    rewrite F4, Hnz.
    assert (F5 : zslice 4 8 hdr = sz).
    { unfold zslice, hdr. rewrite (zdrop_app_len 4) by exact Lid. change (8 - 4) with 4. apply ztake_app_len. exact Lsz. }
    assert (F6 : zslice 8 10 hdr = [0; 0]).
    { unfold zslice, hdr. rewrite app_assoc. rewrite (zdrop_app_len 8) by (rewrite zlen_app, Lid, Lsz; reflexivity). reflexivity. }
    rewrite F5, F6, Hdec. fold n.
    replace (Z.min n (zlen (hdr ++ d ++ rest))) with n by (rewrite !zlen_app, Lhdr; fold n; lia).
    assert (F7 : zslice 10 (10 + n) (hdr ++ d ++ rest) = d).
    { unfold zslice. rewrite (zdrop_app_len 10) by exact Lhdr. replace (10 + n - 10) with n by lia. apply ztake_app_len. reflexivity. }
    assert (F8 : zdrop (10 + n) (hdr ++ d ++ rest) = rest).
    { rewrite app_assoc. apply zdrop_app_len. rewrite zlen_app, Lhdr. reflexivity. }
    rewrite F7, F8.
    replace (n =? 0) with false by (symmetry; apply Z.eqb_neq; lia).
    rewrite Hascii. cbn [negb]. rewrite Hres, Hlk.
    change (be_decode [0; 0]) with 0. rewrite from_data_plain, Hread.
    unfold rest. rewrite (IH fuel bs' Hxs eq_refl).
    + reflexivity.
    + rewrite !app_length in Hfuel. fold rest. assert (0 < length hdr)%nat by (unfold zlen in Lhdr; lia). lia.
Qed.

Theorem tag_roundtrip xs bs :
  Forall entry_ok xs -> rmapM saved xs = Ok bs ->
  (ver = 4 -> determine_bpi tbl (concat bs) = true) ->
  read_frames sub ver false tbl22 tbl (concat bs) = Ok (mkParsed (map loaded_of xs) [] []).
Proof.
  intros Hall Hs Hbpi. unfold read_frames. rewrite andb_false_r.
  assert (B : (if ver <? 4 then 8 else if determine_bpi tbl (concat bs) then 7 else 8) = size_bits ver).
  { destruct Hver as [E|E]; [rewrite E; reflexivity|]. rewrite (Hbpi E). rewrite E. reflexivity. }
  rewrite B. replace (3 <=? ver) with true by (destruct Hver as [E|E]; rewrite E; reflexivity).
  apply frames_loop_rt; [assumption|assumption|lia].
Qed.
End Tag.
