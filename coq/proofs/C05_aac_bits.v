(* C05 -- mutagen._util.BitReader (Model.InfoMpeg.bitreader) read against MSB-first packed fields, by arithmetic.
   A reader is viewed as the number brS (buffered bits followed by the unread bytes) of width brW bits; reading n bits
   returns brS / 2^(brW - n) and leaves brS mod 2^(brW - n).  On top of that: `holds r c fs tail` -- the reader stands in
   front of the fields fs (value, width) followed by the bytes tail, c bits after the start of the packed region. *)
From Coq Require Import ZArith List Bool Lia.
Import ListNotations.
Require Import Base.Py Base.ZList Model.InfoBase Model.InfoMpeg Model.InfoAac.
Open Scope Z_scope.

Definition bytes_ok (l : list Z) : Prop := Forall (fun x => 0 <= x < 256) l.

(* ------------------------------------------------------------------ big-endian codec facts *)
Lemma bd_acc_shift acc l : be_decode_acc acc l = acc * 256 ^ zlen l + be_decode l.
Proof.
  revert acc; induction l as [|x l IH]; intros acc.
  - cbn. lia.
  - unfold be_decode. cbn [be_decode_acc]. rewrite IH, (IH (0 * 256 + x)). rewrite zlen_cons.
    pose proof (zlen_nonneg l). rewrite Z.pow_add_r by lia. lia.
Qed.
Lemma bd_app a b : be_decode (a ++ b) = be_decode a * 256 ^ zlen b + be_decode b.
Proof.
  unfold be_decode at 1 2. generalize 0. induction a as [|x a IH]; intros acc.
  - cbn [app be_decode_acc]. apply bd_acc_shift.
  - cbn [app be_decode_acc]. apply IH.
Qed.
Lemma bd_bound l : bytes_ok l -> 0 <= be_decode l < 256 ^ zlen l.
Proof.
  unfold bytes_ok. induction 1 as [|x l Hx Hl IH].
  - cbn. lia.
  - change (x :: l) with ([x] ++ l). rewrite bd_app, zlen_app. change (zlen [x]) with 1. change (be_decode [x]) with (0 * 256 + x).
    pose proof (zlen_nonneg l). rewrite Z.pow_add_r by lia. change (256 ^ 1) with 256.
    assert (0 < 256 ^ zlen l) by (apply Z.pow_pos_nonneg; lia). nia.
Qed.
Lemma le_encode_len n v : length (le_encode n v) = n.
Proof. revert v; induction n; intros v; cbn; auto. Qed.
Lemma zlen_be_enc n v : zlen (be_encode n v) = Z.of_nat n.
Proof. unfold zlen, be_encode. rewrite rev_length, le_encode_len. reflexivity. Qed.
Lemma bd_snoc l b : be_decode (l ++ [b]) = be_decode l * 256 + b.
Proof. rewrite bd_app. change (zlen [b]) with 1. change (be_decode [b]) with (0 * 256 + b). lia. Qed.
Lemma bd_enc_mod n v : be_decode (be_encode n v) = v mod 256 ^ Z.of_nat n.
Proof.
  unfold be_encode. revert v; induction n as [|n IH]; intros v.
  - cbn. rewrite Z.mod_1_r. reflexivity.
  - cbn [le_encode rev]. rewrite bd_snoc, IH.
    replace (Z.of_nat (S n)) with (1 + Z.of_nat n) by lia.
    rewrite Z.pow_add_r by lia. change (256 ^ 1) with 256.
    rewrite Z.rem_mul_r by (try lia; apply Z.pow_pos_nonneg; lia). lia.
Qed.
Lemma le_enc_bytes n v : bytes_ok (le_encode n v).
Proof. unfold bytes_ok. revert v; induction n; intros v; cbn; constructor; [apply Z.mod_pos_bound; lia | apply IHn]. Qed.
Lemma be_enc_bytes n v : bytes_ok (be_encode n v).
Proof. unfold be_encode, bytes_ok. apply Forall_rev. apply le_enc_bytes. Qed.
Lemma bytes_ok_app a b : bytes_ok a -> bytes_ok b -> bytes_ok (a ++ b).
Proof. unfold bytes_ok. intros. apply Forall_app. split; assumption. Qed.
Lemma bytes_ok_firstn n l : bytes_ok l -> bytes_ok (firstn n l).
Proof. unfold bytes_ok. revert l; induction n; intros l H; cbn; [constructor|]. destruct H; constructor; auto. Qed.
Lemma bytes_ok_skipn n l : bytes_ok l -> bytes_ok (skipn n l).
Proof. unfold bytes_ok. revert l; induction n; intros l H; cbn; [exact H|]. destruct H; [constructor|auto]. Qed.

Lemma pow256 L : 0 <= L -> 256 ^ L = 2 ^ (8 * L).
Proof. intros H. rewrite Z.pow_mul_r by lia. reflexivity. Qed.
Lemma pow2_pos k : 0 <= k -> 0 < 2 ^ k.
Proof. intros. apply Z.pow_pos_nonneg; lia. Qed.

(* (B * 2^m + D) split at bit k + m *)
Lemma split_div B D k m : 0 <= D < 2 ^ m -> 0 <= k -> 0 <= m -> (B * 2 ^ m + D) / 2 ^ (k + m) = B / 2 ^ k.
Proof.
  intros HD Hk Hm. pose proof (pow2_pos m Hm). pose proof (pow2_pos k Hk).
  rewrite (Z.add_comm k m), Z.pow_add_r by lia. rewrite <- Z.div_div by lia.
  rewrite Z.div_add_l by lia. rewrite (Z.div_small D) by lia. rewrite Z.add_0_r. reflexivity.
Qed.
Lemma split_mod B D k m : 0 <= D < 2 ^ m -> 0 <= k -> 0 <= m -> (B * 2 ^ m + D) mod 2 ^ (k + m) = (B mod 2 ^ k) * 2 ^ m + D.
Proof.
  intros HD Hk Hm. pose proof (pow2_pos m Hm). pose proof (pow2_pos k Hk).
  rewrite (Z.add_comm k m), Z.pow_add_r by lia. rewrite Z.rem_mul_r by lia.
  rewrite Z.div_add_l by lia. rewrite (Z.div_small D) by lia. rewrite Z.add_0_r.
  assert (E : (B * 2 ^ m + D) mod 2 ^ m = D).
  { rewrite (Z.add_comm (B * 2 ^ m) D), Z.mod_add by lia. apply Z.mod_small. lia. }
  rewrite E. lia.
Qed.

(* ------------------------------------------------------------------ the reader as a number *)
Definition brW (r : bitreader) : Z := br_bits r + 8 * zlen (br_rest r).
Definition brS (r : bitreader) : Z := br_buffer r * 256 ^ zlen (br_rest r) + be_decode (br_rest r).
Definition wf0 (r : bitreader) : Prop := 0 <= br_bits r /\ 0 <= br_buffer r < 2 ^ br_bits r /\ bytes_ok (br_rest r).
Definition wf (r : bitreader) : Prop := wf0 r /\ br_bits r < 8.

Lemma brS_bound r : wf0 r -> 0 <= brS r < 2 ^ brW r.
Proof.
  intros (Hb & Hbuf & Hr). unfold brS, brW. pose proof (zlen_nonneg (br_rest r)) as HL.
  pose proof (bd_bound _ Hr) as HD. rewrite pow256 in * by lia.
  rewrite Z.pow_add_r by lia. pose proof (pow2_pos (8 * zlen (br_rest r)) ltac:(lia)). nia.
Qed.

(* the second half of bits(): take n of the buffered bits *)
Definition br_take (n : Z) (r : bitreader) : Z * bitreader :=
  (br_buffer r / 2 ^ (br_bits r - n), mkBR (br_buffer r mod 2 ^ (br_bits r - n)) (br_bits r - n) (br_rest r)).
Lemma br_take_spec n r : wf0 r -> 0 <= n <= br_bits r ->
  fst (br_take n r) = brS r / 2 ^ (brW r - n) /\ wf0 (snd (br_take n r)) /\
  brW (snd (br_take n r)) = brW r - n /\ brS (snd (br_take n r)) = brS r mod 2 ^ (brW r - n) /\
  br_rest (snd (br_take n r)) = br_rest r /\ br_bits (snd (br_take n r)) = br_bits r - n.
Proof.
  intros (Hb & Hbuf & Hr) Hn. unfold br_take, brS, brW. cbn [fst snd br_bits br_buffer br_rest].
  pose proof (zlen_nonneg (br_rest r)) as HL. pose proof (bd_bound _ Hr) as HD. rewrite pow256 in * by lia.
  replace (br_bits r + 8 * zlen (br_rest r) - n) with ((br_bits r - n) + 8 * zlen (br_rest r)) by lia.
  rewrite split_div, split_mod by lia.
  split; [reflexivity|]. split.
  { unfold wf0. cbn [br_bits br_buffer br_rest]. split; [lia|].
    split; [apply Z.mod_pos_bound; apply pow2_pos; lia | exact Hr]. }
  split; [lia|]. split; [reflexivity|]. split; reflexivity.
Qed.

Lemma fold_is_acc data buf : fold_left (fun acc b => acc * 256 + b) data buf = be_decode_acc buf data.
Proof. revert buf; induction data as [|x d IH]; intros buf; cbn; [reflexivity | apply IH]. Qed.

Lemma br_read_unfold n r :
  br_read n r =
  match (if n >? br_bits r then
           let k := (n - br_bits r + 7) / 8 in
           let data := ztake k (br_rest r) in
           if negb (zlen data =? k) then None
           else Some (mkBR (fold_left (fun acc b => acc * 256 + b) data (br_buffer r)) (br_bits r + k * 8) (zdrop k (br_rest r)))
         else Some r) with
  | None => None
  | Some r1 => Some (br_take n r1)
  end.
Proof. reflexivity. Qed.

(* bits(n) with n bits available *)
Lemma br_read_spec n r : wf r -> 0 <= n <= brW r ->
  exists r', br_read n r = Some (brS r / 2 ^ (brW r - n), r') /\ wf r' /\ brW r' = brW r - n /\
             brS r' = brS r mod 2 ^ (brW r - n) /\ zlen (br_rest r') <= zlen (br_rest r).
Proof.
  intros ((Hb & Hbuf & Hr) & H8) Hn. rewrite br_read_unfold.
  pose proof (zlen_nonneg (br_rest r)) as HL.
  destruct (n >? br_bits r) eqn:E.
  - apply Z.gtb_lt in E. cbv zeta.
    set (k := (n - br_bits r + 7) / 8).
    assert (Hk : 0 <= k <= zlen (br_rest r) /\ 8 * k - 7 <= n - br_bits r <= 8 * k).
    { unfold brW in Hn. unfold k. Z.to_euclidean_division_equations. lia. }
    assert (Hlen : zlen (ztake k (br_rest r)) = k) by (rewrite zlen_ztake by lia; lia).
    rewrite Hlen, Z.eqb_refl. cbn [negb].
    set (r1 := mkBR _ _ _).
    assert (W1 : brW r1 = brW r).
    { unfold brW, r1. cbn [br_bits br_rest]. rewrite zlen_zdrop by lia. lia. }
    assert (S1 : brS r1 = brS r).
    { unfold brS, r1. cbn [br_buffer br_rest]. rewrite fold_is_acc, bd_acc_shift, Hlen.
      rewrite <- (ztake_zdrop k (br_rest r)) at 4 5. rewrite bd_app, zlen_app, Hlen.
      pose proof (zlen_nonneg (zdrop k (br_rest r))). rewrite Z.pow_add_r by lia. lia. }
    assert (F1 : wf0 r1).
    { unfold wf0, r1. cbn [br_bits br_buffer br_rest]. split; [lia|]. split.
      - rewrite fold_is_acc, bd_acc_shift, Hlen.
        pose proof (bd_bound (ztake k (br_rest r)) (bytes_ok_firstn _ _ Hr)) as HD. rewrite Hlen in HD.
        rewrite pow256 in * by lia. rewrite Z.pow_add_r by lia.
        pose proof (pow2_pos (8 * k) ltac:(lia)). replace (k * 8) with (8 * k) by lia. nia.
      - apply bytes_ok_skipn. exact Hr. }
    destruct (br_take_spec n r1 F1) as (A & B & C & D & G & I).
    { unfold r1. cbn [br_bits]. lia. }
    rewrite W1, S1 in *.
    exists (snd (br_take n r1)).
    split; [rewrite <- A; destruct (br_take n r1); reflexivity|].
    split; [split; [exact B|]|].
    + rewrite I. unfold r1. cbn [br_bits]. lia.
    + split; [exact C|]. split; [exact D|].
      rewrite G. unfold r1. cbn [br_rest]. rewrite zlen_zdrop by lia. lia.
  - rewrite Z.gtb_ltb in E. apply Z.ltb_ge in E.
    destruct (br_take_spec n r (conj Hb (conj Hbuf Hr))) as (A & B & C & D & G & I); [lia|].
    exists (snd (br_take n r)).
    split; [rewrite <- A; destruct (br_take n r); reflexivity|].
    split; [split; [exact B | lia]|].
    split; [exact C|]. split; [exact D|]. rewrite G. lia.
Qed.

(* skip(n) with n bits available: the same effect, and the seek stays inside the file *)
Lemma br_skip_spec n r : wf r -> 0 <= n <= brW r ->
  exists r', br_skip n r = Some r' /\ wf r' /\ brW r' = brW r - n /\ brS r' = brS r mod 2 ^ (brW r - n) /\
             ((n <=? br_bits r) = false -> (n - br_bits r) / 8 <= zlen (br_rest r)).
Proof.
  intros Hwf Hn. unfold br_skip. destruct (n <=? br_bits r) eqn:E.
  - destruct (br_read_spec n r Hwf Hn) as (r' & A & B & C & D & _).
    exists r'. rewrite A. cbn [option_map snd]. split; [reflexivity|]. repeat (split; [assumption|]). discriminate.
  - apply Z.leb_gt in E. destruct Hwf as ((Hb & Hbuf & Hr) & H8).
    pose proof (zlen_nonneg (br_rest r)) as HL.
    set (nb := (n - br_bits r) / 8).
    assert (Hnb : 0 <= nb <= zlen (br_rest r) /\ 8 * nb <= n - br_bits r < 8 * nb + 8).
    { unfold brW in Hn. unfold nb. Z.to_euclidean_division_equations. lia. }
    set (r1 := mkBR 0 0 (zdrop nb (br_rest r))).
    assert (F1 : wf r1).
    { unfold wf, wf0, r1. cbn [br_bits br_buffer br_rest]. split; [|lia]. split; [lia|]. split; [cbn; lia|].
      apply bytes_ok_skipn. exact Hr. }
    assert (W1 : brW r1 = 8 * (zlen (br_rest r) - nb)).
    { unfold brW, r1. cbn [br_bits br_rest]. rewrite zlen_zdrop by lia. lia. }
    destruct (br_read_spec (n - br_bits r - nb * 8) r1 F1) as (r' & A & B & C & D & _); [unfold brW in Hn; lia|].
    exists r'. rewrite A. cbn [option_map snd].
    split; [reflexivity|]. split; [exact B|].
    assert (WW : brW r1 - (n - br_bits r - nb * 8) = brW r - n) by (unfold brW at 2; lia).
    split; [lia|]. split; [|intros _; lia].
    rewrite D, WW.
    (* brS r = X * 2^(brW r1) + brS r1 and 2^(brW r - n) divides 2^(brW r1) *)
    assert (S1 : brS r = (br_buffer r * 256 ^ nb + be_decode (ztake nb (br_rest r))) * 2 ^ (n - br_bits r - nb * 8) * 2 ^ (brW r - n) + brS r1).
    { unfold brS, r1. cbn [br_buffer br_rest].
      pose proof (ztake_zdrop nb (br_rest r)) as TD.
      assert (E1 : be_decode (br_rest r) = be_decode (ztake nb (br_rest r)) * 256 ^ zlen (zdrop nb (br_rest r)) + be_decode (zdrop nb (br_rest r))).
      { rewrite <- TD at 1. apply bd_app. }
      assert (HZ : zlen (zdrop nb (br_rest r)) = zlen (br_rest r) - nb) by (rewrite zlen_zdrop by lia; lia).
      assert (E3 : 2 ^ (n - br_bits r - nb * 8) * 2 ^ (brW r - n) = 256 ^ zlen (zdrop nb (br_rest r))).
      { rewrite <- Z.pow_add_r by (unfold brW; lia). rewrite pow256 by lia. f_equal. unfold brW. lia. }
      rewrite <- Z.mul_assoc, E3, E1.
      replace (zlen (br_rest r)) with (nb + zlen (zdrop nb (br_rest r))) by lia.
      rewrite Z.pow_add_r by lia. ring. }
    rewrite S1. rewrite Z.add_comm, Z.mod_add; [reflexivity|].
    pose proof (pow2_pos (brW r - n) ltac:(lia)). lia.
Qed.

(* ------------------------------------------------------------------ packed fields *)
Fixpoint fields_ok (fs : list (Z * Z)) : Prop :=
  match fs with [] => True | (x, w) :: r => 0 <= w /\ 0 <= x < 2 ^ w /\ fields_ok r end.
Lemma fw_nonneg fs : fields_ok fs -> 0 <= fields_width fs.
Proof. induction fs as [|[x w] r IH]; cbn [fields_ok fields_width]; [lia|]. intros (A & B & C). specialize (IH C). lia. Qed.
Lemma fv_bound fs : fields_ok fs -> 0 <= fields_value fs < 2 ^ fields_width fs.
Proof.
  induction fs as [|[x w] r IH]; cbn [fields_ok fields_width fields_value]; [cbn; lia|].
  intros (A & B & C). specialize (IH C). pose proof (fw_nonneg r C).
  rewrite Z.pow_add_r by lia. pose proof (pow2_pos (fields_width r) ltac:(lia)). nia.
Qed.
Lemma fw_app a b : fields_width (a ++ b) = fields_width a + fields_width b.
Proof. induction a as [|[x w] r IH]; cbn [app fields_width]; [lia|]. rewrite IH. lia. Qed.
Lemma fields_ok_app a b : fields_ok (a ++ b) <-> fields_ok a /\ fields_ok b.
Proof. induction a as [|[x w] r IH]; cbn [app fields_ok]; tauto. Qed.
Lemma fv_app a b : fields_ok a -> fields_ok b ->
  fields_value (a ++ b) = fields_value a * 2 ^ fields_width b + fields_value b.
Proof.
  intros Ha Hb. induction a as [|[x w] r IH]; cbn [app fields_value fields_width]; [lia|].
  destruct Ha as (A & B & C). rewrite IH by exact C. rewrite fw_app.
  pose proof (fw_nonneg r C). pose proof (fw_nonneg b Hb). rewrite Z.pow_add_r by lia. lia.
Qed.

Definition holds (r : bitreader) (c : Z) (fs : list (Z * Z)) (tail : list Z) : Prop :=
  wf r /\ fields_ok fs /\ bytes_ok tail /\ brW r = fields_width fs + 8 * zlen tail /\
  brS r = fields_value fs * 256 ^ zlen tail + be_decode tail /\ (c + fields_width fs) mod 8 = 0.

(* a reader that consumed exactly the fields fs1 *)
Lemma holds_advance r r' c fs1 fs2 tail :
  holds r c (fs1 ++ fs2) tail -> wf r' -> brW r' = brW r - fields_width fs1 ->
  brS r' = brS r mod 2 ^ (brW r - fields_width fs1) ->
  holds r' (c + fields_width fs1) fs2 tail /\ brS r / 2 ^ (brW r - fields_width fs1) = fields_value fs1.
Proof.
  intros (Hwf & Hok & Ht & HW & HS & Hc) Hwf' W' S'.
  apply fields_ok_app in Hok. destruct Hok as (Ok1 & Ok2).
  pose proof (fw_nonneg _ Ok1) as N1. pose proof (fw_nonneg _ Ok2) as N2. pose proof (zlen_nonneg tail) as NT.
  pose proof (fv_bound _ Ok2) as B2. pose proof (bd_bound _ Ht) as BT.
  rewrite fw_app in HW, Hc. rewrite fv_app in HS by assumption. rewrite pow256 in * by lia.
  set (m := fields_width fs2 + 8 * zlen tail).
  set (D := fields_value fs2 * 2 ^ (8 * zlen tail) + be_decode tail).
  assert (HD : 0 <= D < 2 ^ m).
  { unfold D, m. rewrite Z.pow_add_r by lia. pose proof (pow2_pos (8 * zlen tail) ltac:(lia)). nia. }
  assert (HS2 : brS r = fields_value fs1 * 2 ^ m + D).
  { rewrite HS. unfold D, m. rewrite Z.pow_add_r by lia. lia. }
  assert (HWm : brW r - fields_width fs1 = 0 + m) by (unfold m; lia).
  assert (Hm0 : 0 <= m) by (unfold m; lia).
  rewrite HS2, HWm in S' |- *. rewrite split_div; [| exact HD | lia | exact Hm0]. rewrite split_mod in S'; [| exact HD | lia | exact Hm0].
  change (2 ^ 0) with 1 in *. rewrite Z.mod_1_r in S'. rewrite Z.div_1_r.
  split; [|reflexivity].
  unfold holds. rewrite pow256 by lia. repeat (split; [assumption|]).
  split; [unfold m in W'; lia|]. split; [unfold D in S'; lia|].
  rewrite <- Hc. f_equal. lia.
Qed.

Lemma holds_read r c x w fs tail : holds r c ((x, w) :: fs) tail ->
  exists r', br_read w r = Some (x, r') /\ holds r' (c + w) fs tail.
Proof.
  intros H. pose proof H as (Hwf & Hok & Ht & HW & HS & Hc).
  destruct Hok as (Hw & Hx & Hok). pose proof (fw_nonneg _ Hok). pose proof (zlen_nonneg tail).
  cbn [fields_width] in HW.
  destruct (br_read_spec w r Hwf ltac:(lia)) as (r' & A & B & C & D & _).
  destruct (holds_advance r r' c [(x, w)] fs tail H B) as (H' & V).
  - cbn [fields_width]. lia.
  - cbn [fields_width]. rewrite Z.add_0_r. exact D.
  - cbn [fields_width fields_value] in H', V. rewrite Z.add_0_r in H', V.
    exists r'. split; [|exact H']. rewrite A. f_equal. f_equal. rewrite V.
    change (2 ^ 0) with 1. lia.
Qed.

Lemma holds_skip r c fs1 fs2 tail : holds r c (fs1 ++ fs2) tail ->
  exists r', br_skip (fields_width fs1) r = Some r' /\ holds r' (c + fields_width fs1) fs2 tail /\
             ((fields_width fs1 <=? br_bits r) = false -> (fields_width fs1 - br_bits r) / 8 <= zlen (br_rest r)).
Proof.
  intros H. pose proof H as (Hwf & Hok & Ht & HW & HS & Hc).
  apply fields_ok_app in Hok. destruct Hok as (Ok1 & Ok2).
  pose proof (fw_nonneg _ Ok1). pose proof (fw_nonneg _ Ok2). pose proof (zlen_nonneg tail). rewrite fw_app in HW.
  destruct (br_skip_spec (fields_width fs1) r Hwf ltac:(lia)) as (r' & A & B & C & D & E).
  destruct (holds_advance r r' c fs1 fs2 tail H B C D) as (H' & _).
  exists r'. split; [exact A|]. split; [exact H' | exact E].
Qed.

(* ------------------------------------------------------------------ the ADIF reader state (reader, overshoot) *)
Lemma a_bits_holds r c x w fs tail : holds r c ((x, w) :: fs) tail ->
  exists r', a_bits w (r, 0) = Some (x, (r', 0)) /\ holds r' (c + w) fs tail.
Proof.
  intros H. destruct (holds_read _ _ _ _ _ _ H) as (r' & A & H'). exists r'. split; [|exact H'].
  unfold a_bits. cbn [fst snd]. rewrite A. reflexivity.
Qed.
Lemma a_skip_holds n r c fs1 fs2 tail : holds r c (fs1 ++ fs2) tail -> n = fields_width fs1 ->
  exists r', a_skip n (r, 0) = Some (r', 0) /\ holds r' (c + n) fs2 tail.
Proof.
  intros H ->. destruct (holds_skip _ _ _ _ _ H) as (r' & A & H' & E). exists r'. split; [|exact H'].
  unfold a_skip. cbn [fst snd]. rewrite A. f_equal. f_equal.
  destruct (fields_width fs1 <=? br_bits r) eqn:L; [reflexivity|]. specialize (E eq_refl). lia.
Qed.
(* r.align() in front of the alignment field: the buffered bits are exactly that field *)
Lemma a_align_holds r c pw fs tail : holds r c ((0, pw) :: fs) tail -> pw = (- c) mod 8 ->
  exists r', a_align (r, 0) = (r', 0) /\ holds r' (c + pw) fs tail.
Proof.
  intros H Hpw. pose proof H as (Hwf & Hok & Ht & HW & HS & Hc).
  destruct Hok as (Hw & Hx & Hok). pose proof (fw_nonneg _ Hok). pose proof (zlen_nonneg tail).
  pose proof (zlen_nonneg (br_rest r)). cbn [fields_width] in HW, Hc.
  destruct Hwf as ((Hb & Hbuf & Hr) & H8).
  assert (Hbits : br_bits r = pw).
  { unfold brW in HW. Z.to_euclidean_division_equations. lia. }
  destruct (holds_read _ _ _ _ _ _ H) as (r' & A & H').
  exists r'. split; [|exact H'].
  rewrite br_read_unfold in A. rewrite <- Hbits in A.
  assert (G : (br_bits r >? br_bits r) = false) by (rewrite Z.gtb_ltb; apply Z.ltb_irrefl).
  rewrite G in A.
  unfold br_take in A. rewrite Z.sub_diag in A. change (2 ^ 0) with 1 in A. rewrite Z.mod_1_r in A.
  injection A as _ A. unfold a_align. cbn [fst snd]. rewrite A. reflexivity.
Qed.

(* fields of a fixed width per list element *)
Lemma fw_map_const {A} (f : A -> Z) w (l : list A) : fields_width (map (fun t => (f t, w)) l) = w * zlen l.
Proof. induction l as [|x l IH]; cbn [map fields_width]; [cbn; lia|]. rewrite IH, zlen_cons. lia. Qed.
Lemma fields_ok_map_const {A} (f : A -> Z) w (l : list A) : 0 <= w -> Forall (fun t => 0 <= f t < 2 ^ w) l ->
  fields_ok (map (fun t => (f t, w)) l).
Proof. intros Hw. induction 1; cbn [map fields_ok]; auto. Qed.

(* the initial state: a reader at the start of pack_fields fs ++ tail *)
Lemma holds_init fs tail : fields_ok fs -> bytes_ok tail ->
  holds (br_new (pack_fields fs ++ tail)) 0 (fs ++ [(0, (- fields_width fs) mod 8)]) tail.
Proof.
  intros Hok Ht. pose proof (fw_nonneg _ Hok) as N. pose proof (zlen_nonneg tail) as NT.
  set (pad := (- fields_width fs) mod 8).
  assert (Hpad : 0 <= pad < 8) by (apply Z.mod_pos_bound; lia).
  assert (Hm : (fields_width fs + pad) mod 8 = 0) by (unfold pad; Z.to_euclidean_division_equations; lia).
  assert (Okp : fields_ok [(0, pad)]).
  { cbn [fields_ok]. split; [lia|]. split; [|exact I]. pose proof (pow2_pos pad ltac:(lia)). lia. }
  unfold pack_fields. fold pad. set (m := Z.to_nat ((fields_width fs + pad) / 8)).
  assert (Hm8 : 8 * Z.of_nat m = fields_width fs + pad).
  { unfold m. rewrite Z2Nat.id by (Z.to_euclidean_division_equations; lia). Z.to_euclidean_division_equations. lia. }
  unfold holds. split.
  { unfold wf, wf0, br_new. cbn [br_bits br_buffer br_rest]. split; [|lia]. split; [lia|]. split; [cbn; lia|].
    apply bytes_ok_app; [apply be_enc_bytes | exact Ht]. }
  split; [apply fields_ok_app; split; assumption|]. split; [exact Ht|].
  rewrite fw_app, fv_app by assumption. cbn [fields_width fields_value].
  split.
  { unfold brW, br_new. cbn [br_bits br_rest]. rewrite zlen_app, zlen_be_enc. lia. }
  split.
  { unfold brS, br_new. cbn [br_buffer br_rest]. rewrite bd_app, bd_enc_mod.
    replace (pad + 0) with pad by lia.
    rewrite Z.mod_small; [change (2 ^ 0) with 1; ring|].
    rewrite pow256 by lia. rewrite Hm8.
    pose proof (fv_bound _ Hok). rewrite Z.pow_add_r by lia. pose proof (pow2_pos pad ltac:(lia)). nia. }
  rewrite Z.add_0_r, Z.add_0_l. exact Hm.
Qed.
