(* The surgery of MP4Tags.save in the abstract: splice of the region, then __update_parents over the ancestors, then
   __update_offsets over the stco / co64 / tfhd atoms of a well-formed tree.  What every byte of the result is:
   outside region and patch sites the old byte (shifted by delta behind the region), the region = the new data,
   the ancestors' size fields = old + delta, every table entry o -> o + delta iff o > region start. *)
From Coq Require Import ZArith List Bool Lia.
Import ListNotations.
Require Import Base.Py Base.ZList Model.Splice Model.Fam_mp4 Proofs.Splice_lemmas
  Proofs.Fam_mp4_bytes Proofs.Fam_mp4_tree Proofs.Fam_mp4_steps Proofs.Fam_mp4_agree Proofs.Fam_mp4_path Proofs.Fam_mp4_lists.
Open Scope Z_scope.

Definition clear_of (a n lo hi : Z) : Prop := a + n <= lo \/ hi <= a.

(* ------------------------------------------------------------------ a fold of site-local steps over distinct extents *)
Section Phase.
  Variable step : list Z -> mp4_atom -> result (list Z).
  Variable nlo : mp4_atom -> Z.                       (* where the atom sits in the file being patched *)
  Variable pre : mp4_atom -> Prop.
  Hypothesis step_frame : forall g a g', pre a -> step g a = Ok g' -> frame_in (nlo a + 16) (nlo a + ma_len a) g g'.

  Lemma phase_frame l g g' : Forall pre l -> mp4_fold_atoms step g l = Ok g' ->
    zlen g' = zlen g /\
    forall a n, 0 <= a -> a + n <= zlen g -> (forall T, In T l -> clear_of a n (nlo T + 16) (nlo T + ma_len T)) ->
                agree g a g' a n.
  Proof.
    intros Hp H.
    destruct (fold_atoms_frame step (fun a => nlo a + 16) (fun a => nlo a + ma_len a) pre step_frame l g g' Hp H) as (L & F).
    split; [exact L|]. intros a n Ha Hn Hc. repeat split; try lia. intros i Hi. symmetry. apply F; [lia|].
    intros T HT. specialize (Hc T HT). unfold clear_of in Hc. lia.
  Qed.

  Lemma phase_at l g g' T :
    Forall pre l -> NoDup l -> In T l -> 0 <= nlo T -> nlo T + ma_len T <= zlen g -> 0 <= ma_len T ->
    (forall T', In T' l -> T' <> T -> clear_of (nlo T) (ma_len T) (nlo T' + 16) (nlo T' + ma_len T')) ->
    mp4_fold_atoms step g l = Ok g' ->
    exists g1 g2, step g1 T = Ok g2 /\ zlen g1 = zlen g /\ zlen g2 = zlen g /\ zlen g' = zlen g /\
                  agree g (nlo T) g1 (nlo T) (ma_len T) /\ agree g2 (nlo T) g' (nlo T) (ma_len T).
  Proof.
    intros Hp Hnd HT H0 Hfit Hlen Hd H.
    apply in_split in HT. destruct HT as (l1 & l2 & ->).
    apply Forall_app in Hp. destruct Hp as (Hp1 & Hp2). inversion Hp2 as [|? ? HpT Hp2']; subst.
    destruct (fold_atoms_split step l1 T l2 g g' H) as (g1 & g2 & H1 & H2 & H3).
    destruct (phase_frame l1 g g1 Hp1 H1) as (L1 & F1).
    destruct (step_frame _ _ _ HpT H2) as (L2 & _).
    destruct (phase_frame l2 g2 g' Hp2' H3) as (L3 & F3).
    assert (Hnot1 : forall T', In T' l1 -> T' <> T).
    { intros T' HT' ->. apply NoDup_remove_2 in Hnd. apply Hnd. apply in_or_app. left; exact HT'. }
    assert (Hnot2 : forall T', In T' l2 -> T' <> T).
    { intros T' HT' ->. apply NoDup_remove_2 in Hnd. apply Hnd. apply in_or_app. right; exact HT'. }
    exists g1, g2. repeat split; try lia; auto.
    - apply F1; try lia. intros T' HT'. apply Hd; [apply in_or_app; left; exact HT'|apply Hnot1; exact HT'].
    - apply F3; try lia. intros T' HT'. apply Hd; [apply in_or_app; right; right; exact HT'|apply Hnot2; exact HT'].
  Qed.
End Phase.

Lemma shift_zero off o : mp4_shift off 0 o = o.
Proof. unfold mp4_shift. destruct (off <? o); lia. Qed.
Lemma map_shift_zero off l : map (mp4_shift off 0) l = l.
Proof. induction l as [|x r IH]; [reflexivity|]. cbn [map]. rewrite shift_zero, IH. reflexivity. Qed.
Lemma moved_zero off a : mp4_moved off 0 a = a.
Proof. unfold mp4_moved. destruct (a >? off); lia. Qed.

(* ------------------------------------------------------------------ the surgery *)
Section Surgery.
Variables (f : list Z) (atoms : list mp4_atom).
Hypothesis Hwf : mp4_forest_ok f true atoms 0 (zlen f) = true.
Hypothesis Htab : mp4_tables_ok f atoms = true.
Variables (off old : Z) (data : list Z).
Hypothesis Hoff : 0 <= off.
Hypothesis Hold : 0 <= old.
Hypothesis Hfit : off + old <= zlen f.
(* the offset __update_offsets compares with: the region start for __save_existing, one less for the insertion of
   __save_new (everything AT the insertion point moves too) *)
Variable cmp : Z.
Hypothesis Hcmp : off - 1 <= cmp.
Let delta := zlen data - old.
Let f1 := splice f off old data.

(* old position -> new position, for positions outside the region *)
Definition mv (a : Z) : Z := if off + old <=? a then a + delta else a.

Let stcos := mp4_stco_list atoms.
Let co64s := mp4_co64_list atoms.
Let tfhds := mp4_tfhd_list atoms.
(* every table lies entirely before the region, or behind it and strictly behind its start *)
Definition placed (T : mp4_atom) : Prop := ma_off T + ma_len T <= off \/ (off + old <= ma_off T /\ cmp < ma_off T).
Hypothesis Hplaced : Forall placed (stcos ++ co64s ++ tfhds).

Lemma zlen_f1 : zlen f1 = zlen f + delta.
Proof. unfold f1, delta. rewrite splice_len by lia. lia. Qed.
Lemma data_nonneg : 0 <= zlen data. Proof. apply zlen_nonneg. Qed.

Lemma agree_f_f1 a n : 0 <= a -> a + n <= zlen f -> clear_of a n off (off + old) -> 0 <= n -> agree f a f1 (mv a) n.
Proof.
  intros Ha Hn Hc Hn0. unfold mv, clear_of in *. destruct (off + old <=? a) eqn:E.
  - apply agree_splice_after; lia.
  - assert (a + n <= off) by lia. apply agree_splice_before; lia.
Qed.

Lemma placed_moved T : placed T -> 8 <= ma_len T -> mp4_moved cmp delta (ma_off T) = mv (ma_off T).
Proof.
  unfold placed, mp4_moved, mv. intros [H|(H1 & H2)] Hl.
  - destruct (ma_off T >? cmp) eqn:E1; [lia|]. destruct (off + old <=? ma_off T) eqn:E2; [lia|]. reflexivity.
  - destruct (ma_off T >? cmp) eqn:E1; [|lia]. destruct (off + old <=? ma_off T) eqn:E2; [|lia]. reflexivity.
Qed.

(* facts about one member of the table lists *)
Definition tab_member (T : mp4_atom) : Prop :=
  In T (mp4_flat atoms) /\ placed T /\ 0 <= ma_off T /\ ma_off T + ma_len T <= zlen f /\ 8 <= ma_len T /\
  ma_kids T = None.

Lemma leaf_of_name x : In x (mp4_flat atoms) -> mp4_is_container (ma_name x) = false -> ma_kids x = None.
Proof.
  intros Hx Hn. destruct (flat_member_ok f atoms Hwf x Hx) as (top & Hok).
  destruct (ma_kids x) as [ks|] eqn:E; [|reflexivity].
  destruct (atom_ok_kids _ _ _ _ Hok E) as (Hc & _). congruence.
Qed.

Lemma member_facts T : In T (stcos ++ co64s ++ tfhds) -> tab_member T.
Proof.
  intros HT. assert (Hp : placed T) by (rewrite Forall_forall in Hplaced; apply Hplaced; exact HT).
  assert (Hin : In T (mp4_flat atoms) /\ mp4_is_container (ma_name T) = false).
  { apply in_app_or in HT. destruct HT as [HT|HT]; [|apply in_app_or in HT; destruct HT as [HT|HT]].
    - destruct (stco_in atoms T HT) as (H1 & H2). split; [exact H1|]. rewrite H2. reflexivity.
    - destruct (co64_in atoms T HT) as (H1 & H2). split; [exact H1|]. rewrite H2. reflexivity.
    - destruct (tfhd_in atoms T HT) as (H1 & H2). split; [exact H1|]. rewrite H2. reflexivity. }
  destruct Hin as (Hin & Hnc).
  destruct (flat_member_ok f atoms Hwf T Hin) as (top & Hok). pose proof (atom_ok_len _ _ _ Hok).
  unfold tab_member. repeat split; auto; try lia. apply leaf_of_name; assumption.
Qed.

(* two distinct leaves of the tree have disjoint extents, also after the move *)
Lemma leaves_apart T T' : tab_member T -> tab_member T' -> T' <> T ->
  clear_of (mv (ma_off T)) (ma_len T) (mv (ma_off T') + 16) (mv (ma_off T') + ma_len T').
Proof.
  intros (H1 & P1 & O1 & E1 & L1 & K1) (H2 & P2 & O2 & E2 & L2 & K2) Hne.
  destruct (segs_disjoint _ _ _ _ _ T T' Hwf H1 H2) as [E|D]; [congruence|].
  unfold seg_of, s_hi, s_lo in D. rewrite K1, K2 in D. cbn [fst snd] in D.
  unfold placed in *. unfold clear_of, mv.
  pose proof data_nonneg. unfold delta.
  destruct (off + old <=? ma_off T) eqn:A1; destruct (off + old <=? ma_off T') eqn:A2; lia.
Qed.

(* ================================================================== phase 1: the ancestors' size fields *)
Variable As : list mp4_atom.
Definition anc_ok (A : mp4_atom) : Prop :=
  In A (mp4_flat atoms) /\ (exists ks, ma_kids A = Some ks) /\ ma_off A + ma_hdr A + mp4_skip (ma_name A) <= off.
Hypothesis HAs : Forall anc_ok As.
Hypothesis HAs_nd : NoDup As.

(* the header of ancestor A in g' carries ma_len A + d in the form it had in f (a size-0 field is left alone) *)
Definition anc_updated (d : Z) (g' : list Z) (A : mp4_atom) : Prop :=
  let o := ma_off A in
  mp4_rd g' (o + 4) 4 = mp4_rd f (o + 4) 4 /\
  (be_decode (mp4_rd f o 4) = 0 -> mp4_rd g' o 4 = mp4_rd f o 4) /\
  (be_decode (mp4_rd f o 4) = 1 -> mp4_rd g' o 4 = mp4_rd f o 4 /\ be_decode (mp4_rd g' (o + 8) 8) = ma_len A + d) /\
  (be_decode (mp4_rd f o 4) <> 0 -> be_decode (mp4_rd f o 4) <> 1 -> be_decode (mp4_rd g' o 4) = ma_len A + d).

Lemma anc_header A : anc_ok A ->
  0 <= ma_off A /\ (ma_hdr A = 8 \/ ma_hdr A = 16) /\ ma_off A + ma_hdr A <= off /\ ma_off A + 8 <= zlen f /\
  mp4_rd f (ma_off A + 4) 4 = ma_name A /\
  (be_decode (mp4_rd f (ma_off A) 4) = 1 -> ma_hdr A = 16 /\ be_decode (mp4_rd f (ma_off A + 8) 8) = ma_len A) /\
  (be_decode (mp4_rd f (ma_off A) 4) <> 0 -> be_decode (mp4_rd f (ma_off A) 4) <> 1 ->
     ma_hdr A = 8 /\ be_decode (mp4_rd f (ma_off A) 4) = ma_len A) /\
  (be_decode (mp4_rd f (ma_off A) 4) = 0 -> ma_hdr A = 8).
Proof.
  intros (Hin & _ & Hpos). destruct (flat_member_ok f atoms Hwf A Hin) as (top & Hok).
  pose proof (atom_ok_header _ _ _ Hok) as Hh. pose proof (header_ok_facts _ _ _ _ _ _ Hh) as (F1 & F2 & F3 & F4 & F5 & F6 & F7).
  pose proof (skip_nonneg (ma_name A)) as Hs.
  assert (Hs32 : be_decode (ztake 4 (mp4_rd f (ma_off A) 8)) = be_decode (mp4_rd f (ma_off A) 4)) by (rewrite ztake_rd by lia; reflexivity).
  unfold mp4_header_ok in Hh. rewrite Hs32 in Hh.
  apply andb_true_iff in Hh. destruct Hh as [_ HE].
  repeat split; try lia; auto.
Qed.

(* two distinct ancestors (containers) have disjoint headers *)
Lemma anc_apart A B : anc_ok A -> anc_ok B -> A <> B ->
  clear_of (ma_off A) (ma_hdr A) (ma_off B) (ma_off B + ma_hdr B).
Proof.
  intros (H1 & (k1 & K1) & P1) (H2 & (k2 & K2) & P2) Hne.
  destruct (segs_disjoint _ _ _ _ _ A B Hwf H1 H2) as [E|D]; [congruence|].
  unfold seg_of, s_hi, s_lo in D. rewrite K1, K2 in D. cbn [fst snd] in D.
  pose proof (skip_nonneg (ma_name A)). pose proof (skip_nonneg (ma_name B)). unfold clear_of. lia.
Qed.

Lemma parents_fold : forall l g g',
  Forall anc_ok l -> NoDup l -> zlen g = zlen f1 ->
  (forall A, In A l -> agree f (ma_off A) g (ma_off A) (ma_hdr A)) ->
  mp4_fold (mp4_update_parent delta) g (map ma_off l) = Ok g' ->
  zlen g' = zlen g /\
  (forall a n, 0 <= a -> a + n <= zlen g -> (forall A, In A l -> clear_of a n (ma_off A) (ma_off A + ma_hdr A)) -> agree g a g' a n) /\
  (forall A, In A l -> anc_updated delta g' A).
Proof.
  induction l as [|A r IH]; intros g g' Hok Hnd Hlen Hag H.
  - cbn in H. inversion H; subst. split; [reflexivity|]. split.
    + intros a n Ha Hn _. apply agree_refl; lia.
    + intros A [].
  - cbn [map mp4_fold] in H. destruct (mp4_update_parent delta g (ma_off A)) as [g1|e] eqn:E; [|discriminate].
    inversion Hok as [|? ? HA Hr]; subst. inversion Hnd as [|? ? HnA Hndr]; subst.
    pose proof (anc_header A HA) as (F0 & Fh & Fo & F8 & Fn & F64 & F32 & Fz).
    pose proof (Hag A (or_introl eq_refl)) as HagA.
    assert (Hg4 : mp4_rd g (ma_off A) 4 = mp4_rd f (ma_off A) 4) by (symmetry; apply (agree_rd0 _ _ _ _ _ 4 HagA); lia).
    assert (HgA : ma_off A + ma_hdr A <= zlen g) by (destruct HagA as (_ & _ & _ & X & _); exact X).
    (* what this step does *)
    assert (Hstep : frame_in (ma_off A) (ma_off A + ma_hdr A) g g1 /\ anc_updated delta g1 A).
    { unfold anc_updated. cbv zeta.
      destruct (Z.eq_dec (be_decode (mp4_rd f (ma_off A) 4)) 0) as [Z0|N0].
      - rewrite update_parent_size0 in E by (try lia; rewrite Hg4; exact Z0). inversion E; subst g1.
        split; [apply frame_in_refl|].
        split; [symmetry; apply (agree_rd _ _ _ _ _ 4 4 HagA); lia|].
        split; [intros _; exact Hg4|]. split; [intros; lia|intros; lia].
      - destruct (Z.eq_dec (be_decode (mp4_rd f (ma_off A) 4)) 1) as [Z1|N1].
        + destruct (F64 Z1) as (Hh & Hl).
          assert (Hg8 : mp4_rd g (ma_off A + 8) 8 = mp4_rd f (ma_off A + 8) 8) by (symmetry; apply (agree_rd _ _ _ _ _ 8 8 HagA); lia).
          destruct (update_parent_64 delta g (ma_off A) (ma_len A) g1) as (Hrg & ->); try lia.
          { rewrite Hg4; exact Z1. } { rewrite Hg8; exact Hl. } { exact E. }
          split; [apply frame_in_patch; rewrite ?zlen_be_enc; lia|].
          assert (Hout : forall q n, 0 <= q -> 0 <= n -> q + n <= ma_off A + 8 ->
                    mp4_rd (patch g (ma_off A + 8) (be_encode 8 (ma_len A + delta))) q n = mp4_rd g q n).
          { intros q n Hq Hn Hqn. apply rd_patch_out; rewrite ?zlen_be_enc; lia. }
          split; [rewrite Hout by lia; symmetry; apply (agree_rd _ _ _ _ _ 4 4 HagA); lia|].
          split; [intros; lia|]. split; [|intros; lia]. intros _.
          split; [rewrite Hout by lia; exact Hg4|].
          replace 8 with (zlen (be_encode 8 (ma_len A + delta))) at 2 by apply zlen_be_enc.
          rewrite rd_patch_in by (rewrite ?zlen_be_enc; lia). apply be_dec_enc8. lia.
        + destruct (F32 N0 N1) as (Hh & Hl).
          destruct (update_parent_32 delta g (ma_off A) (ma_len A) g1) as (Hrg & ->); try lia.
          { rewrite Hg4; exact Hl. } { exact E. }
          split; [apply frame_in_patch; rewrite ?zlen_be_enc; lia|].
          split; [rewrite rd_patch_out by (rewrite ?zlen_be_enc; lia); symmetry; apply (agree_rd _ _ _ _ _ 4 4 HagA); lia|].
          split; [intros; lia|]. split; [intros; lia|]. intros _ _.
          replace 4 with (zlen (be_encode 4 (ma_len A + delta))) at 1 by apply zlen_be_enc.
          rewrite rd_patch_in by (rewrite ?zlen_be_enc; lia). apply be_dec_enc4. lia. }
    destruct Hstep as (Hfr & Hup). destruct Hfr as (L1 & F1).
    assert (Hag1 : forall B, In B r -> agree f (ma_off B) g1 (ma_off B) (ma_hdr B)).
    { intros B HB. eapply agree_trans; [apply Hag; right; exact HB|].
      rewrite Forall_forall in Hr. pose proof (anc_header B (Hr B HB)) as (G0 & Gh & Go & _).
      apply (agree_frame (ma_off A) (ma_off A + ma_hdr A)); [split; [exact L1|exact F1]|lia| |].
      - destruct (Hag B (or_intror HB)) as (_ & _ & _ & X & _). exact X.
      - assert (B <> A) by (intros ->; apply HnA; exact HB).
        pose proof (anc_apart B A (Hr B HB) HA H0) as C. unfold clear_of in C. lia. }
    destruct (IH g1 g' Hr Hndr ltac:(lia) Hag1 H) as (L2 & F2 & U2).
    split; [lia|]. split.
    + intros a n Ha Hn Hc. eapply agree_trans.
      * apply (agree_frame (ma_off A) (ma_off A + ma_hdr A)); [split; [exact L1|exact F1]|lia|lia|].
        specialize (Hc A (or_introl eq_refl)). unfold clear_of in Hc. lia.
      * apply F2; [lia|lia|]. intros B HB. apply Hc. right; exact HB.
    + intros B [<-|HB]; [|apply U2; exact HB].
      (* later steps do not touch A's header *)
      assert (Hkeep : agree g1 (ma_off A) g' (ma_off A) (ma_hdr A)).
      { apply F2; [lia|lia|]. intros B HB. assert (B <> A) by (intros ->; apply HnA; exact HB).
        rewrite Forall_forall in Hr. apply anc_apart; auto. }
      unfold anc_updated in *. cbv zeta in *. destruct Hup as (U1 & U0 & U64 & U32).
      assert (K4 : mp4_rd g' (ma_off A) 4 = mp4_rd g1 (ma_off A) 4) by (symmetry; apply (agree_rd0 _ _ _ _ _ 4 Hkeep); lia).
      assert (K44 : mp4_rd g' (ma_off A + 4) 4 = mp4_rd g1 (ma_off A + 4) 4) by (symmetry; apply (agree_rd _ _ _ _ _ 4 4 Hkeep); lia).
      split; [rewrite K44; exact U1|]. split; [intros Z0; rewrite K4; apply U0; exact Z0|]. split.
      * intros Z1. destruct (U64 Z1) as (V1 & V2). split; [rewrite K4; exact V1|].
        destruct (F64 Z1) as (Hh & _).
        assert (K8 : mp4_rd g' (ma_off A + 8) 8 = mp4_rd g1 (ma_off A + 8) 8) by (symmetry; apply (agree_rd _ _ _ _ _ 8 8 Hkeep); lia).
        rewrite K8. exact V2.
      * intros N0 N1. rewrite K4. apply U32; assumption.
Qed.

(* ================================================================== phase 2: offset tables and tfhd *)
Definition nlo (T : mp4_atom) : Z := mp4_moved cmp delta (ma_off T).
Lemma nlo_mv T : tab_member T -> nlo T = mv (ma_off T).
Proof. intros (_ & P & _ & _ & L & _). apply placed_moved; assumption. Qed.

Definition tab_updated (w : nat) (g : list Z) (T : mp4_atom) : Prop :=
  agree f (ma_off T) g (mv (ma_off T)) 16 /\
  tab_entries w g (mv (ma_off T)) = map (mp4_shift cmp delta) (tab_entries w f (ma_off T)).

Lemma mv_bounds T : tab_member T -> 0 <= mv (ma_off T) /\ mv (ma_off T) + ma_len T <= zlen f1.
Proof.
  intros (_ & P & O & E & L & _). rewrite zlen_f1. pose proof data_nonneg. unfold mv, placed, delta in *.
  destruct (off + old <=? ma_off T) eqn:A; lia.
Qed.
Lemma member_agree_f1 T : tab_member T -> agree f (ma_off T) f1 (mv (ma_off T)) (ma_len T).
Proof.
  intros (_ & P & O & E & L & _). apply agree_f_f1; try lia. unfold placed, clear_of in *. lia.
Qed.

Lemma table_phase (w : nat) l : (0 < w)%nat -> forall g g',
  Forall tab_member l -> NoDup l -> Forall (fun T => mp4_table_ok f (Z.of_nat w) T = true) l ->
  zlen g = zlen f1 ->
  (forall T, In T l -> agree f (ma_off T) g (mv (ma_off T)) (ma_len T)) ->
  mp4_fold_atoms (mp4_update_table w delta cmp) g l = Ok g' ->
  zlen g' = zlen g /\
  (forall a n, 0 <= a -> a + n <= zlen g -> (forall T, In T l -> clear_of a n (mv (ma_off T) + 16) (mv (ma_off T) + ma_len T)) ->
               agree g a g' a n) /\
  (forall T, In T l -> tab_updated w g' T).
Proof.
  intros Hw g g' Hmem Hnd Hok Hlen Hag H.
  set (pre := fun T => 0 <= nlo T /\ 12 <= ma_len T).
  assert (Hframe : forall g0 a g1, pre a -> mp4_update_table w delta cmp g0 a = Ok g1 ->
                     frame_in (nlo a + 16) (nlo a + ma_len a) g0 g1).
  { intros g0 a g1 (P1 & P2) E. unfold nlo in *. apply update_table_frame with (w := w); assumption. }
  assert (Hpre : Forall pre l).
  { apply Forall_forall. intros T HT. rewrite Forall_forall in Hmem, Hok. pose proof (Hmem T HT) as M.
    destruct (table_ok_facts f (Z.of_nat w) T (Hok T HT) ltac:(lia)) as (_ & C0 & CL).
    unfold pre. rewrite (nlo_mv T M). destruct (mv_bounds T M). split; [lia|nia]. }
  destruct (phase_frame _ nlo pre Hframe l g g' Hpre H) as (L & F).
  split; [exact L|]. split.
  - intros a n Ha Hn Hc. apply F; auto. intros T HT. rewrite Forall_forall in Hmem. rewrite (nlo_mv T (Hmem T HT)). apply Hc; exact HT.
  - intros T HT. rewrite Forall_forall in Hmem, Hok. pose proof (Hmem T HT) as M.
    destruct (table_ok_facts f (Z.of_nat w) T (Hok T HT) ltac:(lia)) as (_ & C0 & CL).
    destruct (mv_bounds T M) as (B0 & B1). pose proof M as (_ & _ & _ & _ & L8 & _).
    destruct (phase_at _ nlo pre Hframe l g g' T Hpre Hnd HT) as (g1 & g2 & S & Z1 & Z2 & Z3 & A1 & A2).
    + rewrite (nlo_mv T M). lia.
    + rewrite (nlo_mv T M). lia.
    + lia.
    + intros T' HT' Hne. rewrite (nlo_mv T M), (nlo_mv T' (Hmem T' HT')). apply leaves_apart; auto.
    + exact H.
    + rewrite (nlo_mv T M) in *.
      assert (AF : agree f (ma_off T) g1 (mv (ma_off T)) (ma_len T)) by (eapply agree_trans; [apply Hag; exact HT|exact A1]).
      destruct (tab_entries_agree w _ _ _ _ _ AF C0 ltac:(lia)) as (TE1 & TC1).
      pose proof (update_table_spec w delta cmp g1 T g2 Hw) as SP. cbv zeta in SP. fold (nlo T) in SP.
      rewrite (nlo_mv T M) in SP. rewrite <- TC1 in SP.
      (* the 16 leading bytes are not written *)
      assert (A12 : agree g1 (mv (ma_off T)) g2 (mv (ma_off T)) 16).
      { apply (agree_frame (mv (ma_off T) + 16) (mv (ma_off T) + ma_len T)); try lia.
        rewrite <- (nlo_mv T M). unfold nlo. apply update_table_frame with (w := w); [|nia|exact S].
        fold (nlo T). rewrite (nlo_mv T M). lia. }
      destruct (SP ltac:(lia) C0 CL ltac:(lia) S) as (_ & _ & TE2 & TC2).
      split.
      * eapply agree_trans; [apply (agree_prefix _ _ _ _ _ 16 AF); lia|].
        eapply agree_trans; [exact A12|]. apply (agree_prefix _ _ _ _ _ 16 A2); lia.
      * destruct (tab_entries_agree w _ _ _ _ _ A2) as (TE3 & _).
        { rewrite TC2. exact C0. } { rewrite TC2. lia. }
        rewrite <- TE3, TE2, <- TE1. reflexivity.
Qed.

Definition tfhd_updated (g : list Z) (T : mp4_atom) : Prop :=
  agree f (ma_off T) g (mv (ma_off T)) 12 /\
  (tfhd_flag f (ma_off T) = false -> agree f (ma_off T) g (mv (ma_off T)) (ma_len T)) /\
  (tfhd_flag f (ma_off T) = true ->
     tfhd_base g (mv (ma_off T)) = mp4_shift cmp delta (tfhd_base f (ma_off T)) /\
     agree f (ma_off T) g (mv (ma_off T)) 16 /\
     agree f (ma_off T + 24) g (mv (ma_off T) + 24) (ma_len T - 24)).

Lemma shift_gt o : (if o >? cmp then o + delta else o) = mp4_shift cmp delta o.
Proof. unfold mp4_shift. destruct (o >? cmp) eqn:A, (cmp <? o) eqn:B; lia. Qed.

Lemma tfhd_phase l : forall g g',
  Forall tab_member l -> NoDup l -> Forall (fun T => mp4_tfhd_ok f T = true) l ->
  zlen g = zlen f1 ->
  (forall T, In T l -> agree f (ma_off T) g (mv (ma_off T)) (ma_len T)) ->
  mp4_fold_atoms (mp4_update_tfhd delta cmp) g l = Ok g' ->
  zlen g' = zlen g /\
  (forall a n, 0 <= a -> a + n <= zlen g -> (forall T, In T l -> clear_of a n (mv (ma_off T) + 16) (mv (ma_off T) + ma_len T)) ->
               agree g a g' a n) /\
  (forall T, In T l -> tfhd_updated g' T).
Proof.
  intros g g' Hmem Hnd Hok Hlen Hag H.
  set (pre := fun T => 0 <= nlo T /\ 9 <= ma_len T).
  assert (Hframe : forall g0 a g1, pre a -> mp4_update_tfhd delta cmp g0 a = Ok g1 ->
                     frame_in (nlo a + 16) (nlo a + ma_len a) g0 g1).
  { intros g0 a g1 (P1 & P2) E. unfold nlo in *. apply update_tfhd_frame; assumption. }
  assert (Hpre : Forall pre l).
  { apply Forall_forall. intros T HT. rewrite Forall_forall in Hmem, Hok. pose proof (Hmem T HT) as M.
    destruct (tfhd_ok_facts f T (Hok T HT)) as (_ & C0 & _).
    unfold pre. rewrite (nlo_mv T M). destruct (mv_bounds T M). split; lia. }
  destruct (phase_frame _ nlo pre Hframe l g g' Hpre H) as (L & F).
  split; [exact L|]. split.
  - intros a n Ha Hn Hc. apply F; auto. intros T HT. rewrite Forall_forall in Hmem. rewrite (nlo_mv T (Hmem T HT)). apply Hc; exact HT.
  - intros T HT. rewrite Forall_forall in Hmem, Hok. pose proof (Hmem T HT) as M.
    destruct (tfhd_ok_facts f T (Hok T HT)) as (_ & C12 & C24).
    destruct (mv_bounds T M) as (B0 & B1).
    destruct (phase_at _ nlo pre Hframe l g g' T Hpre Hnd HT) as (g1 & g2 & S & Z1 & Z2 & Z3 & A1 & A2).
    + rewrite (nlo_mv T M). lia.
    + rewrite (nlo_mv T M). lia.
    + lia.
    + intros T' HT' Hne. rewrite (nlo_mv T M), (nlo_mv T' (Hmem T' HT')). apply leaves_apart; auto.
    + exact H.
    + rewrite (nlo_mv T M) in *.
      assert (AF : agree f (ma_off T) g1 (mv (ma_off T)) (ma_len T)) by (eapply agree_trans; [apply Hag; exact HT|exact A1]).
      assert (FL : tfhd_flag f (ma_off T) = tfhd_flag g1 (mv (ma_off T))) by (apply (tfhd_flag_agree _ _ _ _ _ AF); lia).
      change (mp4_tfhd_flag f T) with (tfhd_flag f (ma_off T)) in C24.
      pose proof (update_tfhd_spec delta cmp g1 T g2) as SP. cbv zeta in SP. fold (nlo T) in SP.
      rewrite (nlo_mv T M) in SP. rewrite <- FL in SP.
      destruct (SP ltac:(lia) C12 C24 ltac:(lia) S) as (FL2 & SF & ST).
      assert (FR : frame_in (mv (ma_off T) + 16) (mv (ma_off T) + ma_len T) g1 g2).
      { rewrite <- (nlo_mv T M). unfold nlo. apply update_tfhd_frame; [|lia|exact S].
        fold (nlo T). rewrite (nlo_mv T M). lia. }
      split; [|split].
      * eapply agree_trans; [apply (agree_prefix _ _ _ _ _ 12 AF); lia|].
        eapply agree_trans; [|apply (agree_prefix _ _ _ _ _ 12 A2); lia].
        apply (agree_frame _ _ _ _ _ _ FR); lia.
      * intros E0. rewrite (SF E0) in *. eapply agree_trans; [exact AF|exact A2].
      * intros E1. specialize (C24 E1). destruct (ST E1) as (_ & -> & TB).
        destruct (tfhd_agree _ _ _ _ _ AF C24) as (_ & BF).
        destruct (tfhd_agree _ _ _ _ _ A2 C24) as (_ & B2).
        split; [|split].
        -- rewrite <- B2, TB, <- BF. apply shift_gt.
        -- eapply agree_trans; [apply (agree_prefix _ _ _ _ _ 16 AF); lia|].
           eapply agree_trans; [|apply (agree_prefix _ _ _ _ _ 16 A2); lia].
           apply (agree_frame _ _ _ _ _ _ FR); lia.
        -- eapply agree_trans; [apply (agree_sub _ _ _ _ _ 24 (ma_len T - 24) AF); lia|].
           eapply agree_trans; [|apply (agree_sub _ _ _ _ _ 24 (ma_len T - 24) A2); lia].
           apply (agree_frame (mv (ma_off T) + 16) (mv (ma_off T) + 24)); try lia.
           apply frame_in_patch; rewrite ?zlen_be_enc; lia.
Qed.

(* ================================================================== composition *)
Lemma clear_mv_anc a n A : 0 <= n -> clear_of a n off (off + old) -> clear_of a n (ma_off A) (ma_off A + ma_hdr A) -> anc_ok A ->
  clear_of (mv a) n (ma_off A) (ma_off A + ma_hdr A).
Proof.
  intros Hn C1 C2 HA. destruct (anc_header A HA) as (F0 & Fh & Fo & _). pose proof data_nonneg.
  unfold clear_of, mv, delta in *. destruct (off + old <=? a) eqn:E; lia.
Qed.
Lemma clear_mv_tab a n T : 0 <= n -> clear_of a n off (off + old) -> clear_of a n (ma_off T + 16) (ma_off T + ma_len T) -> tab_member T ->
  clear_of (mv a) n (mv (ma_off T) + 16) (mv (ma_off T) + ma_len T).
Proof.
  intros Hn C1 C2 (_ & P & O & E & L & _). pose proof data_nonneg.
  unfold clear_of, mv, delta, placed in *.
  destruct (off + old <=? a) eqn:E1; destruct (off + old <=? ma_off T) eqn:E2; lia.
Qed.
Lemma member_clear_anc T A : tab_member T -> anc_ok A -> clear_of (mv (ma_off T)) (ma_len T) (ma_off A) (ma_off A + ma_hdr A).
Proof.
  intros (H1 & P & O & E & L & K1) HA. pose proof HA as (H2 & (k2 & K2) & P2).
  destruct (anc_header A HA) as (F0 & Fh & Fo & _). pose proof data_nonneg.
  destruct (segs_disjoint _ _ _ _ _ T A Hwf H1 H2) as [EQ|D]; [subst; congruence|].
  unfold seg_of, s_hi, s_lo in D. rewrite K1, K2 in D. cbn [fst snd] in D.
  pose proof (skip_nonneg (ma_name A)). unfold clear_of, mv, delta, placed in *.
  destruct (off + old <=? ma_off T) eqn:E2; lia.
Qed.
Lemma region_clear_tab T : tab_member T -> clear_of off (zlen data) (mv (ma_off T) + 16) (mv (ma_off T) + ma_len T).
Proof.
  intros (_ & P & O & E & L & _). pose proof data_nonneg. unfold clear_of, mv, delta, placed in *.
  destruct (off + old <=? ma_off T) eqn:E2; lia.
Qed.

Lemma anc_updated_transfer d g g' A : anc_ok A -> anc_updated d g A -> agree g (ma_off A) g' (ma_off A) (ma_hdr A) ->
  anc_updated d g' A.
Proof.
  intros HA (U1 & U0 & U64 & U32) AG. destruct (anc_header A HA) as (F0 & Fh & Fo & F8 & Fn & F64 & F32 & Fz).
  assert (K4 : mp4_rd g' (ma_off A) 4 = mp4_rd g (ma_off A) 4) by (symmetry; apply (agree_rd0 _ _ _ _ _ 4 AG); lia).
  assert (K44 : mp4_rd g' (ma_off A + 4) 4 = mp4_rd g (ma_off A + 4) 4) by (symmetry; apply (agree_rd _ _ _ _ _ 4 4 AG); lia).
  unfold anc_updated. cbv zeta.
  split; [rewrite K44; exact U1|]. split; [intros Z0; rewrite K4; apply U0; exact Z0|]. split.
  - intros Z1. destruct (U64 Z1) as (V1 & V2). split; [rewrite K4; exact V1|]. destruct (F64 Z1) as (Hh & _).
    assert (K8 : mp4_rd g' (ma_off A + 8) 8 = mp4_rd g (ma_off A + 8) 8) by (symmetry; apply (agree_rd _ _ _ _ _ 8 8 AG); lia).
    rewrite K8. exact V2.
  - intros N0 N1. rewrite K4. apply U32; assumption.
Qed.

Lemma tab_updated_transfer w g g' T : (0 < w)%nat -> tab_member T -> mp4_table_ok f (Z.of_nat w) T = true ->
  tab_updated w g T -> agree g (mv (ma_off T)) g' (mv (ma_off T)) (ma_len T) -> tab_updated w g' T.
Proof.
  intros Hw M Hok (A16 & TE) AG. destruct (table_ok_facts f (Z.of_nat w) T Hok ltac:(lia)) as (_ & C0 & CL).
  assert (TC : mp4_rd g (mv (ma_off T) + 12) 4 = mp4_rd f (ma_off T + 12) 4) by (symmetry; apply (agree_rd _ _ _ _ _ 12 4 A16); lia).
  split.
  - eapply agree_trans; [exact A16|]. apply (agree_prefix _ _ _ _ _ 16 AG). nia.
  - destruct (tab_entries_agree w _ _ _ _ _ AG) as (TE2 & _); [rewrite TC; exact C0|rewrite TC; lia|].
    rewrite <- TE2. exact TE.
Qed.

Lemma tfhd_updated_transfer g g' T : tab_member T -> mp4_tfhd_ok f T = true ->
  tfhd_updated g T -> agree g (mv (ma_off T)) g' (mv (ma_off T)) (ma_len T) -> tfhd_updated g' T.
Proof.
  intros M Hok (A12 & UF & UT) AG. destruct (tfhd_ok_facts f T Hok) as (_ & C12 & C24).
  change (mp4_tfhd_flag f T) with (tfhd_flag f (ma_off T)) in C24.
  split; [|split].
  - eapply agree_trans; [exact A12|]. apply (agree_prefix _ _ _ _ _ 12 AG). lia.
  - intros E0. eapply agree_trans; [apply UF; exact E0|exact AG].
  - intros E1. specialize (C24 E1). destruct (UT E1) as (TB & A16 & A24).
    destruct (tfhd_agree _ _ _ _ _ AG C24) as (_ & B2). split; [rewrite <- B2; exact TB|]. split.
    + eapply agree_trans; [exact A16|]. apply (agree_prefix _ _ _ _ _ 16 AG). lia.
    + eapply agree_trans; [exact A24|]. apply (agree_sub _ _ _ _ _ 24 (ma_len T - 24) AG); lia.
Qed.

Variables (f2 f' : list Z).
Hypothesis Hrun1 : mp4_update_parents delta f1 (map ma_off As) = Ok f2.
Hypothesis Hrun2 : mp4_update_offsets atoms delta cmp f2 = Ok f'.

Definition all_tabs : list mp4_atom := stcos ++ co64s ++ tfhds.

Lemma members_of l : (forall T, In T l -> In T all_tabs) -> Forall tab_member l.
Proof. intros H. apply Forall_forall. intros T HT. apply member_facts. apply H. exact HT. Qed.

Lemma stco_ok_all : Forall (fun T => mp4_table_ok f (Z.of_nat 4) T = true) stcos.
Proof.
  apply Forall_forall. intros T HT. destruct (stco_in atoms T HT) as (H1 & H2).
  destruct (tables_ok_at f atoms Htab T H1) as (K & _ & _). apply K; exact H2.
Qed.
Lemma co64_ok_all : Forall (fun T => mp4_table_ok f (Z.of_nat 8) T = true) co64s.
Proof.
  apply Forall_forall. intros T HT. destruct (co64_in atoms T HT) as (H1 & H2).
  destruct (tables_ok_at f atoms Htab T H1) as (_ & K & _). apply K; exact H2.
Qed.
Lemma tfhd_ok_all : Forall (fun T => mp4_tfhd_ok f T = true) tfhds.
Proof.
  apply Forall_forall. intros T HT. destruct (tfhd_in atoms T HT) as (H1 & H2).
  destruct (tables_ok_at f atoms Htab T H1) as (_ & _ & K). apply K; exact H2.
Qed.
Lemma names_differ x y n m : ma_name x = n -> ma_name y = m -> n <> m -> x <> y.
Proof. intros; congruence. Qed.

Theorem surgery_result :
  zlen f' = zlen f + delta /\
  (forall a n, 0 <= a -> 0 <= n -> a + n <= zlen f -> clear_of a n off (off + old) ->
     (forall A, In A As -> clear_of a n (ma_off A) (ma_off A + ma_hdr A)) ->
     (forall T, In T all_tabs -> clear_of a n (ma_off T + 16) (ma_off T + ma_len T)) ->
     agree f a f' (mv a) n) /\
  agree data 0 f' off (zlen data) /\
  (forall A, In A As -> anc_updated delta f' A) /\
  (forall T, In T stcos -> tab_updated 4 f' T) /\
  (forall T, In T co64s -> tab_updated 8 f' T) /\
  (forall T, In T tfhds -> tfhd_updated f' T).
Proof.
  pose proof data_nonneg as Hdn. pose proof zlen_f1 as Hz1.
  assert (Hdelta : delta = zlen data - old) by reflexivity.
  assert (M4 : Forall tab_member stcos) by (apply members_of; intros T HT; unfold all_tabs; apply in_or_app; left; exact HT).
  assert (M8 : Forall tab_member co64s) by (apply members_of; intros T HT; unfold all_tabs; apply in_or_app; right; apply in_or_app; left; exact HT).
  assert (MT : Forall tab_member tfhds) by (apply members_of; intros T HT; unfold all_tabs; apply in_or_app; right; apply in_or_app; right; exact HT).
  assert (Hanc1 : forall A, In A As -> agree f (ma_off A) f1 (ma_off A) (ma_hdr A)).
  { intros A HA. rewrite Forall_forall in HAs. destruct (anc_header A (HAs A HA)) as (F0 & Fh & Fo & _).
    apply agree_splice_before; lia. }
  destruct (Z.eq_dec delta 0) as [D0|DN].
  - (* same size: no patch at all *)
    unfold mp4_update_parents in Hrun1. unfold mp4_update_offsets in Hrun2.
    assert (E0 : (delta =? 0) = true) by (apply Z.eqb_eq; exact D0). rewrite E0 in Hrun1, Hrun2.
    inversion Hrun1; subst f2. inversion Hrun2; subst f'. clear Hrun1 Hrun2.
    split; [lia|]. split; [intros a n Ha Hn Hfa C1 _ _; apply agree_f_f1; assumption|].
    split; [apply agree_splice_in; lia|]. split; [|split; [|split]].
    + intros A HA. rewrite Forall_forall in HAs. pose proof (HAs A HA) as HA'.
      destruct (anc_header A HA') as (F0 & Fh & Fo & F8 & Fn & F64 & F32 & Fz). specialize (Hanc1 A HA).
      assert (K4 : mp4_rd f1 (ma_off A) 4 = mp4_rd f (ma_off A) 4) by (symmetry; apply (agree_rd0 _ _ _ _ _ 4 Hanc1); lia).
      unfold anc_updated. cbv zeta. rewrite D0, Z.add_0_r.
      split; [symmetry; apply (agree_rd _ _ _ _ _ 4 4 Hanc1); lia|]. split; [intros _; exact K4|]. split.
      * intros Z1. destruct (F64 Z1) as (Hh & Hl). split; [exact K4|].
        rewrite <- (agree_rd _ _ _ _ _ 8 8 Hanc1) by lia. exact Hl.
      * intros N0 N1. rewrite K4. apply F32; assumption.
    + intros T HT. rewrite Forall_forall in M4. pose proof (M4 T HT) as M. pose proof (member_agree_f1 T M) as AG.
      pose proof stco_ok_all as OK. rewrite Forall_forall in OK.
      destruct (table_ok_facts f (Z.of_nat 4) T (OK T HT) ltac:(lia)) as (_ & C0 & CL).
      split; [apply (agree_prefix _ _ _ _ _ 16 AG); nia|].
      destruct (tab_entries_agree 4 _ _ _ _ _ AG C0 ltac:(lia)) as (TE & _). rewrite <- TE, D0, map_shift_zero. reflexivity.
    + intros T HT. rewrite Forall_forall in M8. pose proof (M8 T HT) as M. pose proof (member_agree_f1 T M) as AG.
      pose proof co64_ok_all as OK. rewrite Forall_forall in OK.
      destruct (table_ok_facts f (Z.of_nat 8) T (OK T HT) ltac:(lia)) as (_ & C0 & CL).
      split; [apply (agree_prefix _ _ _ _ _ 16 AG); nia|].
      destruct (tab_entries_agree 8 _ _ _ _ _ AG C0 ltac:(lia)) as (TE & _). rewrite <- TE, D0, map_shift_zero. reflexivity.
    + intros T HT. rewrite Forall_forall in MT. pose proof (MT T HT) as M. pose proof (member_agree_f1 T M) as AG.
      pose proof tfhd_ok_all as OK. rewrite Forall_forall in OK.
      destruct (tfhd_ok_facts f T (OK T HT)) as (_ & C12 & C24).
      change (mp4_tfhd_flag f T) with (tfhd_flag f (ma_off T)) in C24.
      split; [apply (agree_prefix _ _ _ _ _ 12 AG); lia|]. split; [intros _; exact AG|].
      intros E1. specialize (C24 E1). destruct (tfhd_agree _ _ _ _ _ AG C24) as (_ & B).
      split; [rewrite <- B, D0, shift_zero; reflexivity|]. split.
      * apply (agree_prefix _ _ _ _ _ 16 AG); lia.
      * apply (agree_sub _ _ _ _ _ 24 (ma_len T - 24) AG); lia.
  - (* the size changed: three ancestors' fields, then the three table folds *)
    unfold mp4_update_parents in Hrun1. unfold mp4_update_offsets in Hrun2.
    assert (E0 : (delta =? 0) = false) by (apply Z.eqb_neq; exact DN). rewrite E0 in Hrun1, Hrun2.
    destruct (mp4_child N_moov atoms) as [moov|] eqn:Em; [|discriminate].
    fold stcos co64s tfhds in Hrun2.
    destruct (mp4_fold_atoms (mp4_update_table 4 delta cmp) f2 stcos) as [g3|] eqn:R3; [|discriminate].
    destruct (mp4_fold_atoms (mp4_update_table 8 delta cmp) g3 co64s) as [g4|] eqn:R4; [|discriminate].
    destruct (parents_fold As f1 f2 HAs HAs_nd eq_refl Hanc1 Hrun1) as (Z2 & Fr2 & U2).
    (* members' extents survive the ancestors' patches *)
    assert (AG2 : forall T, tab_member T -> agree f (ma_off T) f2 (mv (ma_off T)) (ma_len T)).
    { intros T M. eapply agree_trans; [apply member_agree_f1; exact M|].
      destruct (mv_bounds T M). apply Fr2; try lia. intros A HA. rewrite Forall_forall in HAs. apply member_clear_anc; auto. }
    destruct (table_phase 4 stcos ltac:(lia) f2 g3 M4 (stco_nodup f atoms Hwf) stco_ok_all Z2) as (Z3 & Fr3 & U3).
    { intros T HT. rewrite Forall_forall in M4. apply AG2. apply M4; exact HT. } { exact R3. }
    assert (AG3 : forall T, tab_member T -> ~ In T stcos -> agree f (ma_off T) g3 (mv (ma_off T)) (ma_len T)).
    { intros T M Hn. eapply agree_trans; [apply AG2; exact M|]. destruct (mv_bounds T M).
      apply Fr3; try lia. intros T' HT'. rewrite Forall_forall in M4. apply leaves_apart; auto. intros ->. contradiction. }
    assert (N48 : forall T, In T co64s -> ~ In T stcos).
    { intros T H8 H4. destruct (stco_in atoms T H4) as (_ & E4). destruct (co64_in atoms T H8) as (_ & E8).
      rewrite E4 in E8. discriminate. }
    assert (N4T : forall T, In T tfhds -> ~ In T stcos).
    { intros T H8 H4. destruct (stco_in atoms T H4) as (_ & E4). destruct (tfhd_in atoms T H8) as (_ & E8).
      rewrite E4 in E8. discriminate. }
    assert (N8T : forall T, In T tfhds -> ~ In T co64s).
    { intros T H8 H4. destruct (co64_in atoms T H4) as (_ & E4). destruct (tfhd_in atoms T H8) as (_ & E8).
      rewrite E4 in E8. discriminate. }
    destruct (table_phase 8 co64s ltac:(lia) g3 g4 M8 (co64_nodup f atoms Hwf) co64_ok_all ltac:(lia)) as (Z4 & Fr4 & U4).
    { intros T HT. rewrite Forall_forall in M8. apply AG3; [apply M8; exact HT|apply N48; exact HT]. } { exact R4. }
    destruct (tfhd_phase tfhds g4 f' MT (tfhd_nodup f atoms Hwf) tfhd_ok_all ltac:(lia)) as (Z5 & Fr5 & U5).
    { intros T HT. rewrite Forall_forall in MT. pose proof (MT T HT) as M.
      eapply agree_trans; [apply AG3; [exact M|apply N4T; exact HT]|]. destruct (mv_bounds T M).
      apply Fr4; try lia. intros T' HT'. rewrite Forall_forall in M8. apply leaves_apart; auto.
      intros ->. apply (N8T T HT). exact HT'. } { exact Hrun2. }
    (* generic: an interval clear of all table sites (new coordinates) survives the three folds *)
    assert (Fr25 : forall a n, 0 <= a -> a + n <= zlen f1 ->
               (forall T, In T all_tabs -> clear_of a n (mv (ma_off T) + 16) (mv (ma_off T) + ma_len T)) -> agree f2 a f' a n).
    { intros a n Ha Hn Hc. eapply agree_trans; [apply Fr3; try lia|eapply agree_trans; [apply Fr4; try lia|apply Fr5; try lia]].
      - intros T HT. apply Hc. unfold all_tabs. apply in_or_app. left; exact HT.
      - intros T HT. apply Hc. unfold all_tabs. apply in_or_app. right. apply in_or_app. left; exact HT.
      - intros T HT. apply Hc. unfold all_tabs. apply in_or_app. right. apply in_or_app. right; exact HT. }
    split; [lia|]. split; [|split; [|split; [|split; [|split]]]].
    + intros a n Ha Hn Hfa C1 CA CT.
      assert (Hb : 0 <= mv a /\ mv a + n <= zlen f1).
      { unfold mv, clear_of, delta in *. destruct (off + old <=? a) eqn:E; lia. }
      eapply agree_trans; [apply agree_f_f1; assumption|].
      eapply agree_trans; [apply Fr2; try lia|apply Fr25; try lia].
      * intros A HA. rewrite Forall_forall in HAs. apply clear_mv_anc; auto.
      * intros T HT. apply clear_mv_tab; auto. apply member_facts; exact HT.
    + apply (agree_trans _ _ f1 off); [unfold f1; apply agree_splice_in; lia|].
      eapply agree_trans; [apply Fr2; try lia|apply Fr25; try lia].
      * intros A HA. rewrite Forall_forall in HAs. destruct (anc_header A (HAs A HA)) as (F0 & Fh & Fo & _). unfold clear_of. lia.
      * intros T HT. apply region_clear_tab. apply member_facts; exact HT.
    + intros A HA. rewrite Forall_forall in HAs. pose proof (HAs A HA) as HA'.
      apply (anc_updated_transfer delta f2 f' A HA' (U2 A HA)).
      destruct (anc_header A HA') as (F0 & Fh & Fo & _).
      apply Fr25; try lia. intros T HT. pose proof (member_facts T HT) as M.
      pose proof (member_clear_anc T A M HA') as C. unfold clear_of in *. lia.
    + intros T HT. rewrite Forall_forall in M4. pose proof (M4 T HT) as M. pose proof stco_ok_all as OK. rewrite Forall_forall in OK.
      apply (tab_updated_transfer 4 g3 f' T ltac:(lia) M (OK T HT) (U3 T HT)). destruct (mv_bounds T M).
      eapply agree_trans; [apply Fr4; try lia|apply Fr5; try lia].
      * intros T' HT'. rewrite Forall_forall in M8. apply leaves_apart; auto. intros ->. apply (N48 T HT'). exact HT.
      * intros T' HT'. rewrite Forall_forall in MT. apply leaves_apart; auto. intros ->. apply (N4T T HT'). exact HT.
    + intros T HT. rewrite Forall_forall in M8. pose proof (M8 T HT) as M. pose proof co64_ok_all as OK. rewrite Forall_forall in OK.
      apply (tab_updated_transfer 8 g4 f' T ltac:(lia) M (OK T HT) (U4 T HT)). destruct (mv_bounds T M).
      apply Fr5; try lia. intros T' HT'. rewrite Forall_forall in MT. apply leaves_apart; auto. intros ->. apply (N8T T HT'). exact HT.
    + exact U5.
Qed.

(* a leaf atom outside the region that is not one of the visited tables keeps all its bytes *)
Lemma leaf_kept L : In L (mp4_flat atoms) -> ma_kids L = None -> ~ In L all_tabs ->
  clear_of (ma_off L) (ma_len L) off (off + old) ->
  agree f (ma_off L) f' (mv (ma_off L)) (ma_len L).
Proof.
  intros HL KL NL Hpos. destruct (flat_member_ok f atoms Hwf L HL) as (top & Hok). pose proof (atom_ok_len _ _ _ Hok) as LL.
  destruct surgery_result as (_ & Fr & _). apply Fr; try lia; auto.
  - intros An HA. rewrite Forall_forall in HAs. destruct (HAs An HA) as (HAin & (k & HAk) & _).
    destruct (segs_disjoint _ _ _ _ _ L An Hwf HL HAin) as [E|D]; [subst; congruence|].
    pose proof (skip_nonneg (ma_name An)).
    assert (HsA : s_lo (seg_of An) = ma_off An /\ s_hi (seg_of An) = ma_off An + ma_hdr An + mp4_skip (ma_name An))
      by (unfold seg_of, s_lo, s_hi; rewrite HAk; split; reflexivity).
    assert (HsL : s_lo (seg_of L) = ma_off L /\ s_hi (seg_of L) = ma_off L + ma_len L)
      by (unfold seg_of, s_lo, s_hi; rewrite KL; split; reflexivity).
    unfold clear_of. lia.
  - intros T HT. pose proof (member_facts T HT) as (HTin & _ & _ & _ & LT & KT).
    assert (Hne : L <> T) by (intros ->; contradiction).
    destruct (segs_disjoint _ _ _ _ _ L T Hwf HL HTin) as [E|D]; [contradiction|].
    assert (HsT : s_lo (seg_of T) = ma_off T /\ s_hi (seg_of T) = ma_off T + ma_len T)
      by (unfold seg_of, s_lo, s_hi; rewrite KT; split; reflexivity).
    assert (HsL : s_lo (seg_of L) = ma_off L /\ s_hi (seg_of L) = ma_off L + ma_len L)
      by (unfold seg_of, s_lo, s_hi; rewrite KL; split; reflexivity).
    unfold clear_of. lia.
Qed.
End Surgery.
