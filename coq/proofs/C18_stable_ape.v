(* C18: per-type stability of File's choice over the regenerated scores (APEv2 carriers and the tagless types).
   Each lemma: for every file name carrying a usual extension of the type in any letter case, every
   header in the type's family, every trailer: File picks the type and File(easy=True) its Easy
   counterpart.  Proof: the atomic tests of every score are decided from the hypotheses where possible,
   the remaining ones are enumerated by reflection (C18_prims.ball). *)
From Coq Require Import ZArith List Bool Lia.
Import ListNotations.
Require Import Base.Py Model.ScorePrims Gen.Gen_scores Model.Score Proofs.C18_prims.
Open Scope Z_scope.

Lemma stable_WavPack : forall fname header trailer,
  named_as C_WavPack fname -> family C_WavPack header trailer -> picks C_WavPack fname header trailer.
Proof.
  open_named; pose proof Hfam as Hsw; each_ext Hin Hew Hsw.
Qed.

Lemma stable_Musepack : forall fname header trailer,
  named_as C_Musepack fname -> family C_Musepack header trailer -> picks C_Musepack fname header trailer.
Proof.
  open_named; destruct Hfam as [Hsw|Hsw]; each_ext Hin Hew Hsw.
Qed.

Lemma stable_MonkeysAudio : forall fname header trailer,
  named_as C_MonkeysAudio fname -> family C_MonkeysAudio header trailer -> picks C_MonkeysAudio fname header trailer.
Proof.
  open_named; pose proof Hfam as Hsw; each_ext Hin Hew Hsw.
Qed.

Lemma stable_OptimFROG : forall fname header trailer,
  named_as C_OptimFROG fname -> family C_OptimFROG header trailer -> picks C_OptimFROG fname header trailer.
Proof.
  open_named; pose proof Hfam as Hsw; each_ext Hin Hew Hsw.
Qed.

Lemma stable_TAK : forall fname header trailer,
  named_as C_TAK fname -> family C_TAK header trailer -> picks C_TAK fname header trailer.
Proof.
  open_named; pose proof Hfam as Hsw; each_ext Hin Hew Hsw.
Qed.

Lemma stable_AC3 : forall fname header trailer,
  named_as C_AC3 fname -> family C_AC3 header trailer -> no_foreign_marker C_AC3 header = true ->
  picks C_AC3 fname header trailer.
Proof.
  open_named; intro Hnfm; marker_facts Hnfm; pose proof Hfam as Hsw; each_ext Hin Hew Hsw.
Qed.

Lemma stable_SMF : forall fname header trailer,
  named_as C_SMF fname -> family C_SMF header trailer -> no_foreign_marker C_SMF header = true ->
  picks C_SMF fname header trailer.
Proof.
  open_named; intro Hnfm; marker_facts Hnfm; pose proof Hfam as Hsw; each_ext Hin Hew Hsw.
Qed.
