(* C12 (b) continued: the list-valued specs as final field (KeyEventSpec, ASPIIndexSpec, SynchronizedTextSpec,
   VolumeAdjustmentsSpec, RVASpec) and prim_last for every spec kind *)
From Coq Require Import ZArith List Bool Lia.
Import ListNotations.
Require Import Base.Py Base.ZList Model.Id3Spec Model.Id3Frame Proofs.C12_ints Proofs.C12_codec Proofs.C12_specs.
Open Scope Z_scope.

(* ---------------------------------------------------------------- generic helpers *)
Lemma rmapM_ok {A B} (f : A -> result B) (g : A -> B) l :
  (forall x, In x l -> f x = Ok (g x)) -> rmapM f l = Ok (map g l).
Proof.
  induction l as [|x l IH]; intros H; [reflexivity|]. cbn [rmapM map].
  rewrite (H x (or_introl eq_refl)). rewrite IH; [reflexivity|]. intros y Hy. apply H. right. exact Hy.
Qed.
Lemma rconcat_ok {A} (f : A -> result (list Z)) (g : A -> list Z) l :
  (forall x, In x l -> f x = Ok (g x)) -> rconcat f l = Ok (concat (map g l)).
Proof. intros H. unfold rconcat. rewrite (rmapM_ok f g l H). reflexivity. Qed.
Lemma map_id_in {A} (f : A -> A) l : (forall x, In x l -> f x = x) -> map f l = l.
Proof.
  induction l as [|x l IH]; intros H; [reflexivity|]. cbn [map]. rewrite (H x (or_introl eq_refl)).
  rewrite IH; [reflexivity|]. intros y Hy. apply H. right. exact Hy.
Qed.
Lemma forallb_In {A} (f : A -> bool) l x : forallb f l = true -> In x l -> f x = true.
Proof. intros H. rewrite forallb_forall in H. apply H. Qed.

Lemma chunks_concat k cs rest : 0 < k -> Forall (fun ch => zlen ch = k) cs -> zlen rest < k -> forall fuel,
  (length cs <= fuel)%nat -> chunks fuel k (concat cs ++ rest) = (cs, rest).
Proof.
  intros Hk Hcs Hrest. induction Hcs as [|ch cs Hch Hcs IH]; intros fuel Hf.
  - cbn [concat app]. destruct fuel; [reflexivity|]. cbn [chunks].
    replace (k <=? zlen rest) with false by (symmetry; apply Z.leb_gt; lia). reflexivity.
  - destruct fuel as [|fuel]; [cbn [length] in Hf; lia|]. cbn [concat chunks]. rewrite <- app_assoc.
    pose proof (zlen_nonneg (concat cs ++ rest)).
    replace (k <=? zlen (ch ++ concat cs ++ rest)) with true by (symmetry; apply Z.leb_le; rewrite zlen_app; lia).
    replace (0 <? k) with true by (symmetry; apply Z.ltb_lt; lia). cbn [andb].
    rewrite (zdrop_app_len k) by exact Hch. rewrite (ztake_app_len k) by exact Hch.
    rewrite IH by (cbn [length] in Hf; lia). reflexivity.
Qed.
Lemma concat_length_ge k cs : 1 <= k -> Forall (fun ch : list Z => zlen ch = k) cs -> (length cs <= length (concat cs))%nat.
Proof.
  intros Hk H. induction H as [|ch cs Hch Hcs IH]; [cbn; lia|]. cbn [concat length]. rewrite app_length.
  unfold zlen in Hch. lia.
Qed.
Lemma zlen_concat_const k cs : Forall (fun ch : list Z => zlen ch = k) cs -> zlen (concat cs) = k * zlen cs.
Proof.
  intros H. induction H as [|ch cs Hch Hcs IH]; [cbn; lia|]. cbn [concat]. rewrite zlen_app, zlen_cons, IH, Hch. lia.
Qed.

Lemma pack_u_ok n v : 0 <= v <= 256 ^ Z.of_nat n - 1 -> pack_u n v = Ok (be_encode n v).
Proof. intros H. unfold pack_u. replace (in_range _ _ v) with true by (symmetry; apply in_range_spec; exact H). reflexivity. Qed.
Lemma pack_s_ok n v : - (256 ^ Z.of_nat n / 2) <= v <= 256 ^ Z.of_nat n / 2 - 1 ->
  pack_s n v = Ok (be_encode n (v mod 256 ^ Z.of_nat n)).
Proof. intros H. unfold pack_s. cbv zeta. replace (in_range _ _ v) with true by (symmetry; apply in_range_spec; exact H). reflexivity. Qed.

Section Specs2.
Variable sub : list Z -> result (value * list Z).
Variable subw : value -> result (list Z).
Variable subvalid : value -> bool.
Variable ver : Z.
Hypothesis sub_roundtrip : forall v, subvalid v = true -> exists b, subw v = Ok b /\ sub b = Ok (v, []).

Notation pread := (prim_read sub ver).
Notation pwrite := (prim_write subw).
Notation pvalid := (prim_valid subvalid ver).

(* ---------------------------------------------------------------- KeyEventSpec *)
Definition ke_bytes (e : value) : list Z :=
  match e with VList [VInt a; VInt b] => be_encode 1 a ++ be_encode 4 b | _ => [] end.
Definition ke_of (ch : list Z) : value := vpair (VInt (be_decode (ztake 1 ch))) (VInt (be_decode (zdrop 1 ch))).
Definition ke_ok (e : value) : bool :=
  match e with VList [VInt a; VInt b] => in_range 0 255 a && in_range 0 4294967295 b | _ => false end.

Lemma ke_elem e : ke_ok e = true ->
  rbind (as_int_pair e) (fun '(a, b) => rbind (pack_u 1 a) (fun x => rmap (app x) (pack_u 4 b))) = Ok (ke_bytes e) /\
  zlen (ke_bytes e) = 5 /\ ke_of (ke_bytes e) = e.
Proof.
  destruct e as [| | |[|[a| | |] [|[b| | |] [|]]]]; try discriminate. cbn [ke_ok]. intros H.
  apply andb_true_iff in H as [Ha Hb]. apply in_range_spec in Ha, Hb.
  cbn [as_int_pair rbind ke_bytes]. rewrite pack_u_ok by (change (256 ^ Z.of_nat 1) with 256; lia).
  cbn [rbind]. rewrite pack_u_ok by (change (256 ^ Z.of_nat 4) with 4294967296; lia). cbn [rmap].
  split; [reflexivity|]. split; [rewrite zlen_app, !zlen_be_encode; reflexivity|].
  unfold ke_of. rewrite (ztake_app_len 1), (zdrop_app_len 1) by (rewrite zlen_be_encode; reflexivity).
  rewrite (be_decode_encode 1) by (change (256 ^ Z.of_nat 1) with 256; lia).
  rewrite (be_decode_encode 4) by (change (256 ^ Z.of_nat 4) with 4294967296; lia). reflexivity.
Qed.

Lemma keyevent_last c v : pvalid c KKeyEvent v = true ->
  exists b, pwrite c KKeyEvent v = Ok b /\ b <> [] /\ pread c KKeyEvent b = Ok (v, []).
Proof.
  cbn [prim_valid]. destruct v as [| | |l]; try discriminate. intros H. apply andb_true_iff in H as [Hn Hl].
  assert (Hl' : forallb ke_ok l = true).
  { unfold all_int_pairs in Hl. rewrite forallb_forall in Hl |- *. intros e He. specialize (Hl e He).
    destruct e as [| | |[|[a| | |] [|[b| | |] [|]]]]; try discriminate. exact Hl. }
  set (cs := map ke_bytes l).
  assert (Hcs : Forall (fun ch => zlen ch = 5) cs).
  { unfold cs. apply Forall_forall. intros ch Hch. apply in_map_iff in Hch as (e & <- & He).
    apply (ke_elem e (forallb_In _ _ _ Hl' He)). }
  exists (concat cs). cbn [prim_write as_list rbind].
  split; [|split].
  - apply rconcat_ok. intros e He. apply (ke_elem e (forallb_In _ _ _ Hl' He)).
  - destruct l as [|e l]; [discriminate|]. pose proof (ke_elem e (forallb_In _ _ _ Hl' (or_introl eq_refl))) as (_ & L & _).
    unfold cs. cbn [map concat]. intros E. apply app_eq_nil in E as [E _]. rewrite E in L. discriminate.
  - cbn [prim_read]. rewrite <- (app_nil_r (concat cs)).
    rewrite (chunks_concat 5 cs []) by first [lia | exact Hcs | reflexivity | (rewrite app_nil_r; apply (concat_length_ge 5); [lia|exact Hcs])].
    fold ke_of. unfold cs. rewrite map_map, map_id_in; [reflexivity|].
    intros e He. apply (ke_elem e (forallb_In _ _ _ Hl' He)).
Qed.

(* ---------------------------------------------------------------- ASPIIndexSpec *)
Lemma aspi_last c v : pvalid c KASPIIndex v = true ->
  exists b, pwrite c KASPIIndex v = Ok b /\ b <> [] /\ pread c KASPIIndex b = Ok (v, []).
Proof.
  cbn [prim_valid]. destruct v as [| | |l]; try discriminate. intros H.
  apply andb_true_iff in H as [H Hr]. apply andb_true_iff in H as [Hn HN]. apply Z.eqb_eq in HN.
  assert (exists (sz : nat) top, (sz = 1%nat \/ sz = 2%nat) /\ top = 256 ^ Z.of_nat sz - 1 /\ all_ints (in_range 0 top) l = true /\
          (if c_b c =? 16 then 2%nat else if c_b c =? 8 then 1%nat else 0%nat) = sz /\
          (if c_b c =? 16 then 2 else if c_b c =? 8 then 1 else 0) = Z.of_nat sz) as (sz & top & Hsz & Htop & Hall & E1 & E2).
  { destruct (c_b c =? 16); [exists 2%nat, 65535; repeat split; auto|].
    destruct (c_b c =? 8); [exists 1%nat, 255; repeat split; auto|discriminate]. }
  set (enc := fun e => match e with VInt z => be_encode sz z | _ => [] end).
  assert (Hel : forall e, In e l -> rbind (as_int e) (pack_u sz) = Ok (enc e) /\ zlen (enc e) = Z.of_nat sz /\ VInt (be_decode (enc e)) = e).
  { intros e He. unfold all_ints in Hall. pose proof (forallb_In _ _ _ Hall He) as R. destruct e as [z| | |]; try discriminate.
    apply in_range_spec in R. cbn [as_int rbind enc]. rewrite pack_u_ok by lia.
    split; [reflexivity|]. split; [apply zlen_be_encode|]. rewrite be_decode_encode by lia. reflexivity. }
  set (cs := map enc l).
  assert (Hcs : Forall (fun ch => zlen ch = Z.of_nat sz) cs).
  { unfold cs. apply Forall_forall. intros ch Hch. apply in_map_iff in Hch as (e & <- & He). apply (Hel e He). }
  assert (Hw : rconcat (fun e => rbind (as_int e) (pack_u sz)) l = Ok (concat cs)).
  { apply rconcat_ok. intros e He. apply (Hel e He). }
  assert (Lcs : zlen cs = c_N c) by (unfold cs; rewrite zlen_map; exact HN).
  assert (Ldata : zlen (concat cs) = c_N c * Z.of_nat sz) by (rewrite (zlen_concat_const _ _ Hcs), Lcs; lia).
  pose proof (zlen_nonneg l) as HN0.
  exists (concat cs). split; [|split].
  - cbn [prim_write]. rewrite E1. destruct sz as [|sz']; [lia|]. cbn [as_list rbind]. rewrite HN, Z.eqb_refl. cbn [negb].
    rewrite Hw. reflexivity.
  - destruct l as [|e l]; [discriminate|]. destruct (Hel e (or_introl eq_refl)) as (_ & L & _).
    unfold cs. cbn [map concat]. intros E. apply app_eq_nil in E as [E _]. rewrite E in L. cbn in L. lia.
  - cbn [prim_read]. rewrite E2.
    replace (Z.of_nat sz =? 0) with false by (symmetry; apply Z.eqb_neq; lia).
    replace (c_N c <? 0) with false by (symmetry; apply Z.ltb_ge; lia).
    replace (zlen (concat cs) <? c_N c * Z.of_nat sz) with false by (symmetry; apply Z.ltb_ge; lia).
    cbn [orb]. rewrite ztake_all, zdrop_all by lia.
    rewrite <- (app_nil_r (concat cs)).
    rewrite (chunks_concat (Z.of_nat sz) cs []) by first [lia | exact Hcs | (cbn; lia) | (unfold zlen in Lcs; lia)].
    cbn [fst]. unfold cs. rewrite map_map, map_id_in; [reflexivity|]. intros e He. apply (Hel e He).
Qed.

(* ---------------------------------------------------------------- SynchronizedTextSpec *)
Definition sy_bytes (enc : Z) (e : value) : list Z :=
  match e with VList [VText t; VInt tm] => (enc_bytes enc t ++ text_term enc) ++ be_encode 4 tm | _ => [] end.
Definition sy_ok (enc : Z) (e : value) : bool :=
  match e with VList [VText t; VInt tm] => text_ok enc t && in_range 0 4294967295 tm | _ => false end.

Lemma sylt_loop_rt enc : valid_enc enc = true -> forall l fuel, forallb (sy_ok enc) l = true ->
  (length (concat (map (sy_bytes enc) l)) < fuel)%nat ->
  sylt_loop fuel enc (concat (map (sy_bytes enc) l)) = Ok l.
Proof.
  intros He. induction l as [|e l IH]; intros fuel Hl Hf.
  - destruct fuel; reflexivity.
  - cbn [forallb] in Hl. apply andb_true_iff in Hl as [Hv Hl].
    destruct e as [| | |[|[|t| |] [|[tm| | |] [|]]]]; try discriminate. cbn [sy_ok] in Hv.
    apply andb_true_iff in Hv as [Ht Htm]. apply in_range_spec in Htm.
    cbn [map concat sy_bytes] in Hf |- *. set (rest := concat (map (sy_bytes enc) l)) in *.
    destruct fuel as [|fuel]; [lia|].
    assert (D : decode_terminated enc true (((enc_bytes enc t ++ text_term enc) ++ be_encode 4 tm) ++ rest)
                = Ok (t, be_encode 4 tm ++ rest)).
    { rewrite <- !app_assoc. apply decode_terminated_enc; assumption. }
    destruct (((enc_bytes enc t ++ text_term enc) ++ be_encode 4 tm) ++ rest) as [|x xs] eqn:Ex.
    { apply app_eq_nil in Ex as [Ex _]. apply app_eq_nil in Ex as [Ex _]. exfalso. exact (enc_bytes_term_nonnil enc t Ex). }
    cbn [sylt_loop]. rewrite D.
    pose proof (zlen_nonneg rest).
    replace (zlen (be_encode 4 tm ++ rest) <? 4) with false by (symmetry; apply Z.ltb_ge; rewrite zlen_app, zlen_be_encode; lia).
    rewrite (ztake_app_len 4), (zdrop_app_len 4) by (rewrite zlen_be_encode; reflexivity).
    rewrite be_decode_encode by (change (256 ^ Z.of_nat 4) with 4294967296; lia).
    rewrite IH; [reflexivity|exact Hl|].
    rewrite <- Ex in Hf. rewrite !app_length in Hf. rewrite be_encode_length in Hf. lia.
Qed.

Lemma sylt_last c v : pvalid c KSynchronizedText v = true ->
  exists b, pwrite c KSynchronizedText v = Ok b /\ b <> [] /\ pread c KSynchronizedText b = Ok (v, []).
Proof.
  cbn [prim_valid]. intros H. apply andb_true_iff in H as [He H]. destruct v as [| | |l]; try discriminate.
  apply andb_true_iff in H as [Hn Hl]. set (enc := c_enc c) in *.
  assert (Hl' : forallb (sy_ok enc) l = true).
  { rewrite forallb_forall in Hl |- *. intros e Hin. specialize (Hl e Hin).
    destruct e as [| | |[|[|t| |] [|[tm| | |] [|]]]]; try discriminate. exact Hl. }
  exists (concat (map (sy_bytes enc) l)). split; [|split].
  - cbn [prim_write]. fold enc. rewrite He. cbn [negb as_list rbind]. apply rconcat_ok. intros e Hin.
    pose proof (forallb_In _ _ _ Hl' Hin) as Hv.
    destruct e as [| | |[|[|t| |] [|[tm| | |] [|]]]]; try discriminate. cbn [sy_ok] in Hv.
    apply andb_true_iff in Hv as [Ht Htm]. apply in_range_spec in Htm.
    cbn [as_pair rbind as_text as_int sy_bytes]. rewrite enc_text_write_ok by assumption. cbn [rbind].
    rewrite pack_u_ok by (change (256 ^ Z.of_nat 4) with 4294967296; lia). reflexivity.
  - destruct l as [|e l]; [discriminate|]. cbn [forallb] in Hl'. apply andb_true_iff in Hl' as [Hv _].
    destruct e as [| | |[|[|t| |] [|[tm| | |] [|]]]]; try discriminate.
    cbn [map concat sy_bytes]. intros E. apply app_eq_nil in E as [E _]. apply app_eq_nil in E as [E _].
    exact (enc_bytes_term_nonnil enc t E).
  - cbn [prim_read]. fold enc. rewrite He. cbn [negb]. rewrite sylt_loop_rt by (try assumption; lia). reflexivity.
Qed.

(* ---------------------------------------------------------------- VolumeAdjustmentsSpec *)
Definition adj_pairs (l : list value) : list (Z * Z) :=
  flat_map (fun e => match e with VList [VInt a; VInt b] => [(a, b)] | _ => [] end) l.
Definition adj_value (p : Z * Z) : value := vpair (VInt (fst p)) (VInt (snd p)).
Definition adj_bytes (p : Z * Z) : list Z := be_encode 2 (fst p) ++ be_encode 2 (snd p mod 65536).
Definition adj_pair_ok (p : Z * Z) : Prop := 0 <= fst p <= 65535 /\ -32768 <= snd p <= 32767.

Lemma pair_sort_sorted ps : strictly_sorted ps = true -> pair_sort ps = ps.
Proof.
  induction ps as [|p ps IH]; intros H; [reflexivity|]. cbn [pair_sort fold_right].
  destruct ps as [|q ps]; [reflexivity|]. cbn [strictly_sorted] in H. apply andb_true_iff in H as [Hpq Hs].
  fold (pair_sort (q :: ps)). rewrite IH by exact Hs. cbn [pair_insert]. rewrite Hpq. reflexivity.
Qed.
Lemma adj_insert_last k a acc : Forall (fun p => fst p < k) acc -> adj_insert k a acc = acc ++ [(k, a)].
Proof.
  induction acc as [|[k' a'] acc IH]; intros H; [reflexivity|]. inversion H as [|? ? Hk Hacc]; subst. cbn [fst] in Hk.
  cbn [adj_insert]. replace (k <? k') with false by (symmetry; apply Z.ltb_ge; lia).
  replace (k =? k') with false by (symmetry; apply Z.eqb_neq; lia). rewrite IH by exact Hacc. reflexivity.
Qed.
Lemma strictly_sorted_head p ps : strictly_sorted (p :: ps) = true -> Forall (fun q => fst p < fst q) ps /\ strictly_sorted ps = true.
Proof.
  revert p; induction ps as [|q ps IH]; intros p H; [split; [constructor|reflexivity]|].
  cbn [strictly_sorted] in H. apply andb_true_iff in H as [Hpq Hs]. apply Z.ltb_lt in Hpq.
  destruct (IH q Hs) as [Hq Hs']. split; [|exact Hs]. constructor; [exact Hpq|].
  eapply Forall_impl; [|exact Hq]. cbn. intros; lia.
Qed.
Lemma adj_dec p : adj_pair_ok p ->
  be_decode (ztake 2 (adj_bytes p)) = fst p /\ signed 16 (be_decode (zdrop 2 (adj_bytes p))) = snd p.
Proof.
  intros [Hp1 Hp2]. unfold adj_bytes.
  rewrite (ztake_app_len 2), (zdrop_app_len 2) by (rewrite zlen_be_encode; reflexivity).
  rewrite (be_decode_encode 2 (fst p)) by (change (256 ^ Z.of_nat 2) with 65536; lia).
  rewrite (be_decode_encode 2) by (change (256 ^ Z.of_nat 2) with 65536; apply Z.mod_pos_bound; lia).
  change 65536 with (2 ^ 16). rewrite signed_mod by (try lia; change (2 ^ (16 - 1)) with 32768; lia). split; reflexivity.
Qed.
Lemma adj_fold ps : forall acc, strictly_sorted ps = true -> Forall adj_pair_ok ps ->
  Forall (fun p => Forall (fun q => fst p < fst q) ps) acc ->
  fold_left (fun acc ch => adj_insert (be_decode (ztake 2 ch)) (signed 16 (be_decode (zdrop 2 ch))) acc) (map adj_bytes ps) acc
  = acc ++ ps.
Proof.
  induction ps as [|p ps IH]; intros acc Hs Hok Hacc; [cbn; rewrite app_nil_r; reflexivity|].
  inversion Hok as [|? ? Hp Hps]; subst. destruct Hp as [Hp1 Hp2]. destruct (strictly_sorted_head p ps Hs) as [Hhead Hs'].
  cbn [map fold_left]. destruct (adj_dec p (conj Hp1 Hp2)) as [D1 D2]. rewrite D1, D2.
  rewrite adj_insert_last.
  - rewrite IH; [rewrite <- app_assoc; destruct p; reflexivity|exact Hs'|exact Hps|].
    apply Forall_app. split.
    + eapply Forall_impl; [|exact Hacc]. cbn. intros q Hq. inversion Hq; assumption.
    + constructor; [exact Hhead|constructor].
  - eapply Forall_impl; [|exact Hacc]. cbn. intros q Hq. inversion Hq; assumption.
Qed.

Lemma adjustments_last c v : pvalid c KVolumeAdjustments v = true ->
  exists b, pwrite c KVolumeAdjustments v = Ok b /\ b <> [] /\ pread c KVolumeAdjustments b = Ok (v, []).
Proof.
  cbn [prim_valid]. destruct v as [| | |l]; try discriminate. intros H.
  apply andb_true_iff in H as [H Hs]. apply andb_true_iff in H as [Hn Hl]. fold (adj_pairs l) in Hs.
  set (ps := adj_pairs l) in *.
  assert (Hshape : l = map adj_value ps /\ Forall adj_pair_ok ps /\ rmapM as_int_pair l = Ok ps).
  { unfold ps. clear Hs Hn ps. induction l as [|e l IH]; [repeat split; constructor|].
    unfold all_int_pairs in Hl. cbn [forallb] in Hl. apply andb_true_iff in Hl as [He Hl].
    destruct e as [| | |[|[a| | |] [|[b| | |] [|]]]]; try discriminate.
    apply andb_true_iff in He as [Ha Hb]. apply in_range_spec in Ha, Hb.
    destruct (IH Hl) as (E & F & R). cbn [adj_pairs flat_map app map rmapM as_int_pair]. fold (adj_pairs l).
    rewrite R. split; [rewrite E at 1; reflexivity|]. split; [constructor; [split; assumption|exact F]|reflexivity]. }
  destruct Hshape as (El & Hok & Hr).
  set (cs := map adj_bytes ps).
  assert (Hcs : Forall (fun ch => zlen ch = 4) cs).
  { unfold cs. apply Forall_forall. intros ch Hch. apply in_map_iff in Hch as (p & <- & _).
    unfold adj_bytes. rewrite zlen_app, !zlen_be_encode. reflexivity. }
  exists (concat cs). split; [|split].
  - cbn [prim_write as_list rbind]. rewrite Hr. cbn [rbind]. rewrite pair_sort_sorted by exact Hs.
    apply rconcat_ok. intros p Hp. rewrite Forall_forall in Hok. destruct (Hok p Hp) as [H1 H2].
    rewrite pack_u_ok by (change (256 ^ Z.of_nat 2) with 65536; lia). cbn [rbind].
    rewrite pack_s_ok by (change (256 ^ Z.of_nat 2) with 65536; change (65536 / 2) with 32768; lia). reflexivity.
  - destruct ps as [|p ps'] eqn:Eps; [rewrite El in Hn; discriminate|].
    unfold cs. cbn [map concat]. intros E. apply app_eq_nil in E as [E _].
    apply (f_equal (@length Z)) in E. unfold adj_bytes in E. rewrite app_length, !be_encode_length in E. discriminate.
  - cbn [prim_read]. rewrite <- (app_nil_r (concat cs)).
    rewrite (chunks_concat 4 cs []) by first [lia | exact Hcs | reflexivity | (rewrite app_nil_r; apply (concat_length_ge 4); [lia|exact Hcs])].
    unfold cs. rewrite (adj_fold ps [] Hs Hok) by constructor. cbn [app]. fold adj_value. rewrite <- El. reflexivity.
Qed.

(* ---------------------------------------------------------------- RVASpec *)
Ltac rva_case :=
  cbn -[Z.abs Z.opp Z.ltb Z.testbit Z.leb];
  repeat match goal with |- context [?v <? 0] =>
    let E := fresh "E" in destruct (v <? 0) eqn:E; [apply Z.ltb_lt in E|apply Z.ltb_ge in E] end;
  cbn -[Z.abs Z.opp Z.leb]; repeat f_equal; lia.
(* the sign flags restore the signs (case analysis over the at most 12 values and 6 sign positions) *)
Lemma rva_sign_rt vals : (length vals <= 12)%nat ->
  rva_map (fun bit v => if Z.testbit (rva_flags 0 vals) bit then v else - v) 0 (rva_map (fun _ v => Z.abs v) 0 vals) = vals.
Proof.
  intros H.
  do 13 (destruct vals as [|? vals]; [try reflexivity; rva_case|]).
  cbn [length] in H. lia.
Qed.

Lemma rva_abs_ok : forall l i, rva_ok i l = true ->
  Forall (fun v => 0 <= v < 2 ^ 248) (rva_map (fun _ v => Z.abs v) i l).
Proof.
  induction l as [|v l IH]; intros i H; [constructor|]. cbn [rva_ok] in H.
  apply andb_true_iff in H as [H Hl]. apply andb_true_iff in H as [Hs Hb]. apply Z.ltb_lt in Hb.
  cbn [rva_map]. constructor; [|apply IH; exact Hl].
  destruct (rva_flag_of i); [lia|]. apply Z.leb_le in Hs. lia.
Qed.
Lemma rva_map_length f : forall l i, length (rva_map f i l) = length l.
Proof. induction l; intros; cbn; auto. Qed.
Lemma fold_max_ge l : forall a, a <= fold_left Z.max l a /\ Forall (fun x => x <= fold_left Z.max l a) l.
Proof.
  induction l as [|x l IH]; intros a; [split; [cbn; lia|constructor]|]. cbn [fold_left].
  destruct (IH (Z.max a x)) as [H1 H2]. split; [lia|]. constructor; [lia|exact H2].
Qed.
Lemma fold_max_le l : forall a m, a <= m -> Forall (fun x => x <= m) l -> fold_left Z.max l a <= m.
Proof.
  induction l as [|x l IH]; intros a m Ha H; [exact Ha|]. inversion H; subst. cbn [fold_left]. apply IH; [lia|assumption].
Qed.
Lemma nbytes_le_31 v : 0 <= v < 2 ^ 248 -> nbytes v <= 31.
Proof.
  intros [H0 H1]. unfold nbytes. destruct (v <=? 0) eqn:E; [lia|]. apply Z.leb_gt in E.
  assert (Z.log2 v < 248) by (apply Z.log2_lt_pow2; lia). pose proof (Z.log2_nonneg v). zlia.
Qed.

Lemma all_ints_shape l : all_ints (fun _ => true) l = true ->
  l = map VInt (ints_of l) /\ rmapM as_int l = Ok (ints_of l) /\ length (ints_of l) = length l.
Proof.
  induction l as [|e l IH]; intros H; [repeat split|]. unfold all_ints in H. cbn [forallb] in H.
  apply andb_true_iff in H as [He Hl]. destruct e as [z| | |]; try discriminate. destruct (IH Hl) as (E & R & L).
  cbn [ints_of flat_map app map rmapM as_int length]. fold (ints_of l). rewrite R, L. split; [rewrite E at 1; reflexivity|split; reflexivity].
Qed.

Lemma rva_last c so v : pvalid c (KRVA so) v = true ->
  exists b, pwrite c (KRVA so) v = Ok b /\ b <> [] /\ pread c (KRVA so) b = Ok (v, []).
Proof.
  cbn [prim_valid]. destruct v as [| | |l]; try discriminate. intros H.
  apply andb_true_iff in H as [H Hok]. apply andb_true_iff in H as [H Hmax]. apply andb_true_iff in H as [Hints Hmin].
  apply Z.leb_le in Hmin, Hmax.
  destruct (all_ints_shape l Hints) as (El & Hr & Ll). set (vals := ints_of l) in *.
  assert (Lz : zlen vals = zlen l) by (unfold zlen; rewrite Ll; reflexivity).
  set (absd := rva_map (fun _ v => Z.abs v) 0 vals).
  pose proof (rva_abs_ok vals 0 Hok) as Habs. fold absd in Habs.
  set (w := fold_left Z.max (map nbytes absd) 2).
  assert (Hw2 : 2 <= w) by apply (fold_max_ge (map nbytes absd) 2).
  assert (Hw31 : w <= 31).
  { apply fold_max_le; [lia|]. apply Forall_forall. intros x Hx. apply in_map_iff in Hx as (y & <- & Hy).
    apply nbytes_le_31. rewrite Forall_forall in Habs. apply Habs. exact Hy. }
  assert (Hfit : Forall (fun y => 0 <= y < 256 ^ Z.of_nat (Z.to_nat w)) absd).
  { apply Forall_forall. intros y Hy. rewrite Forall_forall in Habs. specialize (Habs y Hy). split; [lia|].
    rewrite Z2Nat.id by lia. eapply Z.lt_le_trans; [apply nbytes_bound; lia|]. apply pow256_mono. split; [apply nbytes_nonneg|].
    pose proof (proj2 (fold_max_ge (map nbytes absd) 2)) as G. rewrite Forall_forall in G. apply G. apply in_map. exact Hy. }
  set (cs := map (be_encode (Z.to_nat w)) absd).
  assert (Hcs : Forall (fun ch => zlen ch = w) cs).
  { unfold cs. apply Forall_forall. intros ch Hch. apply in_map_iff in Hch as (y & <- & _). rewrite zlen_be_encode. lia. }
  assert (Lcs : length cs = length l) by (unfold cs, absd; rewrite map_length, rva_map_length; exact Ll).
  assert (Hmaxn : (length l <= Z.to_nat (rva_max so))%nat) by (unfold zlen in Hmax; lia).
  assert (Hmax12 : rva_max so <= 12) by (destruct so; cbn; lia).
  exists (rva_flags 0 vals :: (w * 8) :: concat cs). split; [|split; [discriminate|]].
  - cbn [prim_write as_list rbind]. rewrite Hr. cbn [rbind]. unfold rva_write. rewrite Lz.
    replace (zlen l <? 2) with false by (symmetry; apply Z.ltb_ge; lia).
    replace (rva_max so <? zlen l) with false by (symmetry; apply Z.ltb_ge; lia). cbn [orb]. cbv zeta. fold absd.
    replace (forallb (fun v => 0 <=? v) absd) with true.
    2:{ symmetry. apply forallb_forall. intros y Hy. rewrite Forall_forall in Habs. apply Z.leb_le. apply Habs. exact Hy. }
    cbn [negb]. fold w. replace (255 <? w * 8) with false by (symmetry; apply Z.ltb_ge; lia). reflexivity.
  - cbn [prim_read]. unfold rva_read.
    replace (w * 8 =? 0) with false by (symmetry; apply Z.eqb_neq; lia).
    replace ((w * 8 + 7) / 8) with w by zlia.
    rewrite <- (app_nil_r (concat cs)).
    rewrite (chunks_concat w cs []) by first [lia | exact Hcs | (cbn; lia)].
    replace (zlen cs <? 2) with false by (symmetry; apply Z.ltb_ge; unfold zlen in *; lia).
    unfold cs. rewrite map_map. rewrite (map_id_in (fun x => be_decode (be_encode (Z.to_nat w) x))).
    2:{ intros y Hy. rewrite Forall_forall in Hfit. apply be_decode_encode. apply Hfit. exact Hy. }
    unfold absd. rewrite rva_sign_rt by lia. rewrite <- El. reflexivity.
Qed.

(* ---------------------------------------------------------------- every kind as the final field *)
Definition nodata (k : prim_kind) : bool := match k with KBinaryData | KID3Frames => true | _ => false end.

Lemma prim_last c k v : last_ok k = true -> pvalid c k v = true ->
  exists b, pwrite c k v = Ok b /\ (nodata k = false -> b <> []) /\ pread c k b = Ok (v, []).
Proof.
  intros Hc Hv. destruct (self_delim k) eqn:Hsd.
  - destruct (prim_sd sub subw subvalid ver c k v Hsd Hv) as (b & Hw & Hn & Hr). exists b. split; [exact Hw|split; [intros _; exact Hn|]].
    rewrite <- (app_nil_r b) at 1. apply Hr. intros _. reflexivity.
  - destruct k; try discriminate; try (cbn [last_ok self_delim] in *; congruence).
    + (* KInteger *) cbn [prim_valid] in Hv. destruct v as [z| | |]; try discriminate. apply Z.leb_le in Hv.
      destruct (int_to_str_grow z 4 Hv) as [Hw Hb]; [lia|].
      exists (be_encode (Z.to_nat (Z.max (nbytes z) 4)) z). cbn [prim_write as_int rbind]. rewrite Hw.
      split; [reflexivity|split; [intros _; apply be_encode_nonnil; lia|]]. cbn [prim_read].
      rewrite be_decode_encode; [reflexivity|]. rewrite Z2Nat.id by lia. lia.
    + (* KBinaryData *) cbn [prim_valid] in Hv. destruct v as [| |b|]; try discriminate. exists b. split; [reflexivity|split; [intros E; discriminate|reflexivity]].
    + (* KSynchronizedText *) destruct (sylt_last c v Hv) as (b & Hw & Hn & Hr). exists b. split; [exact Hw|split; [intros _; exact Hn|exact Hr]].
    + (* KKeyEvent *) destruct (keyevent_last c v Hv) as (b & Hw & Hn & Hr). exists b. split; [exact Hw|split; [intros _; exact Hn|exact Hr]].
    + (* KVolumeAdjustments *) destruct (adjustments_last c v Hv) as (b & Hw & Hn & Hr). exists b. split; [exact Hw|split; [intros _; exact Hn|exact Hr]].
    + (* KASPIIndex *) destruct (aspi_last c v Hv) as (b & Hw & Hn & Hr). exists b. split; [exact Hw|split; [intros _; exact Hn|exact Hr]].
    + (* KRVA *) destruct (rva_last c stereo_only v Hv) as (b & Hw & Hn & Hr). exists b. split; [exact Hw|split; [intros _; exact Hn|exact Hr]].
    + (* KID3Frames *) cbn [prim_valid] in Hv. destruct (sub_roundtrip v Hv) as (b & Hw & Hr). exists b. split; [exact Hw|split; [intros E; discriminate|exact Hr]].
Qed.

End Specs2.
