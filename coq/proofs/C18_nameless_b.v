(* C18: nameless streams (file name ""), for the types whose magic stays at offset 0 whatever tags are
   added through the type. *)
From Coq Require Import ZArith List Bool Lia.
Import ListNotations.
Require Import Base.Py Model.ScorePrims Gen.Gen_scores Model.Score Proofs.C18_prims.
Open Scope Z_scope.

Lemma nameless_MP4 : forall header trailer,
  family0 C_MP4 header trailer -> no_foreign_marker C_MP4 header = true -> picks C_MP4 [] header trailer.
Proof.
  open_nameless; intro Hnfm; marker_facts Hnfm; destruct Hfam as [Hsw Hm]; pose proof (slice_contains _ _ _ _ Hm) as Hm2; decide_nameless Hsw.
Qed.

Lemma nameless_WavPack : forall header trailer,
  family0 C_WavPack header trailer -> picks C_WavPack [] header trailer.
Proof.
  open_nameless; pose proof Hfam as Hsw; decide_nameless Hsw.
Qed.

Lemma nameless_Musepack : forall header trailer,
  family0 C_Musepack header trailer -> no_foreign_marker C_Musepack header = true -> picks C_Musepack [] header trailer.
Proof.
  open_nameless; intro Hnfm; marker_facts Hnfm; destruct Hfam as [Hsw|Hsw]; decide_nameless Hsw.
Qed.

Lemma nameless_MonkeysAudio : forall header trailer,
  family0 C_MonkeysAudio header trailer -> no_foreign_marker C_MonkeysAudio header = true -> picks C_MonkeysAudio [] header trailer.
Proof.
  open_nameless; intro Hnfm; marker_facts Hnfm; pose proof Hfam as Hsw; decide_nameless Hsw.
Qed.

Lemma nameless_OptimFROG : forall header trailer,
  family0 C_OptimFROG header trailer -> no_foreign_marker C_OptimFROG header = true -> picks C_OptimFROG [] header trailer.
Proof.
  open_nameless; intro Hnfm; marker_facts Hnfm; pose proof Hfam as Hsw; decide_nameless Hsw.
Qed.

Lemma nameless_ASF : forall header trailer,
  family0 C_ASF header trailer -> no_foreign_marker C_ASF header = true -> picks C_ASF [] header trailer.
Proof.
  open_nameless; intro Hnfm; marker_facts Hnfm; pose proof Hfam as Hsw; decide_nameless Hsw.
Qed.

Lemma nameless_AC3 : forall header trailer,
  family0 C_AC3 header trailer -> no_foreign_marker C_AC3 header = true -> picks C_AC3 [] header trailer.
Proof.
  open_nameless; intro Hnfm; marker_facts Hnfm; pose proof Hfam as Hsw; decide_nameless Hsw.
Qed.

Lemma nameless_TAK : forall header trailer,
  family0 C_TAK header trailer -> no_foreign_marker C_TAK header = true -> picks C_TAK [] header trailer.
Proof.
  open_nameless; intro Hnfm; marker_facts Hnfm; pose proof Hfam as Hsw; decide_nameless Hsw.
Qed.

Lemma nameless_DSF : forall header trailer,
  family0 C_DSF header trailer -> no_foreign_marker C_DSF header = true -> picks C_DSF [] header trailer.
Proof.
  open_nameless; intro Hnfm; marker_facts Hnfm; pose proof Hfam as Hsw; decide_nameless Hsw.
Qed.

Lemma nameless_DSDIFF : forall header trailer,
  family0 C_DSDIFF header trailer -> no_foreign_marker C_DSDIFF header = true -> picks C_DSDIFF [] header trailer.
Proof.
  open_nameless; intro Hnfm; marker_facts Hnfm; pose proof Hfam as Hsw; decide_nameless Hsw.
Qed.

Lemma nameless_WAVE : forall header trailer,
  family0 C_WAVE header trailer -> picks C_WAVE [] header trailer.
Proof.
  open_nameless; destruct Hfam as [Hsw Hm]; decide_nameless Hsw.
Qed.
