(* Byte-level lemmas for the MP4 family model: slices by index, patch / splice pointwise, fixed-width codecs. *)
From Coq Require Import ZArith List Bool Lia.
Import ListNotations.
Require Import Base.Py Base.ZList Model.Splice Model.Fam_mp4.
Open Scope Z_scope.

(* ------------------------------------------------------------------ slices *)
Lemma take_is_ztake l : forall n, mp4_take n l = ztake n l.
Proof.
  induction l as [|x r IH]; intros n; cbn [mp4_take]; [unfold ztake; destruct (Z.to_nat n); reflexivity|].
  destruct (n <=? 0) eqn:E.
  - unfold ztake. replace (Z.to_nat n) with O by lia. reflexivity.
  - rewrite IH. unfold ztake. replace (Z.to_nat n) with (S (Z.to_nat (n - 1))) by lia. reflexivity.
Qed.
Lemma drop_is_zdrop l : forall n, mp4_drop n l = zdrop n l.
Proof.
  induction l as [|x r IH]; intros n; cbn [mp4_drop]; [unfold zdrop; destruct (Z.to_nat n); reflexivity|].
  destruct (n <=? 0) eqn:E.
  - unfold zdrop. replace (Z.to_nat n) with O by lia. reflexivity.
  - rewrite IH. unfold zdrop. replace (Z.to_nat n) with (S (Z.to_nat (n - 1))) by lia. reflexivity.
Qed.
Lemma rd_is_slice f p n : 0 <= p -> 0 <= n -> mp4_rd f p n = zslice p (p + n) f.
Proof.
  intros Hp Hn. unfold mp4_rd, zslice. rewrite take_is_ztake, drop_is_zdrop. f_equal. lia.
Qed.

Lemma zlen_rd f p n : 0 <= p -> 0 <= n -> zlen (mp4_rd f p n) = Z.max 0 (Z.min n (zlen f - p)).
Proof.
  intros. rewrite rd_is_slice by lia. unfold zslice. bset (p + n - p) n.
  rewrite zlen_ztake by lia. rewrite zlen_zdrop by lia. lia.
Qed.
Lemma zlen_rd_in f p n : 0 <= p -> 0 <= n -> p + n <= zlen f -> zlen (mp4_rd f p n) = n.
Proof. intros. rewrite zlen_rd by lia. lia. Qed.
Lemma zlen_rd_full f p n : 0 <= p -> 0 < n -> zlen (mp4_rd f p n) = n -> p + n <= zlen f.
Proof. intros Hp Hn H. rewrite zlen_rd in H by lia. lia. Qed.

Lemma znth_rd f p n i : 0 <= p -> 0 <= i < n -> znth i (mp4_rd f p n) = znth (p + i) f.
Proof.
  intros. rewrite rd_is_slice by lia. unfold zslice. bset (p + n - p) n.
  rewrite znth_ztake by lia. apply znth_zdrop; lia.
Qed.

(* two slices of full length are equal when they agree pointwise *)
Lemma rd_ext f g p q n : 0 <= p -> 0 <= q -> 0 <= n -> p + n <= zlen f -> q + n <= zlen g ->
  (forall i, 0 <= i < n -> znth (p + i) f = znth (q + i) g) -> mp4_rd f p n = mp4_rd g q n.
Proof.
  intros Hp Hq Hn Hf Hg H. apply znth_ext.
  - rewrite !zlen_rd_in by lia. reflexivity.
  - intros i Hi. rewrite zlen_rd_in in Hi by lia. rewrite !znth_rd by lia. apply H; lia.
Qed.
Lemma rd_pointwise f g p q n i : 0 <= p -> 0 <= q -> 0 <= i < n ->
  mp4_rd f p n = mp4_rd g q n -> znth (p + i) f = znth (q + i) g.
Proof.
  intros Hp Hq Hi H. rewrite <- (znth_rd f p n i) by lia. rewrite <- (znth_rd g q n i) by lia.
  rewrite H. reflexivity.
Qed.

Lemma rd_sub f p n a m : 0 <= p -> 0 <= a -> 0 <= m -> a + m <= n ->
  mp4_rd (mp4_rd f p n) a m = mp4_rd f (p + a) m.
Proof.
  intros. rewrite !rd_is_slice by lia. unfold zslice. bset (p + n - p) n. bset (a + m - a) m. bset (p + a + m - (p + a)) m.
  unfold ztake, zdrop. rewrite skipn_firstn_comm. rewrite firstn_firstn.
  rewrite skipn_skipn'. f_equal; [lia|]. f_equal. lia.
Qed.
Lemma ztake_rd f p n m : 0 <= p -> 0 <= m <= n -> ztake m (mp4_rd f p n) = mp4_rd f p m.
Proof.
  intros. rewrite !rd_is_slice by lia. unfold zslice. bset (p + n - p) n. bset (p + m - p) m.
  rewrite ztake_ztake. f_equal. lia.
Qed.
Lemma zdrop_rd f p n m : 0 <= p -> 0 <= m <= n -> zdrop m (mp4_rd f p n) = mp4_rd f (p + m) (n - m).
Proof.
  intros. replace (zdrop m (mp4_rd f p n)) with (mp4_rd (mp4_rd f p n) m (n - m)).
  - apply rd_sub; lia.
  - rewrite (rd_is_slice (mp4_rd f p n)) by lia. unfold zslice. bset (m + (n - m) - m) (n - m).
    apply ztake_all. rewrite zlen_zdrop by lia. rewrite zlen_rd by lia. lia.
Qed.
Lemma rd_app_split f p n m : 0 <= p -> 0 <= n -> 0 <= m -> mp4_rd f p (n + m) = mp4_rd f p n ++ mp4_rd f (p + n) m.
Proof.
  intros. rewrite <- (ztake_zdrop n (mp4_rd f p (n + m))).
  rewrite ztake_rd by lia. rewrite zdrop_rd by lia. f_equal. f_equal. lia.
Qed.
Lemma rd_whole f : mp4_rd f 0 (zlen f) = f.
Proof. pose proof (zlen_nonneg f). rewrite rd_is_slice by lia. unfold zslice. rewrite zdrop_0. apply ztake_all. lia. Qed.

(* ------------------------------------------------------------------ patch *)
Lemma zlen_patch g p bs : 0 <= p -> p + zlen bs <= zlen g -> zlen (patch g p bs) = zlen g.
Proof.
  intros. pose proof (zlen_nonneg bs). unfold patch.
  rewrite !zlen_app, zlen_ztake, zlen_zdrop by lia. lia.
Qed.
Lemma znth_patch g p bs i : 0 <= p -> p + zlen bs <= zlen g -> 0 <= i ->
  znth i (patch g p bs) = if (p <=? i) && (i <? p + zlen bs) then znth (i - p) bs else znth i g.
Proof.
  intros Hp Hfit Hi. pose proof (zlen_nonneg bs). unfold patch.
  rewrite znth_app by lia. rewrite zlen_ztake by lia.
  destruct (i <? Z.min p (zlen g)) eqn:E1.
  - bset (p <=? i) false. cbn [andb]. apply znth_ztake. lia.
  - bset (p <=? i) true. cbn [andb]. bset (Z.min p (zlen g)) p.
    rewrite znth_app by lia. destruct (i - p <? zlen bs) eqn:E2.
    + bset (i <? p + zlen bs) true. reflexivity.
    + bset (i <? p + zlen bs) false. rewrite znth_zdrop by lia. f_equal. lia.
Qed.
Lemma znth_patch_out g p bs i : 0 <= p -> p + zlen bs <= zlen g -> 0 <= i -> i < p \/ p + zlen bs <= i ->
  znth i (patch g p bs) = znth i g.
Proof.
  intros. rewrite znth_patch by lia.
  destruct ((p <=? i) && (i <? p + zlen bs)) eqn:E; [lia|reflexivity].
Qed.
Lemma rd_patch_in g p bs : 0 <= p -> p + zlen bs <= zlen g -> mp4_rd (patch g p bs) p (zlen bs) = bs.
Proof.
  intros. pose proof (zlen_nonneg bs). apply znth_ext.
  - rewrite zlen_rd_in; [reflexivity|lia|lia|]. rewrite zlen_patch by lia. lia.
  - intros i Hi. rewrite zlen_rd_in in Hi; [|lia|lia|rewrite zlen_patch by lia; lia].
    rewrite znth_rd by lia. rewrite znth_patch by lia.
    bset (p <=? p + i) true. bset (p + i <? p + zlen bs) true. cbn [andb]. f_equal. lia.
Qed.
Lemma rd_patch_out g p bs q n : 0 <= p -> p + zlen bs <= zlen g -> 0 <= q -> 0 <= n -> q + n <= zlen g ->
  q + n <= p \/ p + zlen bs <= q -> mp4_rd (patch g p bs) q n = mp4_rd g q n.
Proof.
  intros. apply rd_ext; try lia. { rewrite zlen_patch by lia. lia. }
  intros i Hi. apply znth_patch_out; lia.
Qed.

(* ------------------------------------------------------------------ splice, pointwise *)
Lemma znth_splice_before f off old data i : 0 <= off <= zlen f -> 0 <= i < off ->
  znth i (splice f off old data) = znth i f.
Proof.
  intros. unfold splice. rewrite znth_app by lia. rewrite zlen_ztake by lia.
  bset (i <? Z.min off (zlen f)) true. apply znth_ztake. lia.
Qed.
Lemma znth_splice_in f off old data i : 0 <= off <= zlen f -> 0 <= i < zlen data ->
  znth (off + i) (splice f off old data) = znth i data.
Proof.
  intros. unfold splice. rewrite znth_app by lia. rewrite zlen_ztake by lia.
  bset (off + i <? Z.min off (zlen f)) false. bset (off + i - Z.min off (zlen f)) i.
  rewrite znth_app by lia. bset (i <? zlen data) true. reflexivity.
Qed.
Lemma znth_splice_after f off old data i : 0 <= off -> 0 <= old -> off + old <= zlen f -> off + old <= i ->
  znth (i + (zlen data - old)) (splice f off old data) = znth i f.
Proof.
  intros. pose proof (zlen_nonneg data). unfold splice. rewrite znth_app by lia. rewrite zlen_ztake by lia.
  bset (i + (zlen data - old) <? Z.min off (zlen f)) false. bset (Z.min off (zlen f)) off.
  rewrite znth_app by lia. bset (i + (zlen data - old) - off <? zlen data) false.
  rewrite znth_zdrop by lia. f_equal. lia.
Qed.

(* ------------------------------------------------------------------ codecs *)
Lemma zlen_le_enc n v : zlen (le_encode n v) = Z.of_nat n.
Proof. revert v; induction n; intros; cbn [le_encode]; [reflexivity|]. rewrite zlen_cons, IHn. lia. Qed.
Lemma zlen_be_enc n v : zlen (be_encode n v) = Z.of_nat n.
Proof. unfold be_encode. rewrite zlen_rev. apply zlen_le_enc. Qed.
Lemma le_dec_enc n v : 0 <= v < 256 ^ Z.of_nat n -> le_decode (le_encode n v) = v.
Proof.
  revert v. induction n as [|n IH]; intros v Hv.
  - cbn in *. lia.
  - cbn [le_encode le_decode]. rewrite IH.
    + pose proof (Z.div_mod v 256). lia.
    + rewrite Nat2Z.inj_succ, Z.pow_succ_r in Hv by lia. split; [apply Z.div_pos; lia|].
      apply Z.div_lt_upper_bound; lia.
Qed.
Lemma be_acc_snoc l : forall acc b, be_decode_acc acc (l ++ [b]) = be_decode_acc acc l * 256 + b.
Proof. induction l; intros; cbn [app be_decode_acc]; [reflexivity|]. apply IHl. Qed.
Lemma be_dec_rev l : be_decode (rev l) = le_decode l.
Proof.
  unfold be_decode. induction l as [|a l IH]; [reflexivity|].
  cbn [rev le_decode]. rewrite be_acc_snoc, IH. lia.
Qed.
Lemma be_dec_enc n v : 0 <= v < 256 ^ Z.of_nat n -> be_decode (be_encode n v) = v.
Proof. intros. unfold be_encode. rewrite be_dec_rev. apply le_dec_enc; assumption. Qed.
Lemma be_dec_enc4 v : 0 <= v < MP4_U32 -> be_decode (be_encode 4 v) = v.
Proof. intros. apply be_dec_enc. unfold MP4_U32 in *. cbn. lia. Qed.
Lemma be_dec_enc8 v : 0 <= v < MP4_U64 -> be_decode (be_encode 8 v) = v.
Proof. intros. apply be_dec_enc. unfold MP4_U64 in *. cbn. lia. Qed.

Lemma ztake_app_n {A} (a b : list A) n : zlen a = n -> ztake n (a ++ b) = a.
Proof. intros <-. apply ztake_app_exact. Qed.
Lemma zdrop_app_n {A} (a b : list A) n : zlen a = n -> zdrop n (a ++ b) = b.
Proof. intros <-. apply zdrop_app_exact. Qed.

(* fixed-width arrays *)
Lemma zlen_pack w l : zlen (mp4_pack w l) = Z.of_nat w * zlen l.
Proof.
  unfold mp4_pack. induction l as [|x l IH]; cbn [flat_map]; [rewrite zlen_nil; lia|].
  rewrite zlen_app, zlen_be_enc, IH, zlen_cons. lia.
Qed.
Lemma unpack_pack w l rest :
  Forall (fun o => 0 <= o < 256 ^ Z.of_nat w) l ->
  mp4_unpack (Z.of_nat w) (length l) (mp4_pack w l ++ rest) = l.
Proof.
  intros H. induction H as [|x l Hx Hl IH]; [reflexivity|].
  cbn [length mp4_unpack]. unfold mp4_pack in *. cbn [flat_map]. rewrite <- app_assoc.
  f_equal.
  - rewrite ztake_app_n by apply zlen_be_enc. apply be_dec_enc; assumption.
  - rewrite zdrop_app_n by apply zlen_be_enc. exact IH.
Qed.
Lemma length_unpack w n d : length (mp4_unpack w n d) = n.
Proof. revert d; induction n; intros; cbn [mp4_unpack length]; [reflexivity|]. f_equal. apply IHn. Qed.
Lemma zlen_unpack w n d : zlen (mp4_unpack w n d) = Z.of_nat n.
Proof. unfold zlen. rewrite length_unpack. reflexivity. Qed.
