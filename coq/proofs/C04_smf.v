(* Proofs.C04_smf -- totality of the SMF mirror: var-int, track event loop, chunk loop. *)
From Coq Require Import ZArith List Bool Lia.
Import ListNotations.
Require Import Base.Py Base.ZList Model.Parse_base Model.Sort Model.Parse_smf Proofs.C04_lib.
Open Scope Z_scope.

Lemma py_index_in i l : 0 <= i < zlen l -> py_index i l = Ok (znth i l).
Proof.
  intro H. unfold py_index. destruct (i <? 0) eqn:E; [lia|].
  destruct ((0 <=? i) && (i <? zlen l)) eqn:E2; [reflexivity|].
  apply andb_false_iff in E2. destruct E2 as [E2|E2]; [apply Z.leb_gt in E2|apply Z.ltb_ge in E2]; lia.
Qed.
Lemma py_index_out i l : 0 <= i -> zlen l <= i -> py_index i l = Raise EIndex.
Proof.
  intros H0 H. unfold py_index. destruct (i <? 0) eqn:E; [lia|].
  destruct ((0 <=? i) && (i <? zlen l)) eqn:E2; [|reflexivity].
  apply andb_true_iff in E2. destruct E2 as [_ E2]. apply Z.ltb_lt in E2. lia.
Qed.

Lemma var_int_spec : forall fuel data offset val, 0 <= offset -> 0 <= val ->
  Z.max 0 (zlen data - offset) < Z.of_nat fuel ->
  rspec (smf_var_int fuel data offset val) (fun r => offset < snd r <= zlen data /\ 0 <= fst r).
Proof.
  induction fuel as [|fuel IH]; intros data offset val H0 Hv Hf; [lia|].
  cbn [smf_var_int]. rbind.
  destruct (Z_lt_dec offset (zlen data)) as [Hin|Hout].
  - rewrite py_index_in by lia. cbn [rcatch]. apply rspec_ok.
    assert (0 <= znth offset data mod 128 < 128) by (apply Z.mod_pos_bound; lia).
    destruct (znth offset data <? 128).
    + apply rspec_ok. cbn [fst snd]. lia.
    + eapply rspec_post; [apply IH; lia|]. cbv beta. intros r Hr. lia.
  - rewrite py_index_out by lia. cbn. reflexivity.
Qed.

Lemma track_loop_spec : forall fuel chunk off deltasum status events tempos,
  0 <= off -> Z.max 0 (zlen chunk - off) < Z.of_nat fuel ->
  rspec (smf_track_loop fuel chunk off deltasum status events tempos) (fun _ => True).
Proof.
  induction fuel as [|fuel IH]; intros chunk off deltasum status events tempos H0 Hf; [lia|].
  cbn [smf_track_loop]. cbv zeta.
  destruct (off <? zlen chunk) eqn:E1; cbn [negb]; [|apply rspec_ok; exact I].
  apply Z.ltb_lt in E1.
  assert (Hvf : forall o, 0 <= o -> Z.max 0 (zlen chunk - o) < Z.of_nat (S (length chunk))).
  { intros o Ho. unfold zlen. lia. }
  assert (Hnext : forall o ds st ev t, off < o ->
            rspec (smf_track_loop fuel chunk o ds st ev t) (fun _ => True)).
  { intros. apply IH; lia. }
  rbind. eapply rspec_post; [apply var_int_spec; [lia|lia|apply Hvf; lia]|].
  intros [delta off1]. cbn [fst snd]. intros [Ho1 Hdelta].
  destruct (zlen chunk <=? off1) eqn:E2; [apply rspec_raiseM|]. apply Z.leb_gt in E2.
  rewrite py_index_in by lia. rbind. apply rspec_ok.
  destruct (znth off1 chunk =? 255).
  { destruct (zlen chunk <=? off1 + 1) eqn:E3; [apply rspec_raiseM|]. apply Z.leb_gt in E3.
    rewrite py_index_in by lia. rbind. apply rspec_ok.
    rbind. eapply rspec_post; [apply var_int_spec; [lia|lia|apply Hvf; lia]|].
    intros [num off2]. cbn [fst snd]. intros [Ho2 Hnum].
    rbind.
    destruct (znth (off1 + 1) chunk =? 81).
    - destruct (zlen (lslice off2 (off2 + num) chunk) =? 3) eqn:E4; cbn [negb]; [|apply rspec_raiseM].
      rbind. rewrite unpack_be_ok.
      + apply rspec_ok. apply rspec_ok. apply Hnext. lia.
      + apply Z.eqb_eq in E4. rewrite zlen_cons. lia.
    - apply rspec_ok. apply Hnext. lia. }
  destruct ((znth off1 chunk =? 240) || (znth off1 chunk =? 247)).
  { rbind. eapply rspec_post; [apply var_int_spec; [lia|lia|apply Hvf; lia]|].
    intros [val off2]. cbn [fst snd]. intros [Ho2 Hval]. apply Hnext. lia. }
  rbind.
  destruct (znth off1 chunk <? 128).
  { apply rspec_ok. destruct ((status / 16 =? 13) || (status / 16 =? 12)); apply Hnext; lia. }
  destruct (znth off1 chunk <? 240); [|apply rspec_raiseM].
  apply rspec_ok. destruct ((znth off1 chunk / 16 =? 13) || (znth off1 chunk / 16 =? 12)); apply Hnext; lia.
Qed.

Lemma read_track_total chunk : rspec (smf_read_track chunk) (fun _ => True).
Proof. unfold smf_read_track. apply track_loop_spec; [lia|]. unfold zlen. lia. Qed.

Section WithD.
Variable d : list Z.
Hypothesis Hd : bytes_ok d.
Hypothesis Hlen : zlen d < c04_two62.

Lemma be_bound n l : bytes_ok l -> zlen l = n -> 0 <= be_decode l < 256 ^ n.
Proof. intros H Hn. pose proof (be_decode_bound l H) as B. rewrite Hn in B. exact B. Qed.

Lemma read_chunk_spec p : 0 <= p ->
  pspec smf_read_chunk d p (fun r p' => p + 8 <= p' <= zlen d /\ bytes_ok (snd r)).
Proof.
  intro Hp. unfold smf_read_chunk.
  pbind. pread. pose proof (rd_len 8 p d Hp ltac:(lia)) as Hr. set (info := rd 8 p d) in *.
  assert (Hi : bytes_ok info) by (apply bytes_ok_rd; exact Hd).
  destruct (zlen info =? 8) eqn:E1; cbn [negb]; [|praiseM]. apply Z.eqb_eq in E1.
  assert (H4 : zlen (zdrop 4 info) = 4) by (rewrite zlen_zdrop; lia).
  pbind. apply pspecE_unpack_be; [exact H4|].
  pose proof (be_bound 4 _ (bytes_ok_zdrop 4 _ Hi) H4) as Hb. change (256 ^ 4) with 4294967296 in Hb.
  set (chunklen := be_decode (zdrop 4 info)) in *.
  pbind. pread.
  pose proof (rd_len chunklen (p + zlen info) d ltac:(lia) ltac:(lia)) as Hr2.
  set (data := rd chunklen (p + zlen info) d) in *.
  destruct (zlen data =? chunklen) eqn:E2; cbn [negb]; [|praiseM]. apply Z.eqb_eq in E2.
  pretn. cbn [snd]. split; [lia|]. apply bytes_ok_rd. exact Hd.
Qed.

Lemma tracks_loop_spec : forall fuel remaining format_ ft tracks p,
  0 <= p <= zlen d -> zlen d - p < Z.of_nat fuel ->
  pspec (smf_tracks_loop fuel remaining format_ ft tracks) d p (fun _ _ => True).
Proof.
  induction fuel as [|fuel IH]; intros remaining format_ ft tracks p Hp Hf; [lia|].
  cbn [smf_tracks_loop].
  destruct (remaining <=? 0); [pretn; exact I|].
  pbind. eapply pspecE_post; [apply read_chunk_spec; lia|].
  intros [identifier chunk] p'. cbn [snd]. intros [Hp' Hc].
  destruct (list_eqb identifier smf_MTrk); cbn [negb]; [|apply IH; lia].
  pbind. apply pspec_lift_rspec. eapply rspec_post; [apply read_track_total|].
  intros [events tempos] _. apply IH; lia.
Qed.

Lemma check_all_total ts : rspec (smf_check_all ts) (fun _ => True).
Proof.
  induction ts as [|t r IH]; cbn [smf_check_all]; [exact I|].
  rbind. unfold smf_duration_check.
  destruct (existsb (fun x => smf_float_max <=? fst x) t); cbn; [reflexivity|exact IH].
Qed.

Lemma read_midi_length_spec fuel : zlen d < Z.of_nat fuel ->
  pspec (smf_read_midi_length fuel) d 0 (fun _ _ => True).
Proof.
  intro Hf. unfold smf_read_midi_length. pose proof (zlen_nonneg d).
  pbind. eapply pspecE_post; [apply read_chunk_spec; lia|].
  intros [identifier chunk] p'. cbn [snd]. intros [Hp' Hc].
  destruct (list_eqb identifier smf_MThd); cbn [negb]; [|praiseM].
  destruct (zlen chunk =? 6) eqn:E6; cbn [negb]; [|praiseM]. apply Z.eqb_eq in E6.
  pbind. apply pspecE_unpack_be; [rewrite zlen_zslice; lia|].
  pbind. apply pspecE_unpack_be; [rewrite zlen_zslice; lia|].
  pbind. apply pspecE_unpack_be; [rewrite zlen_zslice; lia|].
  destruct (1 <? be_decode (zslice 0 2 chunk)); [praiseM|].
  destruct (be_decode (zslice 4 6 chunk) / 32768 =? 0); cbn [negb]; [|praiseM].
  destruct (be_decode (zslice 4 6 chunk) =? 0); [praiseM|].
  pbind. eapply pspecE_post; [apply tracks_loop_spec; lia|].
  intros tracks p2 _. cbv beta.
  pbind. apply pspec_lift_rspec. eapply rspec_post; [apply check_all_total|].
  intros _ _. destruct (map _ tracks); [praiseM|pretn; exact I].
Qed.
End WithD.

Theorem smf_total d : c04_input d -> total (smf_load d).
Proof.
  intros [Hb Hl]. unfold smf_load. eapply total_prun. apply pspec_convert_io.
  apply read_midi_length_spec; [exact Hb|apply lin_fuel_gt; lia].
Qed.
