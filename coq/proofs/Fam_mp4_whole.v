(* The whole-file properties C02 C03 C08 C09 for the MP4 family, as corollaries of the C10 development. *)
From Coq Require Import ZArith List Bool Lia.
Import ListNotations.
Require Import Base.Py Base.ZList Model.Splice Model.Fam_mp4 Gen.Gen_tags Proofs.Splice_lemmas Proofs.C09_policy
  Proofs.Fam_mp4_bytes Proofs.Fam_mp4_tree Proofs.Fam_mp4_parse Proofs.Fam_mp4_steps Proofs.Fam_mp4_agree Proofs.Fam_mp4_path
  Proofs.Fam_mp4_lists Proofs.Fam_mp4_surgery Proofs.Fam_mp4_shift Proofs.Fam_mp4_existing Proofs.Fam_mp4_main Proofs.Fam_mp4_c10.
Open Scope Z_scope.

(* ------------------------------------------------------------------ C08: delete = save of an empty ilst with padding 0 *)
Lemma delete_is_save f atoms path : mp4_atoms f = Ok atoms -> mp4_path atoms ILST_PATH = Some path ->
  mp4_delete f = mp4_save f mp4_empty_ilst (fun _ _ => 0).
Proof. intros Ha Hp. unfold mp4_delete, mp4_save. rewrite Ha, Hp. reflexivity. Qed.
Lemma delete_without_tags f atoms : mp4_atoms f = Ok atoms -> mp4_path atoms ILST_PATH = None -> mp4_delete f = Ok f.
Proof. intros Ha Hp. unfold mp4_delete. rewrite Ha, Hp. reflexivity. Qed.

Definition empty_ilst_tree : mp4_atom := MAtom N_ilst 0 8 8 (Some []).
Lemma empty_ilst_ok : ilst_wellformed mp4_empty_ilst empty_ilst_tree /\ ilst_clean empty_ilst_tree = true /\ mp4_height empty_ilst_tree <= 62.
Proof. repeat split; vm_compute; congruence. Qed.

(* what delete leaves in place of ilst + free: an empty ilst and an 8-byte free atom, 16 bytes *)
Lemma delete_region f off old : new_region (fun _ _ => 0) f off old mp4_empty_ilst = mp4_empty_ilst ++ mp4_render N_free [].
Proof. reflexivity. Qed.
Lemma delete_region_len f off old : zlen (new_region (fun _ _ => 0) f off old mp4_empty_ilst) = 16.
Proof. reflexivity. Qed.

Theorem c08_delete f f' atoms path :
  mp4_wf f = true -> mp4_atoms f = Ok atoms -> mp4_path atoms ILST_PATH = Some path -> mp4_tags_clean atoms = true ->
  mp4_delete f = Ok f' ->
  exists off old, mp4_region_of path = Some (off, old) /\
    (* length accounting: exactly ilst + its adjacent free atom go, the 16 bytes of the empty structure stay *)
    zlen f' = zlen f - old + 16 /\
    (* the tag region now reads: empty ilst, free atom without payload *)
    mp4_rd f' off 16 = mp4_empty_ilst ++ mp4_render N_free [] /\
    (* nothing else is touched: leaves outside the region keep their bytes (moved by the size change behind the region) *)
    (forall L, In L (mp4_flat atoms) -> ma_kids L = None -> is_table_name L = false ->
       (ma_off L + ma_len L <= off \/ off + old <= ma_off L) ->
       agree f (ma_off L) f' (mp4_newpos off old (16 - old) (ma_off L)) (ma_len L)).
Proof.
  intros Hwf Ha Hp Hc Hd. rewrite (delete_is_save f atoms path Ha Hp) in Hd.
  destruct (c10_offsets_follow_data f mp4_empty_ilst (fun _ _ => 0) f' atoms path Hwf Ha Hp Hc Hd)
    as (off & old & Hr & H0 & H8 & Hf & HH).
  cbv zeta in HH. destruct HH as (_ & _ & _ & HL & HR & Hdl). rewrite delete_region_len in Hdl, HR.
  exists off, old. split; [exact Hr|]. split; [lia|]. split.
  - rewrite <- (delete_region f off old). pose proof (agree_rd0 _ _ _ _ _ 16 HR) as X.
    rewrite <- X by lia. apply rd_whole.
  - intros L H1 H2 H3 H4. replace (16 - old) with (zlen f' - zlen f) by lia. apply HL; assumption.
Qed.

Theorem c08_delete_wellformed f f' atoms path :
  mp4_wf f = true -> mp4_atoms f = Ok atoms -> mp4_path atoms ILST_PATH = Some path -> mp4_tags_clean atoms = true ->
  covered atoms -> mp4_delete f = Ok f' -> mp4_wf f' = true.
Proof.
  intros Hwf Ha Hp Hc Hcov Hd. rewrite (delete_is_save f atoms path Ha Hp) in Hd.
  destruct empty_ilst_ok as (E1 & E2 & E3).
  exact (c10_wf_preserved f mp4_empty_ilst (fun _ _ => 0) f' atoms path empty_ilst_tree Hwf Ha Hp Hc Hcov E1 E2 E3 Hd).
Qed.

(* ------------------------------------------------------------------ C09: what the callback sees and what it gets *)
(* the free atom written = min(callback(region - (ilst + 8), bytes behind the region), 2^32 - 1) zero bytes *)
Lemma c09_region_form cb f off old ilst_data :
  new_region cb f off old ilst_data =
  ilst_data ++ mp4_render N_free (zeros (Z.min MP4_MAXPAD (cb (old - (zlen ilst_data + 8)) (zlen f - (off + old))))).
Proof. reflexivity. Qed.

Lemma zlen_zeros_max n : zlen (zeros n) = Z.max 0 n.
Proof. destruct (Z.le_gt_cases 0 n); [rewrite zlen_zeros by lia; lia|rewrite zeros_neg by lia; cbn; lia]. Qed.

(* returning info.padding (>= 0, below the 32-bit atom limit): same file size, nothing outside the region moves or changes *)
Theorem c09_keep_padding f ilst_data cb f' atoms path :
  mp4_wf f = true -> mp4_atoms f = Ok atoms -> mp4_path atoms ILST_PATH = Some path -> mp4_tags_clean atoms = true ->
  mp4_save f ilst_data cb = Ok f' ->
  exists off old, mp4_region_of path = Some (off, old) /\
    let p := old - (zlen ilst_data + 8) in
    (cb p (zlen f - (off + old)) = p -> 0 <= p -> p + 8 <= 4294967295 ->
       zlen f' = zlen f /\ ztake off f' = ztake off f /\ zdrop (off + old) f' = zdrop (off + old) f).
Proof.
  intros Hwf Ha Hp Hc Hs. destruct (wf_forest f atoms Hwf Ha) as (H1 & H2).
  destruct (existing_view f atoms path H1 Hp) as (off & old & [V]).
  assert (Hcl : ilst_clean (v_ilst _ _ _ _ _ V) = true).
  { unfold mp4_tags_clean in Hc. rewrite Hp, (v_path _ _ _ _ _ V) in Hc. exact Hc. }
  assert (Hex : mp4_save_existing f atoms path ilst_data cb = Ok f') by (unfold mp4_save in Hs; rewrite Ha, Hp in Hs; exact Hs).
  destruct (pk_fits f atoms path off old V H1 H2 Hcl ilst_data cb f' Hex) as (F0 & F1 & F2).
  destruct (save_existing_unfold f atoms path off old ilst_data cb f' (v_region _ _ _ _ _ V) F0 F1 F2 Hex) as (f2 & R1 & R2).
  exists off, old. split; [exact (v_region _ _ _ _ _ V)|]. cbv zeta. intros Hcb Hp0 Hp32.
  set (data := new_region cb f off old ilst_data) in *.
  assert (Hlen : zlen data = old).
  { unfold data. rewrite c09_region_form, Hcb. unfold MP4_MAXPAD. rewrite Z.min_r by lia.
    rewrite zlen_app. unfold mp4_render. rewrite zlen_zeros_max.
    destruct (Z.max 0 (old - (zlen ilst_data + 8)) + 8 <=? 4294967295) eqn:E; [|lia].
    rewrite !zlen_app, zlen_be_enc, zlen_zeros_max. change (zlen N_free) with 4. lia. }
  rewrite Hlen, Z.sub_diag in R1, R2. unfold mp4_update_parents in R1. unfold mp4_update_offsets in R2. cbn [Z.eqb] in R1, R2.
  inversion R1; subst f2. inversion R2; subst f'.
  rewrite <- Hlen. apply splice_same_size; lia.
Qed.

(* the default policy is such a callback whenever the remaining room is moderate (0 .. 1 KiB) *)
Corollary c09_default_keeps_moderate p s : 0 <= s -> 0 <= p <= 1024 -> mp4_cb_default p s = p.
Proof. intros. unfold mp4_cb_default. apply default_keeps_moderate; assumption. Qed.

(* ------------------------------------------------------------------ C02: order is kept *)
Lemma newpos_monotone off old delta a b : 0 <= old -> 0 <= old + delta ->
  (a <= off \/ off + old <= a) -> (b <= off \/ off + old <= b) -> a <= b ->
  mp4_newpos off old delta a <= mp4_newpos off old delta b.
Proof.
  intros Ho Hn Ha Hb Hab. unfold mp4_newpos. destruct (off + old <=? a) eqn:E1; destruct (off + old <=? b) eqn:E2; lia.
Qed.

(* ------------------------------------------------------------------ C07 / C08: the second save / delete is the identity *)
Lemma splice_same g o D : 0 <= o -> agree D 0 g o (zlen D) -> splice g o (zlen D) D = g.
Proof.
  intros Ho AG. pose proof (zlen_nonneg D) as Hd. destruct AG as (A1 & A2 & A3 & A4 & A5).
  assert (AGR : agree D 0 g o (zlen D)) by (repeat split; assumption).
  assert (E : mp4_rd g o (zlen D) = D).
  { rewrite <- (agree_rd0 _ _ _ _ _ (zlen D) AGR) by lia. apply rd_whole. }
  remember (zlen D) as n eqn:En. rewrite rd_is_slice in E by lia. unfold zslice in E. replace (o + n - o) with n in E by lia.
  unfold splice. rewrite <- E. replace (o + n) with (n + o) by lia. rewrite <- zdrop_zdrop by lia.
  rewrite ztake_zdrop. apply ztake_zdrop.
Qed.

(* a save whose new region bytes are exactly the bytes already there changes nothing *)
Lemma save_identity g ks path o n ilst' cb' :
  mp4_atoms g = Ok ks -> mp4_path ks ILST_PATH = Some path -> mp4_region_of path = Some (o, n) ->
  0 <= o -> zlen (new_region cb' g o n ilst') = n -> agree (new_region cb' g o n ilst') 0 g o n ->
  mp4_save g ilst' cb' = Ok g.
Proof.
  intros Ha Hp Hr Ho Hn AG. unfold mp4_save. rewrite Ha, Hp. unfold mp4_save_existing. rewrite Hr.
  fold (new_region cb' g o n ilst'). set (D := new_region cb' g o n ilst') in *.
  pose proof (zlen_nonneg D). destruct AG as (A1 & A2 & A3 & A4 & A5).
  assert (AGR : agree D 0 g o (zlen D)) by (rewrite Hn; repeat split; assumption).
  unfold mp4_resize_write. destruct ((n <? 0) || (o <? 0)) eqn:E1; [apply orb_true_iff in E1; lia|].
  rewrite Hn, Z.eqb_refl. cbn [negb andb]. rewrite Z.sub_diag.
  unfold mp4_update_parents, mp4_update_offsets. cbn [Z.eqb]. rewrite <- Hn. rewrite (splice_same g o D Ho AGR). reflexivity.
Qed.

(* C08: deleting twice = deleting once, for any number of free atoms around ilst *)
Theorem c08_delete_idempotent f f' atoms path :
  mp4_wf f = true -> mp4_atoms f = Ok atoms -> mp4_path atoms ILST_PATH = Some path -> mp4_tags_clean atoms = true ->
  mp4_delete f = Ok f' -> mp4_delete f' = Ok f'.
Proof.
  intros Hwf Ha Hp Hc Hd. rewrite (delete_is_save f atoms path Ha Hp) in Hd.
  destruct (wf_forest f atoms Hwf Ha) as (H1 & H2). destruct empty_ilst_ok as (E1 & E2 & E3).
  destruct (save_existing_found_again f atoms path mp4_empty_ilst (fun _ _ => 0) f' Ha H1 H2 Hp Hc Hd (wf_height f atoms Hwf Ha)
              empty_ilst_tree E1 E3 eq_refl) as (off & old & atoms' & path' & Hr & Ha' & Hp' & Hr' & AG & _).
  rewrite delete_region_len in Hr', AG.
  rewrite (delete_is_save f' atoms' path' Ha' Hp').
  apply (save_identity f' atoms' path' off 16 mp4_empty_ilst (fun _ _ => 0) Ha' Hp' Hr'); [destruct AG; lia|reflexivity|].
  rewrite delete_region in *. exact AG.
Qed.

(* C07: saving the same ilst again is the identity whenever the callback, asked again, returns the padding that is there
   (the default policy does: Proofs.C09_policy.default_idempotent), for any number of free atoms around ilst *)
Theorem c07_second_save_identity f ilst_data cb f' atoms path it :
  mp4_wf f = true -> mp4_atoms f = Ok atoms -> mp4_path atoms ILST_PATH = Some path -> mp4_tags_clean atoms = true ->
  ilst_wellformed ilst_data it -> mp4_height it <= 62 -> ma_name it = N_ilst ->
  mp4_save f ilst_data cb = Ok f' ->
  exists off old, mp4_region_of path = Some (off, old) /\
    let written := Z.min MP4_MAXPAD (cb (old - (zlen ilst_data + 8)) (zlen f - (off + old))) in
    (0 <= written -> written + 8 <= 4294967295 ->
     cb written (zlen f - (off + old)) = written ->
     mp4_save f' ilst_data cb = Ok f').
Proof.
  intros Hwf Ha Hp Hc Hit Hih Hin Hs. destruct (wf_forest f atoms Hwf Ha) as (H1 & H2).
  destruct (save_existing_found_again f atoms path ilst_data cb f' Ha H1 H2 Hp Hc Hs (wf_height f atoms Hwf Ha) it Hit Hih Hin)
    as (off & old & atoms' & path' & Hr & Ha' & Hp' & Hr' & AG & Hz).
  exists off, old. split; [exact Hr|]. cbv zeta. intros Hw0 Hw32 Hcb.
  set (w := Z.min MP4_MAXPAD (cb (old - (zlen ilst_data + 8)) (zlen f - (off + old)))) in *.
  set (D := new_region cb f off old ilst_data) in *.
  assert (HD : D = ilst_data ++ mp4_render N_free (zeros w)) by reflexivity.
  assert (HDl : zlen D = zlen ilst_data + w + 8).
  { rewrite HD, zlen_app. unfold mp4_render. rewrite zlen_zeros by lia.
    destruct (w + 8 <=? 4294967295) eqn:E; [|lia]. rewrite !zlen_app, zlen_be_enc, zlen_zeros by lia. change (zlen N_free) with 4. lia. }
  assert (HD' : new_region cb f' off (zlen D) ilst_data = D).
  { unfold new_region at 1. unfold mp4_padding_atom.
    replace (zlen D - (zlen ilst_data + 8)) with w by lia.
    replace (zlen f' - (off + zlen D)) with (zlen f - (off + old)) by lia.
    rewrite Hcb. unfold MP4_MAXPAD in *. rewrite Z.min_r by lia. exact (eq_sym HD). }
  apply (save_identity f' atoms' path' off (zlen D) ilst_data cb Ha' Hp' Hr'); [destruct AG; lia|rewrite HD'; reflexivity|].
  rewrite HD'. exact AG.
Qed.

(* with the default padding policy (regenerated from mutagen/_tags.py): the second save is byte-identical *)
Theorem c07_default_second_save f ilst_data f' atoms path it :
  mp4_wf f = true -> mp4_atoms f = Ok atoms -> mp4_path atoms ILST_PATH = Some path -> mp4_tags_clean atoms = true ->
  ilst_wellformed ilst_data it -> mp4_height it <= 62 -> ma_name it = N_ilst ->
  mp4_save f ilst_data mp4_cb_default = Ok f' ->
  exists off old, mp4_region_of path = Some (off, old) /\
    (get_default_padding (old - (zlen ilst_data + 8)) (zlen f - (off + old)) + 8 <= 4294967295 ->
     mp4_save f' ilst_data mp4_cb_default = Ok f').
Proof.
  intros Hwf Ha Hp Hc Hit Hih Hin Hs.
  destruct (c07_second_save_identity f ilst_data mp4_cb_default f' atoms path it Hwf Ha Hp Hc Hit Hih Hin Hs) as (off & old & Hr & H).
  destruct (c10_offsets_follow_data f ilst_data mp4_cb_default f' atoms path Hwf Ha Hp Hc Hs) as (off' & old' & Hr' & H0 & H8 & Hf & _).
  rewrite Hr in Hr'. inversion Hr'; subst off' old'.
  exists off, old. split; [exact Hr|]. intros Hb. cbv zeta in H. unfold mp4_cb_default in *.
  set (p := old - (zlen ilst_data + 8)) in *. set (s := zlen f - (off + old)) in *.
  assert (Hs0 : 0 <= s) by (unfold s; lia).
  pose proof (default_nonneg p s Hs0) as Hn. unfold MP4_MAXPAD in *.
  rewrite Z.min_r in H by lia. apply H; [lia|lia|]. apply default_idempotent. exact Hs0.
Qed.
