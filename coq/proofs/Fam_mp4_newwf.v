(* Well-formedness of the result of __save_new: the freshly rendered [udta] meta(hdlr, ilst, free) is a well-formed subtree,
   the container it is inserted into and moov carry length + delta, everything behind is shifted. *)
From Coq Require Import ZArith List Bool Lia.
Import ListNotations.
Require Import Base.Py Base.ZList Model.Splice Model.Fam_mp4 Proofs.Splice_lemmas
  Proofs.Fam_mp4_bytes Proofs.Fam_mp4_tree Proofs.Fam_mp4_parse Proofs.Fam_mp4_steps Proofs.Fam_mp4_agree Proofs.Fam_mp4_path
  Proofs.Fam_mp4_lists Proofs.Fam_mp4_surgery Proofs.Fam_mp4_shift Proofs.Fam_mp4_existing Proofs.Fam_mp4_new.
Open Scope Z_scope.

Lemma zlen_zeros_mx n : zlen (zeros n) = Z.max 0 n.
Proof. destruct (Z.le_gt_cases 0 n); [rewrite zlen_zeros by lia; lia|rewrite zeros_neg by lia; cbn; lia]. Qed.

Definition hdr_of (data : list Z) : Z := if zlen data + 8 <=? 4294967295 then 8 else 16.

Lemma zlen_render' n data : zlen n = 4 -> zlen (mp4_render n data) = zlen data + hdr_of data.
Proof. intros H. unfold hdr_of. apply zlen_render; exact H. Qed.

Lemma agree_app_r' (l1 l2 : list Z) k : zlen l1 = k -> agree l2 0 (l1 ++ l2) k (zlen l2).
Proof. intros <-. apply agree_app_r. Qed.

Lemma agree_mid (l1 x l2 : list Z) k : zlen l1 = k -> agree x 0 (l1 ++ x ++ l2) k (zlen x).
Proof.
  intros <-. pose proof (zlen_nonneg l1). pose proof (zlen_nonneg x). pose proof (zlen_nonneg l2).
  repeat split; try lia. { rewrite !zlen_app. lia. }
  intros i Hi. rewrite znth_app by lia. destruct (zlen l1 + i <? zlen l1) eqn:E; [lia|].
  rewrite znth_app by lia. replace (zlen l1 + i - zlen l1) with i by lia. destruct (i <? zlen x) eqn:E2; [reflexivity|lia].
Qed.

(* the payload of a rendered atom sits behind its header *)
Lemma render_payload n data : zlen n = 4 -> agree data 0 (mp4_render n data) (hdr_of data) (zlen data).
Proof.
  intros Hn. pose proof (zlen_nonneg data). unfold mp4_render, hdr_of. destruct (zlen data + 8 <=? 4294967295).
  - rewrite app_assoc. apply agree_app_r'. rewrite zlen_app, zlen_be_enc, Hn. reflexivity.
  - rewrite (app_assoc n), app_assoc. apply agree_app_r'. rewrite !zlen_app, !zlen_be_enc, Hn. reflexivity.
Qed.

(* header rule of a rendered atom, for any name *)
Lemma render_header_ok g p n data :
  zlen n = 4 -> zlen data + 16 < MP4_U64 ->
  agree (mp4_render n data) 0 g p (zlen (mp4_render n data)) ->
  mp4_header_ok g false n p (zlen (mp4_render n data)) (hdr_of data) = true.
Proof.
  intros Hn Hsz AG. pose proof (zlen_nonneg data) as Hd. pose proof (zlen_render n data Hn) as HL.
  set (R := mp4_render n data) in *. destruct AG as (A1 & A2 & A3 & A4 & A5).
  assert (AGR : agree R 0 g p (zlen R)) by (repeat split; assumption).
  unfold mp4_header_ok, hdr_of.
  assert (L8 : 8 <= zlen R) by (destruct (zlen data + 8 <=? 4294967295); lia).
  assert (E8 : mp4_rd g p 8 = mp4_rd R 0 8) by (symmetry; pose proof (agree_rd0 _ _ _ _ _ 8 AGR) as X; apply X; lia).
  rewrite E8. rewrite zlen_rd_in by lia. cbn [Z.eqb Pos.eqb].
  assert (G1 : (0 <=? p) = true) by (apply Z.leb_le; lia). rewrite G1.
  assert (G2 : (p + zlen R <=? zlen g) = true) by (apply Z.leb_le; lia). rewrite G2. cbn [andb].
  unfold R, mp4_render in *. destruct (zlen data + 8 <=? 4294967295) eqn:E.
  - assert (Hh : mp4_rd (be_encode 4 (zlen data + 8) ++ n ++ data) 0 8 = be_encode 4 (zlen data + 8) ++ n).
    { rewrite rd_is_slice by lia. unfold zslice. rewrite zdrop_0. cbn [Z.add Z.sub]. rewrite app_assoc.
      apply ztake_app_n. rewrite zlen_app, zlen_be_enc, Hn. reflexivity. }
    rewrite Hh. rewrite ztake_app_n by apply zlen_be_enc. rewrite zdrop_app_n by apply zlen_be_enc.
    assert (Hne : list_eqb n n = true) by (apply list_eqb_spec; reflexivity). rewrite Hne. cbn [andb].
    rewrite be_dec_enc4 by (unfold MP4_U32; lia).
    rewrite !zlen_app, zlen_be_enc, Hn. cbn [Z.eqb Pos.eqb andb].
    assert (G3 : (zlen data + 8 =? Z.of_nat 4 + (4 + zlen data)) = true) by (apply Z.eqb_eq; lia). rewrite G3.
    assert (G4 : (8 <=? Z.of_nat 4 + (4 + zlen data)) = true) by (apply Z.leb_le; lia). rewrite G4. reflexivity.
  - assert (Hh : mp4_rd (be_encode 4 1 ++ n ++ be_encode 8 (zlen data + 8 + 8) ++ data) 0 8 = be_encode 4 1 ++ n).
    { rewrite rd_is_slice by lia. unfold zslice. rewrite zdrop_0. cbn [Z.add Z.sub]. rewrite app_assoc.
      apply ztake_app_n. rewrite zlen_app, zlen_be_enc, Hn. reflexivity. }
    rewrite Hh. rewrite ztake_app_n by apply zlen_be_enc. rewrite zdrop_app_n by apply zlen_be_enc.
    assert (Hne : list_eqb n n = true) by (apply list_eqb_spec; reflexivity). rewrite Hne. cbn [andb].
    rewrite be_dec_enc4 by (unfold MP4_U32; lia).
    assert (E16 : mp4_rd g (p + 8) 8 = be_encode 8 (zlen data + 8 + 8)).
    { rewrite !zlen_app, !zlen_be_enc, Hn in AGR.
      rewrite <- (agree_rd _ _ _ _ _ 8 8 AGR) by lia. cbn [Z.add].
      rewrite rd_is_slice by lia. unfold zslice. replace (8 + 8 - 8) with 8 by lia. rewrite app_assoc.
      rewrite zdrop_app_n by (rewrite zlen_app, zlen_be_enc, Hn; reflexivity).
      apply ztake_app_n. apply zlen_be_enc. }
    rewrite E16. rewrite zlen_be_enc. rewrite be_dec_enc8 by (unfold MP4_U64 in *; lia).
    rewrite !zlen_app, !zlen_be_enc, Hn. cbn [Z.eqb Pos.eqb andb orb].
    assert (G3 : (zlen data + 8 + 8 =? Z.of_nat 4 + (4 + (Z.of_nat 8 + zlen data))) = true) by (apply Z.eqb_eq; lia). rewrite G3.
    assert (G4 : (16 <=? Z.of_nat 4 + (4 + (Z.of_nat 8 + zlen data))) = true) by (apply Z.leb_le; lia). rewrite G4.
    reflexivity.
Qed.

(* a rendered container whose children are found well-formed in g *)
Lemma render_node_ok g p n body ks :
  zlen n = 4 -> mp4_is_container n = true -> zlen body + 16 < MP4_U64 ->
  agree (mp4_render n body) 0 g p (zlen (mp4_render n body)) ->
  mp4_forest_ok g false ks (p + hdr_of body + mp4_skip n) (p + zlen (mp4_render n body)) = true ->
  mp4_atom_ok g false (MAtom n p (zlen (mp4_render n body)) (hdr_of body) (Some ks)) = true.
Proof.
  intros Hn Hc Hsz AG Hk. rewrite atom_ok_node. rewrite (render_header_ok g p n body Hn Hsz AG). rewrite Hc. cbn [andb]. exact Hk.
Qed.

(* the bytes rendered for a sub-part are found in g when the whole is *)
Lemma agree_inner whole g p part k :
  agree whole 0 g p (zlen whole) -> agree part 0 whole k (zlen part) -> agree part 0 g (p + k) (zlen part).
Proof.
  intros A1 A2. eapply agree_trans; [exact A2|]. pose proof (zlen_nonneg part).
  destruct A2 as (_ & K0 & _ & K1 & _).
  pose proof (agree_sub _ _ _ _ _ k (zlen part) A1) as X. cbn [Z.add] in X. apply X; lia.
Qed.

(* ------------------------------------------------------------------ the new meta atom *)
Section NewMeta.
Variables (g : list Z) (p : Z) (cb : Z -> Z -> Z) (cs : Z) (ilst_data : list Z) (it : mp4_atom).
Hypothesis Hit : mp4_forest_ok ilst_data false [it] 0 (zlen ilst_data) = true.
Hypothesis Hsmall : zlen ilst_data < 4611686018427387904.
Let m := mp4_new_meta cb cs ilst_data.
Hypothesis AG : agree m 0 g p (zlen m).

Let meta_data := zeros 4 ++ mp4_hdlr ++ ilst_data.
Let pad := Z.min MP4_MAXPAD (cb (- zlen meta_data) cs).
Let fr := mp4_render N_free (zeros pad).
Let body := meta_data ++ fr.
Let hM := hdr_of body.

Definition nm_hdlr : mp4_atom := MAtom N_hdlr (p + hM + 4) (zlen mp4_hdlr) 8 None.
Definition nm_ilst : mp4_atom := shift_atom (p + hM + 4 + zlen mp4_hdlr) it.
Definition nm_free : mp4_atom :=
  MAtom N_free (p + hM + 4 + zlen mp4_hdlr + zlen ilst_data) (zlen fr) (hdr_of (zeros pad)) None.
Definition nm_meta : mp4_atom := MAtom N_meta p (zlen m) hM (Some [nm_hdlr; nm_ilst; nm_free]).

Lemma m_is : m = mp4_render N_meta body.
Proof. reflexivity. Qed.

Lemma zlen_zeros_any' n : zlen (zeros n) = Z.max 0 n.
Proof. destruct (Z.le_gt_cases 0 n); [rewrite zlen_zeros by lia; lia|rewrite zeros_neg by lia; cbn; lia]. Qed.

Lemma nm_meta_ok : mp4_atom_ok g false nm_meta = true.
Proof.
  pose proof (zlen_nonneg ilst_data) as Hi0. pose proof (zlen_zeros_any' pad) as HZ.
  assert (Hpad : pad <= MP4_MAXPAD) by (unfold pad; apply Z.le_min_l).
  assert (Hhd : zlen mp4_hdlr = 33) by reflexivity.
  assert (Hfr : zlen fr = zlen (zeros pad) + hdr_of (zeros pad)) by (apply zlen_render'; reflexivity).
  assert (Hh : hdr_of (zeros pad) = 8 \/ hdr_of (zeros pad) = 16) by (unfold hdr_of; destruct (_ <=? _); auto).
  assert (Hbody : zlen body = 4 + 33 + zlen ilst_data + zlen fr).
  { unfold body, meta_data. rewrite !zlen_app, Hhd. rewrite zlen_zeros by lia. lia. }
  assert (HhM : hM = 8 \/ hM = 16) by (unfold hM, hdr_of; destruct (_ <=? _); auto).
  assert (Hm : zlen m = zlen body + hM) by (rewrite m_is; apply zlen_render'; reflexivity).
  unfold MP4_MAXPAD in *.
  (* where the parts of the body are inside m *)
  assert (PB : agree body 0 m hM (zlen body)) by (rewrite m_is; apply render_payload; reflexivity).
  assert (Phd : agree mp4_hdlr 0 body 4 (zlen mp4_hdlr)).
  { unfold body, meta_data. rewrite <- !app_assoc. apply agree_mid. reflexivity. }
  assert (Pil : agree ilst_data 0 body (4 + 33) (zlen ilst_data)).
  { unfold body, meta_data. rewrite !app_assoc. rewrite <- (app_assoc _ ilst_data fr). apply agree_mid. reflexivity. }
  assert (Pfr : agree fr 0 body (4 + 33 + zlen ilst_data) (zlen fr)).
  { unfold body. apply agree_app_r'. unfold meta_data. rewrite !zlen_app, Hhd. rewrite zlen_zeros by lia. lia. }
  assert (Gin : forall part k, agree part 0 body k (zlen part) -> agree part 0 g (p + hM + k) (zlen part)).
  { intros part k X. replace (p + hM + k) with (p + (hM + k)) by lia.
    apply (agree_inner m g p part (hM + k) AG). apply (agree_inner body m hM part k PB X). }
  unfold nm_meta. rewrite m_is. fold hM.
  apply render_node_ok; [reflexivity|reflexivity|unfold MP4_U64; lia|rewrite <- m_is; exact AG|].
  rewrite <- m_is. change (mp4_skip N_meta) with 4.
  apply forest_ok_intro; [reflexivity| |].
  - unfold nm_hdlr. change mp4_hdlr with (mp4_render N_hdlr (zeros 8 ++ [109;100;105;114;97;112;112;108] ++ zeros 9)).
    apply (render_leaf_ok g (p + hM + 4) N_hdlr); [reflexivity|reflexivity|vm_compute; reflexivity|].
    apply (Gin mp4_hdlr 4 Phd).
  - unfold nm_hdlr. cbn [ma_len]. apply forest_ok_intro.
    + unfold nm_ilst. rewrite shift_off. pose proof (forest_ok_cons _ _ _ _ _ _ Hit) as (E & _). lia.
    + pose proof (forest_ok_transfer ilst_data g (p + hM + 4 + zlen mp4_hdlr) false [it] 0 (zlen ilst_data) Hit) as X.
      cbn [shift_forest map] in X.
      assert (Hx : mp4_forest_ok g false [shift_atom (p + hM + 4 + zlen mp4_hdlr) it] (0 + (p + hM + 4 + zlen mp4_hdlr))
                     (zlen ilst_data + (p + hM + 4 + zlen mp4_hdlr)) = true).
      { apply X; [| |discriminate].
        - apply Forall_forall. intros x Hx. pose proof (forest_within _ _ _ _ _ Hit) as W. rewrite Forall_forall in W.
          specialize (W x Hx). unfold within in W.
          pose proof (forest_flat_ok _ _ _ _ _ Hit) as FO. rewrite Forall_forall in FO.
          assert (Lx : 8 <= ma_len x /\ ma_hdr x <= ma_len x /\ 0 <= ma_hdr x).
          { destruct (FO x Hx) as [E|E]; apply atom_ok_len in E; lia. }
          unfold hdr_agree. pose proof (Gin ilst_data (4 + 33) Pil) as Y.
          pose proof (agree_sub _ _ _ _ _ (ma_off x) (ma_hdr x) Y) as Y2. cbn [Z.add] in Y2.
          replace (ma_off x + (p + hM + 4 + zlen mp4_hdlr)) with (p + hM + (4 + 33) + ma_off x) by lia. apply Y2; lia.
        - destruct (Gin ilst_data (4 + 33) Pil) as (_ & _ & _ & Y & _). lia. }
      apply forest_ok_cons in Hx. tauto.
    + unfold nm_ilst. rewrite shift_len.
      pose proof (forest_ok_cons _ _ _ _ _ _ Hit) as (E1 & E2 & E3). apply forest_ok_nil in E3.
      apply forest_ok_intro.
      * unfold nm_free. cbn [ma_off]. lia.
      * unfold nm_free, fr. apply render_leaf_ok; [reflexivity|reflexivity|unfold MP4_U64; lia|].
        fold fr. replace (p + hM + 4 + zlen mp4_hdlr + zlen ilst_data) with (p + hM + (4 + 33 + zlen ilst_data)) by lia.
        apply (Gin fr _ Pfr).
      * unfold hM in *. cbn [mp4_forest_ok]. apply Z.eqb_eq. unfold nm_free. cbn [ma_len]. lia.
Qed.
End NewMeta.

Lemma nm_meta_height p cb cs ilst_data it : mp4_height (nm_meta p cb cs ilst_data it) = 1 + Z.max 1 (mp4_height it).
Proof.
  unfold nm_meta. rewrite height_node. unfold nm_hdlr, nm_ilst, nm_free. cbn [mp4_forest_height].
  rewrite height_shift, !height_leaf. pose proof (height_pos it). lia.
Qed.

Ltac split_max_le :=
  repeat (rewrite Z.max_lub_iff || rewrite add_max_le || rewrite Z.add_assoc); repeat split.

(* ------------------------------------------------------------------ the tree of the result of __save_new *)
Section NewWf.
Variables (f : list Z) (atoms : list mp4_atom).
Hypothesis Hwf : mp4_forest_ok f true atoms 0 (zlen f) = true.
Hypothesis Htab : mp4_tables_ok f atoms = true.
Variables (path : list mp4_atom) (last : mp4_atom) (rest : list mp4_atom).
Hypothesis Hpath : mp4_insert_path atoms = Some path.
Hypothesis Hlast : rev path = last :: rest.
Let off := ma_off last + ma_hdr last.
Variables (cb : Z -> Z -> Z) (ilst_data : list Z) (it : mp4_atom).
Hypothesis Hit : mp4_forest_ok ilst_data false [it] 0 (zlen ilst_data) = true.
Hypothesis Hsmall : zlen ilst_data < 4611686018427387904.
Let data := mp4_new_insert cb f last ilst_data.
Let delta := zlen data.
Variables (f2 f' : list Z).
Hypothesis Hrun1 : mp4_update_parents (zlen data - 0) (splice f off 0 data) (map ma_off path) = Ok f2.
Hypothesis Hrun2 : mp4_update_offsets atoms (zlen data - 0) (off - 1) f2 = Ok f'.

Let res := new_result f atoms Hwf Htab path last rest Hpath Hlast data f2 f' Hrun1 Hrun2.
Let PF := path_facts f atoms Hwf Htab path last rest Hpath Hlast.
Let LF := last_facts f atoms Hwf Htab path last rest Hpath Hlast.

Lemma nw_zlen : zlen f' = zlen f + delta.
Proof. destruct res as (Z & _). unfold delta. lia. Qed.
Lemma nw_region : agree data 0 f' off (zlen data).
Proof. destruct res as (_ & _ & A & _). exact A. Qed.

Lemma mv0 a : mv off 0 data a = if off <=? a then a + delta else a.
Proof. unfold mv, delta. rewrite Z.add_0_r, Z.sub_0_r. reflexivity. Qed.

(* the header of an atom that is not on the insertion path avoids every patch site *)
Lemma nw_hdr_kept x : In x (mp4_flat atoms) -> ~ In x path -> (ma_off x + ma_hdr x <= off \/ off <= ma_off x) ->
  agree f (ma_off x) f' (mv off 0 data (ma_off x)) (ma_hdr x).
Proof.
  intros Hx Hn Hpos. destruct (flat_member_ok f atoms Hwf x Hx) as (top & Hok). pose proof (atom_ok_len _ _ _ Hok) as Lx.
  pose proof (skip_nonneg (ma_name x)) as Sx.
  assert (Hseg : s_lo (seg_of x) = ma_off x /\ ma_off x + ma_hdr x <= s_hi (seg_of x)).
  { unfold seg_of, s_lo, s_hi. destruct (ma_kids x); cbn; lia. }
  destruct res as (_ & Fr & _). apply Fr; try lia.
  - unfold clear_of. lia.
  - intros An HA. destruct PF as (_ & _ & AO & _). rewrite Forall_forall in AO. destruct (AO An HA) as (HAin & (k & HAk) & _).
    destruct (segs_disjoint _ _ _ _ _ x An Hwf Hx HAin) as [E|D]; [subst; contradiction|].
    pose proof (skip_nonneg (ma_name An)).
    assert (HsA : s_lo (seg_of An) = ma_off An /\ s_hi (seg_of An) = ma_off An + ma_hdr An + mp4_skip (ma_name An))
      by (unfold seg_of, s_lo, s_hi; rewrite HAk; split; reflexivity).
    unfold clear_of. lia.
  - intros T HT. pose proof (member_facts f atoms Hwf off 0 data (off - 1) (new_placed f atoms Hwf Htab path last rest Hpath Hlast) T HT)
      as (HTin & _ & _ & _ & LT & KT).
    destruct (segs_disjoint _ _ _ _ _ x T Hwf Hx HTin) as [E|D].
    + subst. unfold clear_of. lia.
    + assert (HsT : s_lo (seg_of T) = ma_off T /\ s_hi (seg_of T) = ma_off T + ma_len T)
        by (unfold seg_of, s_lo, s_hi; rewrite KT; split; reflexivity).
      unfold clear_of. lia.
Qed.

Lemma nw_before top l p e : mp4_forest_ok f top l p e = true -> e <= off ->
  (forall y, In y (mp4_flat l) -> In y (mp4_flat atoms) /\ ~ In y path) -> Forall (hdr_agree f f' 0) (mp4_flat l).
Proof.
  intros Hf He Hin. apply Forall_forall. intros x Hx. destruct (Hin x Hx) as (Hxa & Hnp).
  pose proof (forest_within _ _ _ _ _ Hf) as W. rewrite Forall_forall in W. specialize (W x Hx). unfold within in W.
  destruct (flat_member_ok f atoms Hwf x Hxa) as (top' & Hok). pose proof (atom_ok_len _ _ _ Hok) as Lx.
  unfold hdr_agree. rewrite Z.add_0_r. pose proof (nw_hdr_kept x Hxa Hnp ltac:(lia)) as X. rewrite mv0 in X.
  destruct (off <=? ma_off x) eqn:E; [lia|exact X].
Qed.
Lemma nw_after top l p e : mp4_forest_ok f top l p e = true -> off <= p ->
  (forall y, In y (mp4_flat l) -> In y (mp4_flat atoms) /\ ~ In y path) -> Forall (hdr_agree f f' delta) (mp4_flat l).
Proof.
  intros Hf He Hin. apply Forall_forall. intros x Hx. destruct (Hin x Hx) as (Hxa & Hnp).
  pose proof (forest_within _ _ _ _ _ Hf) as W. rewrite Forall_forall in W. specialize (W x Hx). unfold within in W.
  unfold hdr_agree. pose proof (nw_hdr_kept x Hxa Hnp ltac:(lia)) as X. rewrite mv0 in X.
  destruct (off <=? ma_off x) eqn:E; [exact X|lia].
Qed.

(* an atom of the insertion path: its header carries length + delta *)
Lemma nw_anc_header top An : In An path -> mp4_atom_ok f top An = true -> off <= ma_off An + ma_len An ->
  (top = true -> ma_off An + ma_len An = zlen f \/ be_decode (mp4_rd f (ma_off An) 4) <> 0) ->
  mp4_header_ok f' top (ma_name An) (ma_off An) (ma_len An + delta) (ma_hdr An) = true.
Proof.
  intros HA Hok Hcontains Htop. destruct PF as (_ & _ & AO & _). rewrite Forall_forall in AO. pose proof (AO An HA) as HA'.
  destruct res as (_ & _ & _ & UA & _). specialize (UA An HA). rewrite Z.sub_0_r in UA. fold delta in UA.
  destruct UA as (U1n & U0 & U64 & U32).
  pose proof (anc_header f atoms Hwf off 0 data An HA') as (F0 & Fh & Fo & F8 & Fn & F64 & F32 & Fz).
  pose proof (atom_ok_header _ _ _ Hok) as Hh. pose proof (header_ok_facts _ _ _ _ _ _ Hh) as (G1 & G2 & G3 & G4 & G5 & G6 & G7).
  pose proof nw_zlen as ZR. pose proof (zlen_nonneg data) as DN. assert (Hd : delta = zlen data) by reflexivity.
  assert (R4 : zlen (mp4_rd f' (ma_off An) 8) = 8) by (apply zlen_rd_in; lia).
  assert (R8 : mp4_rd f' (ma_off An) 8 = mp4_rd f' (ma_off An) 4 ++ mp4_rd f' (ma_off An + 4) 4).
  { replace 8 with (4 + 4) at 1 by lia. apply rd_app_split; lia. }
  unfold mp4_header_ok. rewrite R4. cbn [Z.eqb Pos.eqb].
  assert (K1 : (0 <=? ma_off An) = true) by (apply Z.leb_le; lia). rewrite K1.
  assert (K2 : (ma_off An + (ma_len An + delta) <=? zlen f') = true) by (apply Z.leb_le; lia). rewrite K2.
  rewrite R8. rewrite ztake_app_n by (apply zlen_rd_in; lia). rewrite zdrop_app_n by (apply zlen_rd_in; lia).
  rewrite U1n, Fn. assert (K3 : list_eqb (ma_name An) (ma_name An) = true) by (apply list_eqb_spec; reflexivity). rewrite K3.
  cbn [andb].
  destruct (Z.eq_dec (be_decode (mp4_rd f (ma_off An) 4)) 0) as [Z0|N0].
  - assert (Htp : top = true /\ ma_len An = zlen f - ma_off An).
    { unfold mp4_header_ok in Hh. rewrite ztake_rd in Hh by lia. rewrite Z0 in Hh.
      apply andb_true_iff in Hh. destruct Hh as [_ HE]. destruct top; [split; [reflexivity|]|lia]. lia. }
    destruct Htp as (-> & Hlen). rewrite (U0 Z0), Z0. rewrite (Fz Z0). cbn [Z.eqb andb orb].
    assert (K4 : (ma_len An + delta =? zlen f' - ma_off An) = true) by (apply Z.eqb_eq; lia). rewrite K4.
    rewrite !orb_true_r. reflexivity.
  - destruct (Z.eq_dec (be_decode (mp4_rd f (ma_off An) 4)) 1) as [Z1|N1].
    + destruct (F64 Z1) as (Hh16 & _). destruct (U64 Z1) as (V1 & V2). rewrite V1, Z1, Hh16. cbn [Z.eqb Pos.eqb andb orb].
      rewrite zlen_rd_in by lia. rewrite V2. rewrite Z.eqb_refl. cbn [Z.eqb Pos.eqb andb].
      assert (K4 : (16 <=? ma_len An + delta) = true) by (apply Z.leb_le; lia). rewrite K4.
      rewrite Z.eqb_refl. reflexivity.
    + destruct (F32 N0 N1) as (Hh8 & _). rewrite (U32 N0 N1), Hh8. cbn [Z.eqb Pos.eqb andb]. rewrite Z.eqb_refl.
      assert (K4 : (8 <=? ma_len An + delta) = true) by (apply Z.leb_le; lia). rewrite K4. reflexivity.
Qed.

(* the container C (= last) receives NEW in front of its shifted children *)
Lemma nw_insert_container top C K NEW :
  In C path -> mp4_atom_ok f top C = true -> ma_kids C = Some K -> ma_off C + ma_hdr C + mp4_skip (ma_name C) = off ->
  (forall y, In y (mp4_flat K) -> In y (mp4_flat atoms) /\ ~ In y path) ->
  mp4_forest_ok f' false NEW off (off + delta) = true ->
  (top = true -> ma_off C + ma_len C = zlen f \/ be_decode (mp4_rd f (ma_off C) 4) <> 0) ->
  mp4_atom_ok f' top (MAtom (ma_name C) (ma_off C) (ma_len C + delta) (ma_hdr C) (Some (NEW ++ shift_forest delta K))) = true.
Proof.
  intros HC Hok HK Hoff HKin HNEW Htop. destruct (atom_ok_kids _ _ _ _ Hok HK) as (Hc & Hk). rewrite Hoff in Hk.
  pose proof (forest_ok_le _ _ _ _ _ Hk) as Hle. pose proof nw_zlen as ZR. pose proof (atom_ok_len _ _ _ Hok) as LC.
  rewrite atom_ok_node. rewrite (nw_anc_header top C HC Hok Hle Htop). rewrite Hc. cbn [andb]. rewrite Hoff.
  apply forest_ok_app_intro with (m := off + delta); [exact HNEW|].
  pose proof (forest_ok_transfer f f' delta false K off (ma_off C + ma_len C) Hk) as X.
  replace (ma_off C + ma_len C + delta) with (ma_off C + (ma_len C + delta)) in X by lia.
  apply X; [apply (nw_after _ _ _ _ Hk); [lia|exact HKin]|lia|discriminate].
Qed.
End NewWf.

(* ------------------------------------------------------------------ assembling the two shapes *)
Lemma not_in_by_off (y : mp4_atom) (l : list mp4_atom) : (forall A, In A l -> ma_off y <> ma_off A) -> ~ In y l.
Proof. intros H Hin. apply (H y Hin). reflexivity. Qed.

Lemma new_meta_small cb cs ilst_data : zlen ilst_data < 4611686018427387904 ->
  zlen (mp4_new_meta cb cs ilst_data) + 16 < MP4_U64 /\ 8 <= zlen (mp4_new_meta cb cs ilst_data).
Proof.
  intros Hs. unfold mp4_new_meta. cbv zeta. rewrite zlen_render' by reflexivity.
  set (md := zeros 4 ++ mp4_hdlr ++ ilst_data). rewrite zlen_app. unfold mp4_padding_atom.
  rewrite zlen_render' by reflexivity. pose proof (zlen_nonneg ilst_data).
  assert (Hmd : zlen md = 37 + zlen ilst_data).
  { unfold md. rewrite !zlen_app. replace (zlen (zeros 4)) with 4 by reflexivity. replace (zlen mp4_hdlr) with 33 by reflexivity. lia. }
  set (pd := Z.min MP4_MAXPAD (cb (- zlen md) cs)). assert (pd <= MP4_MAXPAD) by apply Z.le_min_l.
  pose proof (zlen_zeros_mx pd). unfold hdr_of. unfold MP4_U64, MP4_MAXPAD in *.
  destruct (zlen (zeros pd) + 8 <=? 4294967295); destruct (_ <=? 4294967295); lia.
Qed.

Section NewFinal.
Variables (f : list Z) (atoms : list mp4_atom).
Hypothesis Hwf : mp4_forest_ok f true atoms 0 (zlen f) = true.
Hypothesis Htab : mp4_tables_ok f atoms = true.
Variables (cb : Z -> Z -> Z) (ilst_data : list Z) (it : mp4_atom).
Hypothesis Hit : mp4_forest_ok ilst_data false [it] 0 (zlen ilst_data) = true.
Hypothesis Hsmall : zlen ilst_data < 4611686018427387904.

(* the new meta placed at p in the result *)
Lemma nm_at f' p cs : agree (mp4_new_meta cb cs ilst_data) 0 f' p (zlen (mp4_new_meta cb cs ilst_data)) ->
  mp4_forest_ok f' false [nm_meta p cb cs ilst_data it] p (p + zlen (mp4_new_meta cb cs ilst_data)) = true.
Proof.
  intros AG. apply forest_ok_intro; [reflexivity|apply (nm_meta_ok f' p cb cs ilst_data it Hit Hsmall AG)|].
  cbn. apply Z.eqb_refl.
Qed.

(* shape B: no udta; a new udta(meta) becomes the first child of moov *)
Theorem new_wellformed_moov moov T1 T2 K rest f2 f' :
  mp4_insert_path atoms = Some [moov] -> atoms = T1 ++ moov :: T2 -> ma_name moov = N_moov -> ma_kids moov = Some K ->
  rev [moov] = moov :: rest ->
  let off := ma_off moov + ma_hdr moov in
  let data := mp4_new_insert cb f moov ilst_data in
  mp4_update_parents (zlen data - 0) (splice f off 0 data) (map ma_off [moov]) = Ok f2 ->
  mp4_update_offsets atoms (zlen data - 0) (off - 1) f2 = Ok f' ->
  exists atoms', mp4_forest_ok f' true atoms' 0 (zlen f') = true /\
                 mp4_forest_height atoms' <= Z.max (mp4_forest_height atoms) (3 + Z.max 1 (mp4_height it)).
Proof.
  intros Hp Ea Nm Km Hrev off data R1 R2.
  set (cs := zlen f - off). set (m := mp4_new_meta cb cs ilst_data).
  assert (Hdata : data = mp4_render N_udta m).
  { unfold data, mp4_new_insert. fold off cs m. rewrite Nm. reflexivity. }
  pose proof (new_meta_small cb cs ilst_data Hsmall) as (Hms & Hm8). fold m in Hms, Hm8.
  pose proof (nw_zlen f atoms Hwf Htab [moov] moov rest Hp Hrev cb ilst_data f2 f' R1 R2) as ZR.
  pose proof (nw_region f atoms Hwf Htab [moov] moov rest Hp Hrev cb ilst_data f2 f' R1 R2) as AGD.
  fold off data in ZR, AGD. set (delta := zlen data) in *.
  pose proof (zlen_nonneg data) as DN. assert (Hdel : delta = zlen data) by reflexivity.
  assert (Hdl : zlen data = zlen m + hdr_of m) by (rewrite Hdata; apply zlen_render'; reflexivity).
  rewrite Ea in Hwf. pose proof (forest_ok_split _ _ _ _ _ _ _ Hwf) as (F1 & Hm & F3).
  destruct (atom_ok_kids _ _ _ _ Hm Km) as (_ & Hk). pose proof (atom_ok_len _ _ _ Hm) as Lm.
  assert (Sm : mp4_skip (ma_name moov) = 0) by (rewrite Nm; reflexivity). rewrite Sm, Z.add_0_r in Hk. fold off in Hk.
  rewrite <- Ea in Hwf.
  (* the new udta *)
  set (udta_new := MAtom N_udta off (zlen data) (hdr_of m) (Some [nm_meta (off + hdr_of m) cb cs ilst_data it])).
  assert (HU : mp4_forest_ok f' false [udta_new] off (off + delta) = true).
  { apply forest_ok_intro; [reflexivity| |cbn; apply Z.eqb_refl].
    unfold udta_new. rewrite Hdata. apply render_node_ok; [reflexivity|reflexivity|exact Hms|rewrite <- Hdata; exact AGD|].
    change (mp4_skip N_udta) with 0. rewrite Z.add_0_r. rewrite <- Hdata.
    replace (off + zlen data) with (off + hdr_of m + zlen m) by lia. apply nm_at.
    apply (agree_inner data f' off m (hdr_of m) AGD). rewrite Hdata. apply render_payload. reflexivity. }
  assert (Hin_atoms : forall l, (forall y, In y l -> In y (mp4_flat atoms)) -> True) by auto.
  assert (InK : forall y, In y (mp4_flat K) -> In y (mp4_flat atoms) /\ ~ In y [moov]).
  { intros y Hy. split.
    - rewrite Ea. eapply in_flat_kids; [|exact Km|exact Hy]. apply in_or_app. right; left; reflexivity.
    - pose proof (forest_within _ _ _ _ _ Hk) as W. rewrite Forall_forall in W. specialize (W y Hy). unfold within in W.
      apply not_in_by_off. intros A [<-|[]]. unfold off in W. lia. }
  assert (Htopc : true = true -> ma_off moov + ma_len moov = zlen f \/ be_decode (mp4_rd f (ma_off moov) 4) <> 0).
  { intros _. destruct (Z.eq_dec (be_decode (mp4_rd f (ma_off moov) 4)) 0) as [Z0|N0]; [left|right; exact N0].
    pose proof (atom_ok_header _ _ _ Hm) as Hh. pose proof (header_ok_facts _ _ _ _ _ _ Hh) as (G1 & G2 & G3 & G4 & G5 & G6 & G7).
    unfold mp4_header_ok in Hh. rewrite ztake_rd in Hh by lia. rewrite Z0 in Hh.
    apply andb_true_iff in Hh. destruct Hh as [_ HE]. lia. }
  pose proof (nw_insert_container f atoms Hwf Htab [moov] moov rest Hp Hrev cb ilst_data f2 f' R1 R2
                true moov K [udta_new] (or_introl eq_refl) Hm Km ltac:(rewrite Sm; unfold off; lia) InK HU Htopc) as HM.
  fold data delta in HM.
  exists (T1 ++ MAtom (ma_name moov) (ma_off moov) (ma_len moov + delta) (ma_hdr moov) (Some ([udta_new] ++ shift_forest delta K))
            :: shift_forest delta T2).
  split.
  2:{ rewrite Ea. rewrite !forest_height_app, !forest_height_cons, height_node, (height_kids _ _ Km).
      rewrite forest_height_app, !forest_height_shift. unfold udta_new. cbn [mp4_forest_height]. rewrite height_node.
      cbn [mp4_forest_height]. rewrite nm_meta_height.
      pose proof (forest_height_nonneg T1) as P1. pose proof (forest_height_nonneg T2) as P2. pose proof (forest_height_nonneg K) as P3.
      pose proof (height_pos it) as P4.
      remember (mp4_forest_height T1) as h1. remember (mp4_forest_height T2) as h2. remember (mp4_forest_height K) as h3.
      remember (mp4_height it) as h4. clear - P1 P2 P3 P4. split_max_le; lia. }
  apply forest_ok_app_intro with (m := ma_off moov).
  - apply (forest_ok_same f f' true T1 _ _ F1); [|lia|intros _; right; lia].
    apply (nw_before f atoms Hwf Htab [moov] moov rest Hp Hrev cb ilst_data f2 f' R1 R2 _ _ _ _ F1); [unfold off; lia|].
    intros y Hy. split; [rewrite Ea, flat_app; apply in_or_app; left; exact Hy|].
    pose proof (forest_within _ _ _ _ _ F1) as W. rewrite Forall_forall in W. specialize (W y Hy). unfold within in W.
    destruct (flat_member_ok f atoms Hwf y ltac:(rewrite Ea, flat_app; apply in_or_app; left; exact Hy)) as (tp & Hyok).
    pose proof (atom_ok_len _ _ _ Hyok). apply not_in_by_off. intros A [<-|[]]. lia.
  - apply forest_ok_intro; [reflexivity|exact HM|]. cbn [ma_off ma_len].
    pose proof (forest_ok_transfer f f' delta true T2 _ _ F3) as X.
    replace (ma_off moov + ma_len moov + delta) with (ma_off moov + (ma_len moov + delta)) in X by lia.
    rewrite ZR. apply X; [|lia|intros _; left; lia].
    apply (nw_after f atoms Hwf Htab [moov] moov rest Hp Hrev cb ilst_data f2 f' R1 R2 _ _ _ _ F3); [unfold off; lia|].
    intros y Hy. split; [rewrite Ea, flat_app, flat_cons; apply in_or_app; right; apply in_or_app; right; exact Hy|].
    pose proof (forest_within _ _ _ _ _ F3) as W. rewrite Forall_forall in W. specialize (W y Hy). unfold within in W.
    apply not_in_by_off. intros A [<-|[]]. lia.
Qed.

(* shape A: moov.udta exists (without meta.ilst); the new meta becomes the first child of udta *)
Theorem new_wellformed_udta moov udta T1 T2 M1 M2 K rest f2 f' :
  mp4_insert_path atoms = Some [moov; udta] -> atoms = T1 ++ moov :: T2 -> ma_name moov = N_moov ->
  ma_kids moov = Some (M1 ++ udta :: M2) -> ma_name udta = N_udta -> ma_kids udta = Some K ->
  rev [moov; udta] = udta :: rest ->
  let off := ma_off udta + ma_hdr udta in
  let data := mp4_new_insert cb f udta ilst_data in
  mp4_update_parents (zlen data - 0) (splice f off 0 data) (map ma_off [moov; udta]) = Ok f2 ->
  mp4_update_offsets atoms (zlen data - 0) (off - 1) f2 = Ok f' ->
  exists atoms', mp4_forest_ok f' true atoms' 0 (zlen f') = true /\
                 mp4_forest_height atoms' <= Z.max (mp4_forest_height atoms) (3 + Z.max 1 (mp4_height it)).
Proof.
  intros Hp Ea Nm Km Nu Ku Hrev off data R1 R2.
  set (cs := zlen f - off).
  assert (Hdata : data = mp4_new_meta cb cs ilst_data).
  { unfold data, mp4_new_insert. fold off cs. rewrite Nu. reflexivity. }
  pose proof (nw_zlen f atoms Hwf Htab [moov; udta] udta rest Hp Hrev cb ilst_data f2 f' R1 R2) as ZR.
  pose proof (nw_region f atoms Hwf Htab [moov; udta] udta rest Hp Hrev cb ilst_data f2 f' R1 R2) as AGD.
  fold off data in ZR, AGD. set (delta := zlen data) in *.
  pose proof (zlen_nonneg data) as DN. assert (Hdel : delta = zlen data) by reflexivity.
  rewrite Ea in Hwf. pose proof (forest_ok_split _ _ _ _ _ _ _ Hwf) as (F1 & Hm & F3). rewrite <- Ea in Hwf.
  destruct (atom_ok_kids _ _ _ _ Hm Km) as (Hcm & Hkm). pose proof (forest_ok_split _ _ _ _ _ _ _ Hkm) as (G1 & Hu & G3).
  destruct (atom_ok_kids _ _ _ _ Hu Ku) as (_ & Hk). pose proof (atom_ok_len _ _ _ Hm) as Lm. pose proof (atom_ok_len _ _ _ Hu) as Lu.
  assert (Su : mp4_skip (ma_name udta) = 0) by (rewrite Nu; reflexivity). rewrite Su, Z.add_0_r in Hk. fold off in Hk.
  pose proof (skip_nonneg (ma_name moov)) as Ssm. pose proof (forest_ok_le _ _ _ _ _ G1) as LeG1.
  pose proof (forest_ok_le _ _ _ _ _ G3) as LeG3. pose proof (forest_ok_le _ _ _ _ _ Hk) as LeK.
  assert (Imoov : In moov (mp4_flat atoms)) by (rewrite Ea; apply in_flat_self; apply in_or_app; right; left; reflexivity).
  assert (InKm : forall y, In y (mp4_flat (M1 ++ udta :: M2)) -> In y (mp4_flat atoms)).
  { intros y Hy. rewrite Ea. eapply in_flat_kids; [|exact Km|exact Hy]. apply in_or_app. right; left; reflexivity. }
  assert (Iudta : In udta (mp4_flat atoms)) by (apply InKm; apply in_flat_self; apply in_or_app; right; left; reflexivity).
  (* the new meta at off *)
  assert (HN : mp4_forest_ok f' false [nm_meta off cb cs ilst_data it] off (off + delta) = true).
  { unfold delta. rewrite Hdata. apply nm_at. rewrite <- Hdata. exact AGD. }
  assert (InK : forall y, In y (mp4_flat K) -> In y (mp4_flat atoms) /\ ~ In y [moov; udta]).
  { intros y Hy. split.
    - apply InKm. eapply in_flat_kids; [|exact Ku|exact Hy]. apply in_or_app. right; left; reflexivity.
    - pose proof (forest_within _ _ _ _ _ Hk) as W. rewrite Forall_forall in W. specialize (W y Hy). unfold within in W.
      apply not_in_by_off. intros A0 [<-|[<-|[]]]; unfold off in *; lia. }
  pose proof (nw_insert_container f atoms Hwf Htab [moov; udta] udta rest Hp Hrev cb ilst_data f2 f' R1 R2
                false udta K [nm_meta off cb cs ilst_data it] (or_intror (or_introl eq_refl)) Hu Ku
                ltac:(rewrite Su; unfold off; lia) InK HN ltac:(discriminate)) as HUD.
  fold data delta in HUD.
  set (udta' := MAtom (ma_name udta) (ma_off udta) (ma_len udta + delta) (ma_hdr udta)
                  (Some ([nm_meta off cb cs ilst_data it] ++ shift_forest delta K))) in *.
  (* moov *)
  assert (Htopc : true = true -> ma_off moov + ma_len moov = zlen f \/ be_decode (mp4_rd f (ma_off moov) 4) <> 0).
  { intros _. destruct (Z.eq_dec (be_decode (mp4_rd f (ma_off moov) 4)) 0) as [Z0|N0]; [left|right; exact N0].
    pose proof (atom_ok_header _ _ _ Hm) as Hh. pose proof (header_ok_facts _ _ _ _ _ _ Hh) as (X1 & X2 & X3 & X4 & X5 & X6 & X7).
    unfold mp4_header_ok in Hh. rewrite ztake_rd in Hh by lia. rewrite Z0 in Hh.
    apply andb_true_iff in Hh. destruct Hh as [_ HE]. lia. }
  assert (HMV : mp4_atom_ok f' true (MAtom (ma_name moov) (ma_off moov) (ma_len moov + delta) (ma_hdr moov)
                                       (Some (M1 ++ udta' :: shift_forest delta M2))) = true).
  { rewrite atom_ok_node.
    pose proof (nw_anc_header f atoms Hwf Htab [moov; udta] udta rest Hp Hrev cb ilst_data f2 f' R1 R2 true moov
               (or_introl eq_refl) Hm ltac:(unfold off; lia) Htopc) as HH. fold data delta in HH. rewrite HH. rewrite Hcm. cbn [andb].
    apply forest_ok_app_intro with (m := ma_off udta).
    - apply (forest_ok_same f f' false M1 _ _ G1); [|lia|discriminate].
      apply (nw_before f atoms Hwf Htab [moov; udta] udta rest Hp Hrev cb ilst_data f2 f' R1 R2 _ _ _ _ G1); [unfold off; lia|].
      intros y Hy. split; [apply InKm; rewrite flat_app; apply in_or_app; left; exact Hy|].
      pose proof (forest_within _ _ _ _ _ G1) as W. rewrite Forall_forall in W. specialize (W y Hy). unfold within in W.
      destruct (flat_member_ok f atoms Hwf y ltac:(apply InKm; rewrite flat_app; apply in_or_app; left; exact Hy)) as (tp & Hyok).
      pose proof (atom_ok_len _ _ _ Hyok). apply not_in_by_off. intros A0 [<-|[<-|[]]]; lia.
    - apply forest_ok_intro; [reflexivity|exact HUD|]. unfold udta'. cbn [ma_off ma_len].
      pose proof (forest_ok_transfer f f' delta false M2 _ _ G3) as X.
      replace (ma_off udta + ma_len udta + delta) with (ma_off udta + (ma_len udta + delta)) in X by lia.
      replace (ma_off moov + ma_len moov + delta) with (ma_off moov + (ma_len moov + delta)) in X by lia.
      apply X; [|lia|discriminate].
      apply (nw_after f atoms Hwf Htab [moov; udta] udta rest Hp Hrev cb ilst_data f2 f' R1 R2 _ _ _ _ G3); [unfold off; lia|].
      intros y Hy. split; [apply InKm; rewrite flat_app, flat_cons; apply in_or_app; right; apply in_or_app; right; exact Hy|].
      pose proof (forest_within _ _ _ _ _ G3) as W. rewrite Forall_forall in W. specialize (W y Hy). unfold within in W.
      apply not_in_by_off. intros A0 [<-|[<-|[]]]; lia. }
  exists (T1 ++ MAtom (ma_name moov) (ma_off moov) (ma_len moov + delta) (ma_hdr moov) (Some (M1 ++ udta' :: shift_forest delta M2))
            :: shift_forest delta T2).
  split.
  2:{ rewrite Ea. rewrite !forest_height_app, !forest_height_cons, height_node, (height_kids _ _ Km).
      rewrite !forest_height_app, !forest_height_cons, !forest_height_shift. rewrite (height_kids _ _ Ku).
      unfold udta'. rewrite height_node, forest_height_app, forest_height_shift. cbn [mp4_forest_height]. rewrite nm_meta_height.
      pose proof (forest_height_nonneg T1) as P1. pose proof (forest_height_nonneg T2) as P2. pose proof (forest_height_nonneg K) as P3.
      pose proof (height_pos it) as P4. pose proof (forest_height_nonneg M1) as P5. pose proof (forest_height_nonneg M2) as P6.
      remember (mp4_forest_height T1) as h1. remember (mp4_forest_height T2) as h2. remember (mp4_forest_height K) as h3.
      remember (mp4_height it) as h4. remember (mp4_forest_height M1) as h5. remember (mp4_forest_height M2) as h6.
      clear - P1 P2 P3 P4 P5 P6. split_max_le; lia. }
  apply forest_ok_app_intro with (m := ma_off moov).
  - apply (forest_ok_same f f' true T1 _ _ F1); [|lia|intros _; right; lia].
    apply (nw_before f atoms Hwf Htab [moov; udta] udta rest Hp Hrev cb ilst_data f2 f' R1 R2 _ _ _ _ F1); [unfold off; lia|].
    intros y Hy. split; [rewrite Ea, flat_app; apply in_or_app; left; exact Hy|].
    pose proof (forest_within _ _ _ _ _ F1) as W. rewrite Forall_forall in W. specialize (W y Hy). unfold within in W.
    destruct (flat_member_ok f atoms Hwf y ltac:(rewrite Ea, flat_app; apply in_or_app; left; exact Hy)) as (tp & Hyok).
    pose proof (atom_ok_len _ _ _ Hyok). apply not_in_by_off. intros A0 [<-|[<-|[]]]; lia.
  - apply forest_ok_intro; [reflexivity|exact HMV|]. cbn [ma_off ma_len].
    pose proof (forest_ok_transfer f f' delta true T2 _ _ F3) as X.
    replace (ma_off moov + ma_len moov + delta) with (ma_off moov + (ma_len moov + delta)) in X by lia.
    rewrite ZR. apply X; [|lia|intros _; left; lia].
    apply (nw_after f atoms Hwf Htab [moov; udta] udta rest Hp Hrev cb ilst_data f2 f' R1 R2 _ _ _ _ F3); [unfold off; lia|].
    intros y Hy. split; [rewrite Ea, flat_app, flat_cons; apply in_or_app; right; apply in_or_app; right; exact Hy|].
    pose proof (forest_within _ _ _ _ _ F3) as W. rewrite Forall_forall in W. specialize (W y Hy). unfold within in W.
    apply not_in_by_off. intros A0 [<-|[<-|[]]]; lia.
Qed.
End NewFinal.
