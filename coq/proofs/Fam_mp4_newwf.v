(* Well-formedness of the result of __save_new: the freshly rendered [udta] meta(hdlr, ilst, free) is a well-formed subtree,
   the container it is inserted into and moov carry length + delta, everything behind is shifted. *)
From Coq Require Import ZArith List Bool Lia.
Import ListNotations.
Require Import Base.Py Base.ZList Model.Splice Model.Fam_mp4 Proofs.Splice_lemmas
  Proofs.Fam_mp4_bytes Proofs.Fam_mp4_tree Proofs.Fam_mp4_parse Proofs.Fam_mp4_steps Proofs.Fam_mp4_agree Proofs.Fam_mp4_path
  Proofs.Fam_mp4_lists Proofs.Fam_mp4_surgery Proofs.Fam_mp4_shift Proofs.Fam_mp4_existing Proofs.Fam_mp4_new.
Open Scope Z_scope.

Definition hdr_of (data : list Z) : Z := if zlen data + 8 <=? 4294967295 then 8 else 16.

Lemma zlen_render' n data : zlen n = 4 -> zlen (mp4_render n data) = zlen data + hdr_of data.
Proof. intros H. unfold hdr_of. apply zlen_render; exact H. Qed.

Lemma agree_app_r' (l1 l2 : list Z) k : zlen l1 = k -> agree l2 0 (l1 ++ l2) k (zlen l2).
Proof. intros <-. apply agree_app_r. Qed.

Lemma agree_mid (l1 x l2 : list Z) k : zlen l1 = k -> agree x 0 (l1 ++ x ++ l2) k (zlen x).
Proof.
  intros <-. pose proof (zlen_nonneg l1). pose proof (zlen_nonneg x). pose proof (zlen_nonneg l2).
  repeat split; try lia. { rewrite !zlen_app. lia. }
  intros i Hi. rewrite znth_app by lia. destruct (zlen l1 + i <? zlen l1) eqn:E; [lia|].
  rewrite znth_app by lia. replace (zlen l1 + i - zlen l1) with i by lia. destruct (i <? zlen x) eqn:E2; [reflexivity|lia].
Qed.

(* the payload of a rendered atom sits behind its header *)
Lemma render_payload n data : zlen n = 4 -> agree data 0 (mp4_render n data) (hdr_of data) (zlen data).
Proof.
  intros Hn. pose proof (zlen_nonneg data). unfold mp4_render, hdr_of. destruct (zlen data + 8 <=? 4294967295).
  - rewrite app_assoc. apply agree_app_r'. rewrite zlen_app, zlen_be_enc, Hn. reflexivity.
  - rewrite (app_assoc n), app_assoc. apply agree_app_r'. rewrite !zlen_app, !zlen_be_enc, Hn. reflexivity.
Qed.

(* header rule of a rendered atom, for any name *)
Lemma render_header_ok g p n data :
  zlen n = 4 -> zlen data + 16 < MP4_U64 ->
  agree (mp4_render n data) 0 g p (zlen (mp4_render n data)) ->
  mp4_header_ok g false n p (zlen (mp4_render n data)) (hdr_of data) = true.
Proof.
  intros Hn Hsz AG. pose proof (zlen_nonneg data) as Hd. pose proof (zlen_render n data Hn) as HL.
  set (R := mp4_render n data) in *. destruct AG as (A1 & A2 & A3 & A4 & A5).
  assert (AGR : agree R 0 g p (zlen R)) by (repeat split; assumption).
  unfold mp4_header_ok, hdr_of.
  assert (L8 : 8 <= zlen R) by (destruct (zlen data + 8 <=? 4294967295); lia).
  assert (E8 : mp4_rd g p 8 = mp4_rd R 0 8) by (symmetry; pose proof (agree_rd0 _ _ _ _ _ 8 AGR) as X; apply X; lia).
  rewrite E8. rewrite zlen_rd_in by lia. cbn [Z.eqb Pos.eqb].
  assert (G1 : (0 <=? p) = true) by (apply Z.leb_le; lia). rewrite G1.
  assert (G2 : (p + zlen R <=? zlen g) = true) by (apply Z.leb_le; lia). rewrite G2. cbn [andb].
  unfold R, mp4_render in *. destruct (zlen data + 8 <=? 4294967295) eqn:E.
  - assert (Hh : mp4_rd (be_encode 4 (zlen data + 8) ++ n ++ data) 0 8 = be_encode 4 (zlen data + 8) ++ n).
    { unfold mp4_rd, zslice. rewrite zdrop_0. cbn [Z.add Z.sub]. rewrite app_assoc.
      apply ztake_app_n. rewrite zlen_app, zlen_be_enc, Hn. reflexivity. }
    rewrite Hh. rewrite ztake_app_n by apply zlen_be_enc. rewrite zdrop_app_n by apply zlen_be_enc.
    assert (Hne : list_eqb n n = true) by (apply list_eqb_spec; reflexivity). rewrite Hne. cbn [andb].
    rewrite be_dec_enc4 by (unfold MP4_U32; lia).
    rewrite !zlen_app, zlen_be_enc, Hn. cbn [Z.eqb Pos.eqb andb].
    assert (G3 : (zlen data + 8 =? Z.of_nat 4 + (4 + zlen data)) = true) by (apply Z.eqb_eq; lia). rewrite G3.
    assert (G4 : (8 <=? Z.of_nat 4 + (4 + zlen data)) = true) by (apply Z.leb_le; lia). rewrite G4. reflexivity.
  - assert (Hh : mp4_rd (be_encode 4 1 ++ n ++ be_encode 8 (zlen data + 8 + 8) ++ data) 0 8 = be_encode 4 1 ++ n).
    { unfold mp4_rd, zslice. rewrite zdrop_0. cbn [Z.add Z.sub]. rewrite app_assoc.
      apply ztake_app_n. rewrite zlen_app, zlen_be_enc, Hn. reflexivity. }
    rewrite Hh. rewrite ztake_app_n by apply zlen_be_enc. rewrite zdrop_app_n by apply zlen_be_enc.
    assert (Hne : list_eqb n n = true) by (apply list_eqb_spec; reflexivity). rewrite Hne. cbn [andb].
    rewrite be_dec_enc4 by (unfold MP4_U32; lia).
    assert (E16 : mp4_rd g (p + 8) 8 = be_encode 8 (zlen data + 8 + 8)).
    { rewrite !zlen_app, !zlen_be_enc, Hn in AGR.
      rewrite <- (agree_rd _ _ _ _ _ 8 8 AGR) by lia. cbn [Z.add].
      unfold mp4_rd, zslice. replace (8 + 8 - 8) with 8 by lia. rewrite app_assoc.
      rewrite zdrop_app_n by (rewrite zlen_app, zlen_be_enc, Hn; reflexivity).
      apply ztake_app_n. apply zlen_be_enc. }
    rewrite E16. rewrite zlen_be_enc. rewrite be_dec_enc8 by (unfold MP4_U64 in *; lia).
    rewrite !zlen_app, !zlen_be_enc, Hn. cbn [Z.eqb Pos.eqb andb orb].
    assert (G3 : (zlen data + 8 + 8 =? Z.of_nat 4 + (4 + (Z.of_nat 8 + zlen data))) = true) by (apply Z.eqb_eq; lia). rewrite G3.
    assert (G4 : (16 <=? Z.of_nat 4 + (4 + (Z.of_nat 8 + zlen data))) = true) by (apply Z.leb_le; lia). rewrite G4.
    reflexivity.
Qed.

(* a rendered container whose children are found well-formed in g *)
Lemma render_node_ok g p n body ks :
  zlen n = 4 -> mp4_is_container n = true -> zlen body + 16 < MP4_U64 ->
  agree (mp4_render n body) 0 g p (zlen (mp4_render n body)) ->
  mp4_forest_ok g false ks (p + hdr_of body + mp4_skip n) (p + zlen (mp4_render n body)) = true ->
  mp4_atom_ok g false (MAtom n p (zlen (mp4_render n body)) (hdr_of body) (Some ks)) = true.
Proof.
  intros Hn Hc Hsz AG Hk. rewrite atom_ok_node. rewrite (render_header_ok g p n body Hn Hsz AG). rewrite Hc. cbn [andb]. exact Hk.
Qed.

(* the bytes rendered for a sub-part are found in g when the whole is *)
Lemma agree_inner whole g p part k :
  agree whole 0 g p (zlen whole) -> agree part 0 whole k (zlen part) -> agree part 0 g (p + k) (zlen part).
Proof.
  intros A1 A2. eapply agree_trans; [exact A2|]. pose proof (zlen_nonneg part).
  destruct A2 as (_ & K0 & _ & K1 & _).
  pose proof (agree_sub _ _ _ _ _ k (zlen part) A1) as X. cbn [Z.add] in X. apply X; lia.
Qed.

(* ------------------------------------------------------------------ the new meta atom *)
Section NewMeta.
Variables (g : list Z) (p : Z) (cb : Z -> Z -> Z) (cs : Z) (ilst_data : list Z) (it : mp4_atom).
Hypothesis Hit : mp4_forest_ok ilst_data false [it] 0 (zlen ilst_data) = true.
Hypothesis Hsmall : zlen ilst_data < 4611686018427387904.
Let m := mp4_new_meta cb cs ilst_data.
Hypothesis AG : agree m 0 g p (zlen m).

Let meta_data := zeros 4 ++ mp4_hdlr ++ ilst_data.
Let pad := Z.min MP4_MAXPAD (cb (- zlen meta_data) cs).
Let fr := mp4_render N_free (zeros pad).
Let body := meta_data ++ fr.
Let hM := hdr_of body.

Definition nm_hdlr : mp4_atom := MAtom N_hdlr (p + hM + 4) (zlen mp4_hdlr) 8 None.
Definition nm_ilst : mp4_atom := shift_atom (p + hM + 4 + zlen mp4_hdlr) it.
Definition nm_free : mp4_atom :=
  MAtom N_free (p + hM + 4 + zlen mp4_hdlr + zlen ilst_data) (zlen fr) (hdr_of (zeros pad)) None.
Definition nm_meta : mp4_atom := MAtom N_meta p (zlen m) hM (Some [nm_hdlr; nm_ilst; nm_free]).

Lemma m_is : m = mp4_render N_meta body.
Proof. reflexivity. Qed.

Lemma zlen_zeros_any' n : zlen (zeros n) = Z.max 0 n.
Proof. destruct (Z.le_gt_cases 0 n); [rewrite zlen_zeros by lia; lia|rewrite zeros_neg by lia; cbn; lia]. Qed.

Lemma nm_meta_ok : mp4_atom_ok g false nm_meta = true.
Proof.
  pose proof (zlen_nonneg ilst_data) as Hi0. pose proof (zlen_zeros_any' pad) as HZ.
  assert (Hpad : pad <= MP4_MAXPAD) by (unfold pad; apply Z.le_min_l).
  assert (Hhd : zlen mp4_hdlr = 33) by reflexivity.
  assert (Hfr : zlen fr = zlen (zeros pad) + hdr_of (zeros pad)) by (apply zlen_render'; reflexivity).
  assert (Hh : hdr_of (zeros pad) = 8 \/ hdr_of (zeros pad) = 16) by (unfold hdr_of; destruct (_ <=? _); auto).
  assert (Hbody : zlen body = 4 + 33 + zlen ilst_data + zlen fr).
  { unfold body, meta_data. rewrite !zlen_app, Hhd. rewrite zlen_zeros by lia. lia. }
  assert (HhM : hM = 8 \/ hM = 16) by (unfold hM, hdr_of; destruct (_ <=? _); auto).
  assert (Hm : zlen m = zlen body + hM) by (rewrite m_is; apply zlen_render'; reflexivity).
  unfold MP4_MAXPAD in *.
  (* where the parts of the body are inside m *)
  assert (PB : agree body 0 m hM (zlen body)) by (rewrite m_is; apply render_payload; reflexivity).
  assert (Phd : agree mp4_hdlr 0 body 4 (zlen mp4_hdlr)).
  { unfold body, meta_data. rewrite <- !app_assoc. apply agree_mid. reflexivity. }
  assert (Pil : agree ilst_data 0 body (4 + 33) (zlen ilst_data)).
  { unfold body, meta_data. rewrite !app_assoc. rewrite <- (app_assoc _ ilst_data fr). apply agree_mid. reflexivity. }
  assert (Pfr : agree fr 0 body (4 + 33 + zlen ilst_data) (zlen fr)).
  { unfold body. apply agree_app_r'. unfold meta_data. rewrite !zlen_app, Hhd. rewrite zlen_zeros by lia. lia. }
  assert (Gin : forall part k, agree part 0 body k (zlen part) -> agree part 0 g (p + hM + k) (zlen part)).
  { intros part k X. replace (p + hM + k) with (p + (hM + k)) by lia.
    apply (agree_inner m g p part (hM + k) AG). apply (agree_inner body m hM part k PB X). }
  unfold nm_meta. rewrite m_is. fold hM.
  apply render_node_ok; [reflexivity|reflexivity|unfold MP4_U64; lia|rewrite <- m_is; exact AG|].
  rewrite <- m_is. change (mp4_skip N_meta) with 4.
  apply forest_ok_intro; [reflexivity| |].
  - unfold nm_hdlr. change mp4_hdlr with (mp4_render N_hdlr (zeros 8 ++ [109;100;105;114;97;112;112;108] ++ zeros 9)).
    apply (render_leaf_ok g (p + hM + 4) N_hdlr); [reflexivity|reflexivity|cbn; unfold MP4_U64; lia|].
    apply (Gin mp4_hdlr 4 Phd).
  - unfold nm_hdlr. cbn [ma_len]. apply forest_ok_intro.
    + unfold nm_ilst. rewrite shift_off. pose proof (forest_ok_cons _ _ _ _ _ _ Hit) as (E & _). lia.
    + pose proof (forest_ok_transfer ilst_data g (p + hM + 4 + zlen mp4_hdlr) false [it] 0 (zlen ilst_data) Hit) as X.
      cbn [shift_forest map] in X.
      assert (Hx : mp4_forest_ok g false [shift_atom (p + hM + 4 + zlen mp4_hdlr) it] (0 + (p + hM + 4 + zlen mp4_hdlr))
                     (zlen ilst_data + (p + hM + 4 + zlen mp4_hdlr)) = true).
      { apply X; [| |discriminate].
        - apply Forall_forall. intros x Hx. pose proof (forest_within _ _ _ _ _ Hit) as W. rewrite Forall_forall in W.
          specialize (W x Hx). unfold within in W.
          pose proof (forest_flat_ok _ _ _ _ _ Hit) as FO. rewrite Forall_forall in FO.
          assert (Lx : 8 <= ma_len x /\ ma_hdr x <= ma_len x /\ 0 <= ma_hdr x).
          { destruct (FO x Hx) as [E|E]; apply atom_ok_len in E; lia. }
          unfold hdr_agree. pose proof (Gin ilst_data (4 + 33) Pil) as Y.
          pose proof (agree_sub _ _ _ _ _ (ma_off x) (ma_hdr x) Y) as Y2. cbn [Z.add] in Y2.
          replace (ma_off x + (p + hM + 4 + zlen mp4_hdlr)) with (p + hM + (4 + 33) + ma_off x) by lia. apply Y2; lia.
        - destruct (Gin ilst_data (4 + 33) Pil) as (_ & _ & _ & Y & _). lia. }
      apply forest_ok_cons in Hx. tauto.
    + unfold nm_ilst. rewrite shift_len, shift_off.
      pose proof (forest_ok_cons _ _ _ _ _ _ Hit) as (E1 & E2 & E3). apply forest_ok_nil in E3.
      apply forest_ok_intro.
      * unfold nm_free. cbn [ma_off]. lia.
      * unfold nm_free, fr. apply render_leaf_ok; [reflexivity|reflexivity|unfold MP4_U64; lia|].
        fold fr. replace (p + hM + 4 + zlen mp4_hdlr + zlen ilst_data) with (p + hM + (4 + 33 + zlen ilst_data)) by lia.
        apply (Gin fr _ Pfr).
      * cbn. apply Z.eqb_eq. unfold nm_free. cbn [ma_off ma_len]. lia.
Qed.
End NewMeta.
