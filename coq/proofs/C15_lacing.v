(* C15: little-endian codec, CRC range and the lacing encode/decode lemmas of Model.Ogg *)
From Coq Require Import ZArith List Bool Lia.
Import ListNotations.
Require Import Base.Py Base.ZList Model.Crc Model.Ogg.
Open Scope Z_scope.

(* ---- little endian ------------------------------------------------------------------------ *)
Lemma zlen_le_encode n v : zlen (le_encode n v) = Z.of_nat n.
Proof.
  revert v; induction n as [|n IH]; intros v; [reflexivity|].
  cbn [le_encode]. rewrite zlen_cons, IH. lia.
Qed.

Lemma le_decode_encode n v : le_decode (le_encode n v) = v mod 256 ^ Z.of_nat n.
Proof.
  revert v; induction n as [|n IH]; intros v.
  - cbn [le_encode le_decode]. change (256 ^ Z.of_nat 0) with 1. rewrite Z.mod_1_r. reflexivity.
  - cbn [le_encode le_decode]. rewrite IH.
    replace (Z.of_nat (S n)) with (1 + Z.of_nat n) by lia.
    rewrite Z.pow_add_r by lia. change (256 ^ 1) with 256.
    assert (Hp : 0 < 256 ^ Z.of_nat n) by (apply Z.pow_pos_nonneg; lia).
    rewrite (Z.rem_mul_r v 256 (256 ^ Z.of_nat n)) by lia. reflexivity.
Qed.

Lemma signed64_mod v : - two63 <= v < two63 -> signed64 (v mod two64) = v.
Proof.
  unfold signed64, two63, two64. intros H.
  destruct (Z_lt_dec v 0) as [Hn|Hn].
  - assert (E : v mod 18446744073709551616 = v + 18446744073709551616).
    { symmetry. apply Z.mod_unique with (q := -1); lia. }
    rewrite E. destruct (_ <? _) eqn:C; lia.
  - rewrite Z.mod_small by lia. destruct (_ <? _) eqn:C; lia.
Qed.

(* ---- CRC register stays a 32-bit value ----------------------------------------------------- *)
Lemma mask32_ones : mask32 = Z.ones 32. Proof. reflexivity. Qed.
Lemma land_mask32_range x : 0 <= Z.land x mask32 < two32.
Proof.
  rewrite mask32_ones, Z.land_ones by lia. change (2 ^ 32) with two32.
  apply Z.mod_pos_bound. reflexivity.
Qed.
Lemma crc_shift_range c : 0 <= crc_shift c < two32.
Proof. unfold crc_shift. destruct (Z.testbit c 31); apply land_mask32_range. Qed.
Lemma crc_byte_range c b : 0 <= crc_byte c b < two32.
Proof. unfold crc_byte. apply crc_shift_range. Qed.
Lemma ogg_crc_range l : 0 <= ogg_crc l < two32.
Proof.
  unfold ogg_crc. assert (H : forall l c, 0 <= c < two32 -> 0 <= fold_left crc_byte l c < two32).
  { induction l0 as [|b l0 IH]; intros c Hc; cbn [fold_left]; [exact Hc|]. apply IH. apply crc_byte_range. }
  apply H. unfold two32; lia.
Qed.

(* ---- generic list facts -------------------------------------------------------------------- *)
Lemma zlen_repeat {A} (x : A) n : zlen (repeat x n) = Z.of_nat n.
Proof. unfold zlen. rewrite repeat_length. reflexivity. Qed.
Lemma zlen_concat_data pk : zlen (concat pk) = data_len pk.
Proof.
  induction pk as [|d pk IH]; [reflexivity|]. cbn [concat data_len fold_right].
  rewrite zlen_app. fold (data_len pk). lia.
Qed.
Lemma data_len_app a b : data_len (a ++ b) = data_len a + data_len b.
Proof.
  induction a as [|d a IH]; cbn [app data_len fold_right]; [reflexivity|].
  fold (data_len (a ++ b)) (data_len a). lia.
Qed.
Lemma data_len_nonneg pk : 0 <= data_len pk.
Proof. rewrite <- zlen_concat_data. apply zlen_nonneg. Qed.

(* ---- lacing -------------------------------------------------------------------------------- *)
Definition seg_sum (pk : list (list Z)) : Z := fold_right (fun d acc => zlen d / 255 + 1 + acc) 0 pk.
Definition all_lacing (pk : list (list Z)) : list Z := concat (map lacing_of pk).

Lemma zlen_lacing_of d : zlen (lacing_of d) = zlen d / 255 + 1.
Proof.
  unfold lacing_of. rewrite zlen_app, zlen_repeat, zlen_cons, zlen_nil.
  pose proof (zlen_nonneg d). assert (0 <= zlen d / 255) by (apply Z.div_pos; lia). lia.
Qed.
Lemma zlen_all_lacing pk : zlen (all_lacing pk) = seg_sum pk.
Proof.
  unfold all_lacing. induction pk as [|d pk IH]; [reflexivity|].
  cbn [map concat seg_sum fold_right]. rewrite zlen_app, zlen_lacing_of, IH. reflexivity.
Qed.
Lemma seg_sum_app a b : seg_sum (a ++ b) = seg_sum a + seg_sum b.
Proof.
  induction a as [|d a IH]; cbn [app seg_sum fold_right]; [reflexivity|].
  fold (seg_sum (a ++ b)) (seg_sum a). lia.
Qed.
Lemma seg_sum_nonneg pk : 0 <= seg_sum pk.
Proof. rewrite <- zlen_all_lacing. apply zlen_nonneg. Qed.
Lemma all_lacing_app a b : all_lacing (a ++ b) = all_lacing a ++ all_lacing b.
Proof. unfold all_lacing. rewrite map_app, concat_app. reflexivity. Qed.
Lemma all_lacing_snoc a d :
  all_lacing (a ++ [d]) = (all_lacing a ++ repeat 255 (Z.to_nat (zlen d / 255))) ++ [zlen d mod 255].
Proof.
  rewrite all_lacing_app. unfold all_lacing at 2. cbn [map concat]. rewrite app_nil_r.
  unfold lacing_of. rewrite app_assoc. reflexivity.
Qed.

(* a list is empty or ends in some element *)
Lemma snoc_cases {A} (l : list A) : l = [] \/ exists a x, l = a ++ [x].
Proof.
  destruct l as [|y l]; [left; reflexivity|right].
  exists (removelast (y :: l)), (last (y :: l) y). apply app_removelast_last. discriminate.
Qed.

(* what write() does to the lacing of an incomplete page, by cases on the last packet *)
Lemma lacing_data_complete p : p_complete p = true -> lacing_data p = all_lacing (p_packets p).
Proof. unfold lacing_data. intros ->. reflexivity. Qed.
Lemma lacing_data_nil p : p_packets p = [] -> lacing_data p = [].
Proof. unfold lacing_data. intros ->. cbn. destruct (p_complete p); reflexivity. Qed.
Lemma lacing_data_snoc p a d : p_packets p = a ++ [d] -> p_complete p = false ->
  lacing_data p = if zlen d mod 255 =? 0 then all_lacing a ++ repeat 255 (Z.to_nat (zlen d / 255))
                  else all_lacing (a ++ [d]).
Proof.
  unfold lacing_data. intros -> ->. fold (all_lacing (a ++ [d])). rewrite all_lacing_snoc.
  rewrite last_last. cbn [negb andb]. destruct (zlen d mod 255 =? 0) eqn:E.
  - rewrite removelast_last. reflexivity.
  - reflexivity.
Qed.

(* the `size` property is 27 + number of lacing values + data, for every page *)
Lemma page_size_spec p : page_size p = 27 + lacing_count p + data_len (p_packets p).
Proof.
  unfold page_size, lacing_count. fold (seg_sum (p_packets p)). f_equal. f_equal.
  destruct (snoc_cases (p_packets p)) as [E|(a & d & E)].
  - rewrite (lacing_data_nil p E), E. reflexivity.
  - destruct (p_complete p) eqn:C.
    + rewrite (lacing_data_complete p C), zlen_all_lacing. rewrite E.
      destruct (a ++ [d]) eqn:X; [destruct a; discriminate|]. reflexivity.
    + rewrite (lacing_data_snoc p a d E C). rewrite E, last_last. cbn [negb andb].
      destruct (a ++ [d]) eqn:X; [destruct a; discriminate|]. rewrite <- X.
      destruct (zlen d mod 255 =? 0) eqn:M.
      * rewrite zlen_app, zlen_all_lacing, zlen_repeat, seg_sum_app. cbn [seg_sum fold_right].
        pose proof (zlen_nonneg d). assert (0 <= zlen d / 255) by (apply Z.div_pos; lia). lia.
      * rewrite zlen_all_lacing. reflexivity.
Qed.

Lemma lacing_count_le_seg_sum p : lacing_count p <= seg_sum (p_packets p).
Proof.
  unfold lacing_count. destruct (snoc_cases (p_packets p)) as [E|(a & d & E)].
  - rewrite (lacing_data_nil p E), E. cbn. lia.
  - destruct (p_complete p) eqn:C.
    + rewrite (lacing_data_complete p C), zlen_all_lacing. lia.
    + rewrite (lacing_data_snoc p a d E C), E. destruct (zlen d mod 255 =? 0).
      * rewrite zlen_app, zlen_all_lacing, zlen_repeat, seg_sum_app. cbn [seg_sum fold_right].
        pose proof (zlen_nonneg d). assert (0 <= zlen d / 255) by (apply Z.div_pos; lia). lia.
      * rewrite zlen_all_lacing. lia.
Qed.

(* ---- the lacing loop of __init__ ----------------------------------------------------------- *)
Lemma lacing_scan_255s k r t acc :
  lacing_scan (repeat 255 k ++ r) t acc = lacing_scan r (t + 255 * Z.of_nat k) acc.
Proof.
  revert t; induction k as [|k IH]; intros t.
  - cbn [repeat app]. f_equal. lia.
  - cbn [repeat app lacing_scan]. change (255 <? 255) with false. cbn iota. rewrite IH. f_equal. lia.
Qed.
Lemma lacing_scan_packet d r acc :
  lacing_scan (lacing_of d ++ r) 0 acc = lacing_scan r 0 (zlen d :: acc).
Proof.
  unfold lacing_of. rewrite <- app_assoc, lacing_scan_255s. cbn [app lacing_scan].
  pose proof (zlen_nonneg d). assert (0 <= zlen d / 255) by (apply Z.div_pos; lia).
  rewrite Z2Nat.id by lia.
  assert (Hm : 0 <= zlen d mod 255 < 255) by (apply Z.mod_pos_bound; lia).
  destruct (zlen d mod 255 <? 255) eqn:E; [|lia].
  f_equal. f_equal. rewrite (Z.div_mod (zlen d) 255) at 3 by lia. lia.
Qed.
Lemma lacing_scan_all pk r acc :
  lacing_scan (all_lacing pk ++ r) 0 acc = lacing_scan r 0 (rev (map (@zlen Z) pk) ++ acc).
Proof.
  revert acc; induction pk as [|d pk IH]; intros acc; [reflexivity|].
  unfold all_lacing. cbn [map concat]. fold (all_lacing pk). rewrite <- app_assoc.
  rewrite lacing_scan_packet, IH. cbn [rev]. rewrite <- app_assoc. reflexivity.
Qed.

Lemma read_packets_all pk rest :
  read_packets (map (@zlen Z) pk) (concat pk ++ rest) = Some (pk, rest).
Proof.
  induction pk as [|d pk IH]; [reflexivity|].
  cbn [map concat read_packets]. rewrite <- app_assoc.
  rewrite ztake_app_exact, zdrop_app_exact, Z.eqb_refl. cbn [negb]. rewrite IH. reflexivity.
Qed.
