(* C15 (e): renumber and the pieces of replace on a file that is a concatenation of rendered pages *)
From Coq Require Import ZArith List Bool Lia.
Import ListNotations.
Require Import Base.Py Base.ZList Base.FileModel Model.Crc Model.Ogg Proofs.C15_lacing Proofs.C15_page Proofs.C15_unpage
  Proofs.C15_paging Proofs.C15_from_packets.
Open Scope Z_scope.

(* ---- flags ---------------------------------------------------------------------------------- *)
Lemma testbit_1 n : Z.testbit 1 n = (n =? 0).
Proof. destruct n as [|q|q]; try reflexivity; try (destruct q; reflexivity). Qed.

Lemma test_set_flag i j v p : 0 <= i -> 0 <= j ->
  test_flag i (set_flag j v p) = if i =? j then v else test_flag i p.
Proof.
  intros Hi Hj. unfold test_flag, set_flag. fields. destruct v.
  - rewrite Z.lor_spec, Z.shiftl_spec, testbit_1 by lia.
    destruct (i =? j) eqn:E.
    + apply Z.eqb_eq in E. subst. rewrite Z.sub_diag. apply orb_true_r.
    + apply Z.eqb_neq in E. destruct (i - j =? 0) eqn:F; [apply Z.eqb_eq in F; lia|]. apply orb_false_r.
  - rewrite Z.land_spec, Z.lnot_spec, Z.shiftl_spec, testbit_1 by lia.
    destruct (i =? j) eqn:E.
    + apply Z.eqb_eq in E. subst. rewrite Z.sub_diag. apply andb_false_r.
    + apply Z.eqb_neq in E. destruct (i - j =? 0) eqn:F; [apply Z.eqb_eq in F; lia|]. apply andb_true_r.
Qed.

(* ---- files made of pages ------------------------------------------------------------------------ *)
Definition render_all (pages : list page) : list Z := concat (map page_bytes pages).

Lemma render_all_cons p r : render_all (p :: r) = page_bytes p ++ render_all r.
Proof. reflexivity. Qed.
Lemma render_all_app a b : render_all (a ++ b) = render_all a ++ render_all b.
Proof. unfold render_all. rewrite map_app, concat_app. reflexivity. Qed.

Lemma page_parse_nil : page_parse [] = Raise EEOF.
Proof. reflexivity. Qed.

(* OggPage(fileobj) at the start of a rendered well-formed page *)
Lemma page_at_rendered pre p tail : page_wf p ->
  page_at (pre ++ page_bytes p ++ tail) (zlen pre) = Ok (p, zlen pre + page_size p).
Proof.
  intros W. unfold page_at. rewrite zdrop_app_exact, (page_parse_write p tail W).
  rewrite !zlen_app, page_bytes_len. f_equal. f_equal. lia.
Qed.
Lemma page_at_end pre : page_at (pre ++ []) (zlen pre) = Raise EEOF.
Proof. unfold page_at. rewrite zdrop_app_exact. reflexivity. Qed.

(* overwriting a region by bytes of the same length *)
Lemma write_at_replace pre old new tail : zlen new = zlen old ->
  write_at (pre ++ old ++ tail) (zlen pre) new = pre ++ new ++ tail.
Proof.
  intros H. unfold write_at. pose proof (zlen_nonneg old). pose proof (zlen_nonneg tail).
  destruct (zlen (pre ++ old ++ tail) <? zlen pre) eqn:E.
  { apply Z.ltb_lt in E. rewrite !zlen_app in E. lia. }
  rewrite ztake_app_exact. f_equal. f_equal.
  replace (pre ++ old ++ tail) with ((pre ++ old) ++ tail) by (rewrite <- app_assoc; reflexivity).
  apply zdrop_app_len. rewrite zlen_app. lia.
Qed.

(* changing the sequence number of a well-formed page *)
Lemma set_sequence_wf p n : page_wf p -> 0 <= n < two32 -> page_wf (set_sequence p n).
Proof.
  intros (H1 & H2 & H3 & H4) Hn. repeat split; try assumption.
  unfold header_ok in *. fields. repeat (apply andb_true_iff in H1 as [H1 ?]).
  repeat (apply andb_true_iff; split); try assumption; [apply Z.leb_le|apply Z.ltb_lt]; lia.
Qed.
Lemma set_sequence_size p n : page_size (set_sequence p n) = page_size p.
Proof. reflexivity. Qed.

(* what renumber does, read off the page list *)
Fixpoint renumber_pages (serial number : Z) (pages : list page) : list page :=
  match pages with
  | [] => []
  | p :: r => if p_serial p =? serial then set_sequence p number :: renumber_pages serial (number + 1) r
              else p :: renumber_pages serial number r
  end.

Lemma renumber_loop_spec serial pages : forall pre number fuel,
  Forall page_wf pages -> 0 <= number -> number + zlen pages <= two32 -> (length pages < fuel)%nat ->
  renumber_loop fuel (pre ++ render_all pages) (zlen pre) serial number =
    (Ok tt, pre ++ render_all (renumber_pages serial number pages)).
Proof.
  induction pages as [|p r IH]; intros pre number fuel HW Hn Hr Hf.
  - destruct fuel as [|fuel]; [cbn in Hf; lia|]. cbn [renumber_loop render_all map concat].
    rewrite page_at_end. reflexivity.
  - destruct fuel as [|fuel]; [cbn in Hf; lia|]. inversion HW as [|? ? Wp Wr]; subst.
    rewrite zlen_cons in Hr. pose proof (zlen_nonneg r).
    cbn [renumber_loop renumber_pages]. rewrite render_all_cons, (page_at_rendered pre p (render_all r) Wp).
    destruct (p_serial p =? serial) eqn:E; cbn [negb].
    + assert (Wn : page_wf (set_sequence p number)) by (apply set_sequence_wf; [exact Wp|lia]).
      destruct Wn as (N1 & N2 & N3 & N4).
      rewrite (page_write_ok _ N1 N3).
      replace (zlen pre + page_size p - page_size p) with (zlen pre) by lia.
      rewrite write_at_replace by (rewrite !page_bytes_len; reflexivity).
      replace (pre ++ page_bytes (set_sequence p number) ++ render_all r)
        with ((pre ++ page_bytes (set_sequence p number)) ++ render_all r) by (rewrite <- app_assoc; reflexivity).
      replace (zlen pre + page_size p) with (zlen (pre ++ page_bytes (set_sequence p number)))
        by (rewrite zlen_app, page_bytes_len; reflexivity).
      rewrite IH; [|exact Wr|lia|lia|cbn [length] in Hf; lia].
      rewrite render_all_cons, <- app_assoc. reflexivity.
    + replace (pre ++ page_bytes p ++ render_all r) with ((pre ++ page_bytes p) ++ render_all r)
        by (rewrite <- app_assoc; reflexivity).
      replace (zlen pre + page_size p) with (zlen (pre ++ page_bytes p)) by (rewrite zlen_app, page_bytes_len; reflexivity).
      rewrite IH; [|exact Wr|lia|lia|cbn [length] in Hf; lia].
      rewrite render_all_cons, <- app_assoc. reflexivity.
Qed.

Theorem renumber_spec pre pages serial start :
  Forall page_wf pages -> 0 <= start -> start + zlen pages <= two32 ->
  renumber (pre ++ render_all pages) (zlen pre) serial start =
    (Ok tt, pre ++ render_all (renumber_pages serial start pages)).
Proof.
  intros HW H0 H1. unfold renumber. apply renumber_loop_spec; try assumption.
  (* every page takes at least one byte, so the file length bounds the page count *)
  assert (H : (length pages <= length (render_all pages))%nat).
  { clear. induction pages as [|p r IH]; [cbn; lia|]. rewrite render_all_cons, app_length. cbn [length].
    assert (0 < zlen (page_bytes p)).
    { rewrite page_bytes_shape, zlen_app, zlen_hdr27. pose proof (zlen_nonneg (lacing_data p ++ concat (p_packets p))). lia. }
    unfold zlen in *. lia. }
  rewrite app_length. lia.
Qed.

(* the renumbered list: same length, same pages except for the sequence field; pages of other serials untouched;
   the pages of `serial` carry start, start+1, ... in order *)
Lemma renumber_pages_length serial n pages : length (renumber_pages serial n pages) = length pages.
Proof.
  revert n; induction pages as [|p r IH]; intros n; [reflexivity|].
  cbn [renumber_pages]. destruct (p_serial p =? serial); cbn [length]; rewrite IH; reflexivity.
Qed.
Lemma renumber_pages_others serial n pages :
  filter (fun p => negb (p_serial p =? serial)) (renumber_pages serial n pages) =
  filter (fun p => negb (p_serial p =? serial)) pages.
Proof.
  revert n; induction pages as [|p r IH]; intros n; [reflexivity|].
  cbn [renumber_pages]. destruct (p_serial p =? serial) eqn:E; cbn [filter].
  - change (p_serial (set_sequence p n)) with (p_serial p). rewrite E. cbn [negb]. apply IH.
  - rewrite E. cbn [negb]. f_equal. apply IH.
Qed.
Lemma renumber_pages_gapless serial n pages :
  seq_from n (filter (fun p => p_serial p =? serial) (renumber_pages serial n pages)) /\
  map (fun p => set_sequence p 0) (filter (fun p => p_serial p =? serial) (renumber_pages serial n pages)) =
  map (fun p => set_sequence p 0) (filter (fun p => p_serial p =? serial) pages).
Proof.
  revert n; induction pages as [|p r IH]; intros n; [split; [exact I|reflexivity]|].
  cbn [renumber_pages]. destruct (p_serial p =? serial) eqn:E; cbn [filter].
  - change (p_serial (set_sequence p n)) with (p_serial p). rewrite E. destruct (IH (n + 1)) as (A & B).
    split; [split; [reflexivity|exact A]|]. cbn [map]. rewrite B. reflexivity.
  - rewrite E. apply IH.
Qed.

(* ---- the slot loop of replace ------------------------------------------------------------------ *)
(* one slot: the bytes of an old page, the bytes that take its place, and whatever follows up to the next old page *)
Record slot := mkSlot { slot_old : list Z; slot_new : list Z; slot_gap : list Z }.
Definition old_layout (slots : list slot) : list Z := concat (map (fun s => slot_old s ++ slot_gap s) slots).
Definition new_layout (slots : list slot) : list Z := concat (map (fun s => slot_new s ++ slot_gap s) slots).
(* (offset, size) of the old pages in the original file, the first one at `base` *)
Fixpoint slot_olds (base : Z) (slots : list slot) : list (Z * Z) :=
  match slots with
  | [] => []
  | s :: r => (base, zlen (slot_old s)) :: slot_olds (base + zlen (slot_old s) + zlen (slot_gap s)) r
  end.
(* end of the last new data in the new file *)
Fixpoint new_end_from (p ne : Z) (slots : list slot) : Z :=
  match slots with
  | [] => ne
  | s :: r => new_end_from (p + zlen (slot_new s) + zlen (slot_gap s)) (p + zlen (slot_new s)) r
  end.
Definition new_end_of (base : Z) (slots : list slot) : Z := new_end_from base 0 slots.

Lemma replace_slot_spec pre old new tail :
  replace_slot (pre ++ old ++ tail) (zlen pre) (zlen old) new = Ok (pre ++ new ++ tail).
Proof.
  unfold replace_slot. pose proof (zlen_nonneg old). pose proof (zlen_nonneg pre). pose proof (zlen_nonneg tail).
  destruct (zlen old <? 0) eqn:E1; [lia|]. destruct (zlen pre <? 0) eqn:E2; [lia|]. cbn [orb].
  destruct (zlen new =? zlen old) eqn:E3.
  - apply Z.eqb_eq in E3. rewrite write_at_replace by exact E3. reflexivity.
  - destruct (zlen (pre ++ old ++ tail) <? zlen pre + zlen old) eqn:E4.
    { apply Z.ltb_lt in E4. rewrite !zlen_app in E4. lia. }
    rewrite ztake_app_exact. f_equal. f_equal. f_equal.
    replace (pre ++ old ++ tail) with ((pre ++ old) ++ tail) by (rewrite <- app_assoc; reflexivity).
    apply zdrop_app_len. rewrite zlen_app. reflexivity.
Qed.

Lemma slot_loop_gen slots : forall pre base adjust ne, base + adjust = zlen pre ->
  slot_loop (pre ++ old_layout slots) (slot_olds base slots) (map slot_new slots) adjust ne =
    (Ok tt, pre ++ new_layout slots, new_end_from (zlen pre) ne slots).
Proof.
  induction slots as [|s r IH]; intros pre base adjust ne Hb.
  - reflexivity.
  - cbn [slot_olds map slot_loop new_end_from]. unfold old_layout, new_layout. cbn [map concat].
    fold (old_layout r) (new_layout r). rewrite Hb.
    rewrite <- (app_assoc (slot_old s)). rewrite replace_slot_spec.
    replace (pre ++ slot_new s ++ slot_gap s ++ old_layout r)
      with ((pre ++ slot_new s ++ slot_gap s) ++ old_layout r) by (repeat rewrite <- app_assoc; reflexivity).
    rewrite (IH (pre ++ slot_new s ++ slot_gap s) (base + zlen (slot_old s) + zlen (slot_gap s))).
    + rewrite !zlen_app. repeat rewrite <- app_assoc. f_equal. f_equal. lia.
    + rewrite !zlen_app. lia.
Qed.

Theorem slot_loop_spec slots pre :
  slot_loop (pre ++ old_layout slots) (slot_olds (zlen pre) slots) (map slot_new slots) 0 0 =
    (Ok tt, pre ++ new_layout slots, new_end_of (zlen pre) slots).
Proof. apply slot_loop_gen. lia. Qed.

(* ---- the edits replace() makes on the new pages ------------------------------------------------ *)
Lemma number_from_spec serial seq l :
  zlen (number_from serial seq l) = zlen l /\ seq_from seq (number_from serial seq l) /\
  Forall (fun p => p_serial p = serial) (number_from serial seq l) /\
  map p_packets (number_from serial seq l) = map p_packets l /\
  map p_flags (number_from serial seq l) = map p_flags l /\
  map p_complete (number_from serial seq l) = map p_complete l.
Proof.
  revert seq; induction l as [|p r IH]; intros seq.
  - repeat split; try reflexivity. constructor.
  - destruct (IH (seq + 1)) as (A & B & C & D & E & F). cbn [number_from].
    split; [|split; [split; [reflexivity|]|split; [|split; [|split]]]].
    + rewrite !zlen_cons, A. reflexivity.
    + exact B.
    + constructor; [reflexivity|exact C].
    + cbn [map]. rewrite D. reflexivity.
    + cbn [map]. rewrite E. reflexivity.
    + cbn [map]. rewrite F. reflexivity.
Qed.

(* a function that keeps sequence, serial and packets, applied to the head / the last element *)
Definition keeps (g : page -> page) : Prop :=
  forall p, p_sequence (g p) = p_sequence p /\ p_serial (g p) = p_serial p /\ p_packets (g p) = p_packets p.

Lemma map_head_keeps g l : keeps g ->
  zlen (map_head g l) = zlen l /\ (forall s, seq_from s l -> seq_from s (map_head g l)) /\
  (forall x, Forall (fun p => p_serial p = x) l -> Forall (fun p => p_serial p = x) (map_head g l)) /\
  map p_packets (map_head g l) = map p_packets l.
Proof.
  intros K. destruct l as [|p r]; [repeat split; auto|]. destruct (K p) as (K1 & K2 & K3). cbn [map_head].
  split; [|split; [|split]].
  - rewrite !zlen_cons. reflexivity.
  - intros s (A & B). split; [rewrite K1; exact A|exact B].
  - intros x H. inversion H as [|? ? Hx Hr]. constructor; [rewrite K2; exact Hx|exact Hr].
  - cbn [map]. rewrite K3. reflexivity.
Qed.
Lemma map_last_keeps g l : keeps g ->
  zlen (map_last g l) = zlen l /\ (forall s, seq_from s l -> seq_from s (map_last g l)) /\
  (forall x, Forall (fun p => p_serial p = x) l -> Forall (fun p => p_serial p = x) (map_last g l)) /\
  map p_packets (map_last g l) = map p_packets l.
Proof.
  intros K. induction l as [|p r IH]; [repeat split; auto|].
  destruct IH as (I1 & I2 & I3 & I4). destruct (K p) as (K1 & K2 & K3).
  destruct r as [|q r'].
  - cbn [map_last]. split; [reflexivity|split; [|split]].
    + intros s (A & B). split; [rewrite K1; exact A|exact B].
    + intros x H. inversion H as [|? ? Hx Hr]. constructor; [rewrite K2; exact Hx|exact Hr].
    + cbn [map]. rewrite K3. reflexivity.
  - change (map_last g (p :: q :: r')) with (p :: map_last g (q :: r')). split; [|split; [|split]].
    + rewrite (zlen_cons p), (zlen_cons p), I1. reflexivity.
    + intros s (A & B). split; [exact A|apply I2; exact B].
    + intros x H. inversion H as [|? ? Hx Hr]. constructor; [exact Hx|apply I3; exact Hr].
    + cbn [map] in *. rewrite I4. reflexivity.
Qed.
Lemma last_map_last (g : page -> page) (l : list page) d : l <> [] -> last (map_last g l) d = g (last l d).
Proof.
  induction l as [|p r IH]; [contradiction|]. intros _. destruct r as [|q r']; [reflexivity|].
  change (map_last g (p :: q :: r')) with (p :: map_last g (q :: r')).
  change (last (p :: q :: r') d) with (last (q :: r') d).
  rewrite <- IH by discriminate. destruct (map_last g (q :: r')) eqn:E; [|reflexivity].
  destruct r'; discriminate.
Qed.
(* the head after map_last: untouched unless it is also the last element *)
Lemma hd_map_last (g : page -> page) (l : list page) d : hd d (map_last g l) = match l with [_] => g (hd d l) | _ => hd d l end.
Proof. destruct l as [|p [|q r]]; reflexivity. Qed.

Theorem prepare_new_spec old0 oldl news : news <> [] ->
  let l := prepare_new old0 oldl news in
  zlen l = zlen news /\ seq_from (p_sequence old0) l /\ Forall (fun p => p_serial p = p_serial old0) l /\
  first (hd new_page l) = first old0 /\ continued (hd new_page l) = continued old0 /\
  last_flag (last l new_page) = last_flag oldl /\ p_complete (last l new_page) = p_complete oldl /\
  map p_packets l = map p_packets news.
Proof.
  intros Hne. cbv zeta. unfold prepare_new.
  set (gh := fun p => set_continued (continued old0) (set_first (first old0) p)).
  set (gl := fun p => let p0 := set_complete (set_last (last_flag oldl) p) (p_complete oldl) in
                      if negb (p_complete p0) && (zlen (p_packets p0) =? 1) then set_position p0 (-1) else p0).
  assert (Kh : keeps gh) by (intros p; repeat split; reflexivity).
  assert (Kl : keeps gl).
  { intros p. unfold gl. cbv zeta. destruct (negb _ && _); repeat split; reflexivity. }
  set (l0 := number_from (p_serial old0) (p_sequence old0) news).
  destruct (number_from_spec (p_serial old0) (p_sequence old0) news) as (N1 & N2 & N3 & N4 & _ & _). fold l0 in N1, N2, N3, N4.
  destruct (map_head_keeps gh l0 Kh) as (H1 & H2 & H3 & H4).
  destruct (map_last_keeps gl (map_head gh l0) Kl) as (L1 & L2 & L3 & L4).
  assert (Hl0 : l0 <> []) by (unfold l0; destruct news; [contradiction|discriminate]).
  assert (Hmh : map_head gh l0 <> []) by (destruct l0; [contradiction|discriminate]).
  (* flag facts of the two edit functions *)
  assert (Fgl : forall p, first (gl p) = first p /\ continued (gl p) = continued p /\
                          last_flag (gl p) = last_flag oldl /\ p_complete (gl p) = p_complete oldl).
  { intros p. unfold gl. cbv zeta.
    assert (X : forall q, q = set_complete (set_last (last_flag oldl) p) (p_complete oldl) ->
                first q = first p /\ continued q = continued p /\ last_flag q = last_flag oldl /\ p_complete q = p_complete oldl).
    { intros q ->. unfold first, continued, last_flag, set_last.
      change (test_flag 1 (set_complete (set_flag 2 (test_flag 2 oldl) p) (p_complete oldl)))
        with (test_flag 1 (set_flag 2 (test_flag 2 oldl) p)).
      change (test_flag 0 (set_complete (set_flag 2 (test_flag 2 oldl) p) (p_complete oldl)))
        with (test_flag 0 (set_flag 2 (test_flag 2 oldl) p)).
      change (test_flag 2 (set_complete (set_flag 2 (test_flag 2 oldl) p) (p_complete oldl)))
        with (test_flag 2 (set_flag 2 (test_flag 2 oldl) p)).
      rewrite !test_set_flag by lia. repeat split; reflexivity. }
    destruct (negb _ && _); exact (X _ eq_refl). }
  assert (Fgh : forall p, first (gh p) = first old0 /\ continued (gh p) = continued old0).
  { intros p. unfold gh, first, continued, set_continued, set_first. rewrite !test_set_flag by lia. split; reflexivity. }
  split; [rewrite L1, H1, N1; reflexivity|].
  split; [apply L2, H2, N2|].
  split; [apply L3, H3, N3|].
  assert (Hhd : hd new_page (map_head gh l0) = gh (hd new_page l0)) by (destruct l0; [contradiction|reflexivity]).
  split; [|split; [|split; [|split]]].
  - rewrite hd_map_last. destruct (map_head gh l0) as [|a [|b r]] eqn:E; [contradiction| |].
    + destruct (Fgl (hd new_page [a])) as (A & _). rewrite A, Hhd. apply Fgh.
    + rewrite Hhd. apply Fgh.
  - rewrite hd_map_last. destruct (map_head gh l0) as [|a [|b r]] eqn:E; [contradiction| |].
    + destruct (Fgl (hd new_page [a])) as (_ & A & _). rewrite A, Hhd. apply Fgh.
    + rewrite Hhd. apply Fgh.
  - rewrite last_map_last by exact Hmh. apply Fgl.
  - rewrite last_map_last by exact Hmh. apply Fgl.
  - rewrite L4, H4, N4. reflexivity.
Qed.
