(* C15 (d): inputs outside the precondition on which from_packets yields a page that write() rejects
   (more than 255 lacing values), and non-termination of the chunk loop below default_size 255 *)
From Coq Require Import ZArith List Bool Lia.
Import ListNotations.
Require Import Base.Py Base.ZList Model.Crc Model.Ogg Proofs.C15_lacing Proofs.C15_page Proofs.C15_unpage
  Proofs.C15_paging Proofs.C15_from_packets.
Open Scope Z_scope.

(* decidable: from_packets succeeds and some page has more than 255 lacing values and write() raises ValueError *)
Definition unrenderable (ds wr : Z) (ps : list (list Z)) : bool :=
  match from_packets ds wr ps 0 with
  | Ok pages => existsb (fun p => (255 <? lacing_count p) &&
                                  match page_write p with Raise EValue => true | _ => false end) pages
  | Raise _ => false
  end.

Lemma unrenderable_sound ds wr ps : unrenderable ds wr ps = true ->
  exists pages p, from_packets ds wr ps 0 = Ok pages /\ In p pages /\ 255 < lacing_count p /\
                  page_write p = Raise EValue.
Proof.
  unfold unrenderable. destruct (from_packets ds wr ps 0) as [pages|]; [|discriminate].
  intros H. apply existsb_exists in H as (p & Hin & Hp). apply andb_true_iff in Hp as [H1 H2].
  exists pages, p. split; [reflexivity|]. split; [exact Hin|]. split; [apply Z.ltb_lt; exact H1|].
  destruct (page_write p) as [|e]; [discriminate|]. destruct e; try discriminate. reflexivity.
Qed.

(* 240 one-byte packets and one of 8000 bytes, default parameters: first page 241 packets, 256 lacing values *)
Definition w_small_then_large : list (list Z) := repeat [120] 240 ++ [repeat 121 (Z.to_nat 8000)].
(* 256 empty packets: one page, no guard at all on the way *)
Definition w_empty_packets : list (list Z) := repeat [] 256.
(* one packet of 255 * 255 bytes with default_size 65025 *)
Definition w_huge : list (list Z) := [repeat 7 (Z.to_nat 65025)].

Lemma w_small_then_large_unrenderable : unrenderable 4096 2048 w_small_then_large = true.
Proof. vm_compute. reflexivity. Qed.
Lemma w_empty_packets_unrenderable : unrenderable 4096 2048 w_empty_packets = true.
Proof. vm_compute. reflexivity. Qed.
Lemma w_huge_unrenderable : unrenderable 65025 2048 w_huge = true.
Proof. vm_compute. reflexivity. Qed.

(* these inputs are outside segments_bounded; the largest inputs of the same shapes inside it *)
Lemma witnesses_outside_precondition :
  segments_bounded w_small_then_large 4096 2048 = false /\ segments_bounded w_empty_packets 4096 2048 = false /\
  segments_bounded w_huge 65025 2048 = false.
Proof. vm_compute. repeat split; reflexivity. Qed.

Theorem pages_valid_refuted :
  (exists ps, ps <> [] /\ exists pages p, from_packets 4096 2048 ps 0 = Ok pages /\ In p pages /\
              255 < lacing_count p /\ page_write p = Raise EValue /\ Forall (fun d => 0 < zlen d) ps) /\
  (exists ps, ps <> [] /\ exists pages p, from_packets 4096 2048 ps 0 = Ok pages /\ In p pages /\
              255 < lacing_count p /\ page_write p = Raise EValue /\ Forall (fun d => zlen d = 0) ps) /\
  (exists ps ds wr, 255 <= ds /\ zlen ps = 1 /\ exists pages p, from_packets ds wr ps 0 = Ok pages /\ In p pages /\
              255 < lacing_count p /\ page_write p = Raise EValue).
Proof.
  split; [|split].
  - exists w_small_then_large. split; [discriminate|].
    destruct (unrenderable_sound _ _ _ w_small_then_large_unrenderable) as (pages & p & A & B & C & D).
    exists pages, p. repeat split; try assumption.
    unfold w_small_then_large. apply Forall_app. split.
    + apply Forall_forall. intros d Hd. apply repeat_spec in Hd. subst d. reflexivity.
    + constructor; [|constructor]. unfold zlen. rewrite repeat_length. reflexivity.
  - exists w_empty_packets. split; [discriminate|].
    destruct (unrenderable_sound _ _ _ w_empty_packets_unrenderable) as (pages & p & A & B & C & D).
    exists pages, p. repeat split; try assumption.
    apply Forall_forall. intros d Hd. apply repeat_spec in Hd. subst d. reflexivity.
  - exists w_huge, 65025, 2048. split; [lia|]. split; [reflexivity|].
    destruct (unrenderable_sound _ _ _ w_huge_unrenderable) as (pages & p & A & B & C & D).
    exists pages, p. repeat split; assumption.
Qed.

(* default_size < 255: chunk_size = 0, the `while packet:` loop makes no progress on a packet that is
   not shorter than wiggle_room -- for every amount of fuel *)
Lemma chunks_diverges ds wr pk : chunk_size ds = 0 -> pk <> [] -> wr <= zlen pk ->
  forall fuel pr cur, chunks ds wr fuel pk pr cur = Raise EOutOfFuel.
Proof.
  intros Hcs Hpk Hwr. induction fuel as [|fuel IH]; intros pr cur.
  - destruct pk; [contradiction|reflexivity].
  - destruct pk as [|x pk']; [contradiction|]. cbn [chunks]. unfold chunk_step. rewrite Hcs.
    rewrite ztake_0, zdrop_0.
    destruct (place_chunk ds [] pr cur) as [pr1 cur1].
    destruct (zlen (x :: pk') <? wr) eqn:W; [lia|]. apply IH.
Qed.

Theorem termination_refuted : exists ps ds wr, 0 <= ds < 255 /\ ps <> [] /\
  (forall seq, from_packets ds wr ps seq = Raise EOutOfFuel) /\
  (forall fuel pr cur, chunks ds wr fuel (hd [] ps) pr cur = Raise EOutOfFuel).
Proof.
  exists [[1]], 254, 0. split; [lia|]. split; [discriminate|]. split.
  - intros seq. unfold from_packets. cbn [fp_loop].
    rewrite (chunks_diverges 254 0 [1]); [reflexivity|reflexivity|discriminate|cbn; lia].
  - intros fuel pr cur. apply chunks_diverges; [reflexivity|discriminate|cbn; lia].
Qed.

(* the boundary is sharp for these shapes: 215 one-byte packets + the large one, and 255 empty packets, are fine *)
Example inside_precondition :
  segments_bounded (repeat [120] 215 ++ [repeat 121 (Z.to_nat 8000)]) 4096 2048 = true /\
  unrenderable 4096 2048 (repeat [120] 215 ++ [repeat 121 (Z.to_nat 8000)]) = false /\
  unrenderable 4096 2048 (repeat [120] 239 ++ [repeat 121 (Z.to_nat 8000)]) = false /\
  unrenderable 4096 2048 (repeat [] 255) = false.
Proof. vm_compute. repeat split; reflexivity. Qed.
