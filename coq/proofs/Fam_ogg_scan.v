(* Ogg family: the strict walker accepts exactly the files that are renderings of well-formed pages, and on such a file
   mutagen's page reading (ogg_f_scan) returns those pages with their offsets *)
From Coq Require Import ZArith List Bool Lia.
Import ListNotations.
Require Import Base.Py Base.ZList Model.Crc Model.Ogg Model.Fam_flac Model.Fam_ogg.
Require Import Proofs.C15_lacing Proofs.C15_page Proofs.C15_unpage Proofs.C15_paging Proofs.C15_from_packets Proofs.C15_file.
Open Scope Z_scope.

Lemma ogg_sw_split p : forall l, starts_with p l = true -> exists t, l = p ++ t.
Proof.
  induction p as [|x p IH]; intros l H; [exists l; reflexivity|].
  destruct l as [|y l]; [discriminate|]. cbn [starts_with] in H. apply andb_true_iff in H as [H1 H2].
  apply Z.eqb_eq in H1. subst y. destruct (IH l H2) as (t & ->). exists t. reflexivity.
Qed.
Lemma ogg_sw_app p t : starts_with p (p ++ t) = true.
Proof. induction p as [|x p IH]; [reflexivity|]. cbn [app starts_with]. rewrite Z.eqb_refl. exact IH. Qed.

Lemma ogg_canonical_eq p : ogg_f_canonical p = canonicalb p.
Proof. reflexivity. Qed.

(* what a successful page_write says about the page *)
Lemma page_write_inv p w : page_write p = Ok w -> header_ok p = true /\ lacing_count p <= 255 /\ w = page_bytes p.
Proof.
  unfold page_write. destruct (header_ok p) eqn:H; cbn [negb]; [|discriminate].
  fold (lacing_count p). destruct (255 <? lacing_count p) eqn:L; [discriminate|]. intros E. inversion E.
  split; [reflexivity|]. split; [lia|reflexivity].
Qed.

(* OggPage.__init__ accepts version 0 only *)
Lemma page_parse_version bs p rest : page_parse bs = Ok (p, rest) -> p_version p = 0.
Proof.
  unfold page_parse. cbv zeta.
  destruct (zlen (ztake 27 bs) =? 0); [discriminate|].
  destruct (zlen (ztake 27 bs) <? 27); [discriminate|].
  destruct (negb (list_eqb (ztake 4 (ztake 27 bs)) oggs)); [discriminate|].
  destruct (negb (znth 4 (ztake 27 bs) =? 0)) eqn:V; [discriminate|].
  destruct (negb (zlen (ztake (znth 26 (ztake 27 bs)) (zdrop 27 bs)) =? znth 26 (ztake 27 bs))); [discriminate|].
  destruct (lacing_scan (ztake (znth 26 (ztake 27 bs)) (zdrop 27 bs)) 0 []) as [racc total].
  destruct (read_packets _ _) as [[pk rest']|]; [|discriminate].
  intros E. inversion E; subst. cbn [p_version]. apply negb_false_iff, Z.eqb_eq in V. exact V.
Qed.

Lemma page_strict_inv bs p rest : ogg_f_page_strict bs = Ok (p, rest) -> page_wf p /\ bs = page_bytes p ++ rest.
Proof.
  unfold ogg_f_page_strict. destruct (page_parse bs) as [[q r]|e] eqn:P; [|discriminate].
  destruct (page_write q) as [w|e] eqn:Wr; [|discriminate].
  destruct (ogg_f_canonical q && starts_with w bs) eqn:C; [|discriminate].
  intros E. inversion E; subst q r. clear E.
  apply andb_true_iff in C as [C1 C2]. destruct (page_write_inv p w Wr) as (H1 & H2 & ->).
  assert (W : page_wf p).
  { repeat split; try assumption. exact (page_parse_version bs p rest P). }
  split; [exact W|]. destruct (ogg_sw_split _ _ C2) as (t & ->).
  rewrite (page_parse_write p t W) in P. inversion P. reflexivity.
Qed.

Lemma page_strict_rendered p rest : page_wf p -> ogg_f_page_strict (page_bytes p ++ rest) = Ok (p, rest).
Proof.
  intros W. unfold ogg_f_page_strict. rewrite (page_parse_write p rest W).
  destruct W as (H1 & H2 & H3 & H4). rewrite (page_write_ok p H1 H3), ogg_canonical_eq, H4, ogg_sw_app. reflexivity.
Qed.

Lemma page_bytes_nonempty p : page_bytes p <> [].
Proof.
  intros E. pose proof (page_bytes_len p) as L. rewrite E, zlen_nil, page_size_spec in L.
  pose proof (data_len_nonneg (p_packets p)). unfold lacing_count in L. pose proof (zlen_nonneg (lacing_data p)). lia.
Qed.
Lemma render_all_length pages : (length pages <= length (render_all pages))%nat.
Proof.
  induction pages as [|p r IH]; [cbn; lia|]. rewrite render_all_cons, app_length. cbn [length].
  pose proof (page_bytes_nonempty p). destruct (page_bytes p); [contradiction|]. cbn [length]. lia.
Qed.

Lemma pages_inv fuel : forall bs l, ogg_f_pages fuel bs = Ok l -> bs = render_all l /\ Forall page_wf l.
Proof.
  induction fuel as [|k IH]; intros bs l H; [discriminate|].
  cbn [ogg_f_pages] in H. destruct bs as [|b bs']; [inversion H; split; [reflexivity|constructor]|].
  destruct (ogg_f_page_strict (b :: bs')) as [[p rest]|e] eqn:S; [|discriminate].
  destruct (ogg_f_pages k rest) as [l'|e] eqn:R; [|discriminate]. inversion H; subst l. clear H.
  destruct (page_strict_inv _ _ _ S) as (W & E). destruct (IH rest l' R) as (E' & F).
  split; [rewrite render_all_cons, <- E'; exact E|constructor; assumption].
Qed.

Lemma pages_rendered l : forall fuel, Forall page_wf l -> (length l < fuel)%nat -> ogg_f_pages fuel (render_all l) = Ok l.
Proof.
  induction l as [|p r IH]; intros fuel W Hf.
  - destruct fuel; [lia|]. reflexivity.
  - destruct fuel as [|k]; [lia|]. inversion W as [|? ? Wp Wr]; subst. cbn [ogg_f_pages]. rewrite render_all_cons.
    destruct (page_bytes p ++ render_all r) as [|b t] eqn:E.
    { apply app_eq_nil in E as [E _]. exfalso. exact (page_bytes_nonempty p E). }
    rewrite <- E, (page_strict_rendered p (render_all r) Wp), (IH k Wr) by (cbn [length] in Hf; lia). reflexivity.
Qed.

(* the strict walker accepts f with the page list l exactly when f is the rendering of the well-formed pages l *)
Theorem parse_iff f l : ogg_parse f = Ok l <-> f = render_all l /\ Forall page_wf l.
Proof.
  split.
  - apply pages_inv.
  - intros (-> & W). apply pages_rendered; [exact W|]. pose proof (render_all_length l). lia.
Qed.

(* ---- mutagen's reading of such a file --------------------------------------------------------------- *)
(* the pages with the offsets they are read from *)
Fixpoint ogg_offs (pos : Z) (pages : list page) : list (Z * page) :=
  match pages with [] => [] | p :: r => (pos, p) :: ogg_offs (pos + page_size p) r end.

Lemma ogg_offs_app pos a b : ogg_offs pos (a ++ b) = ogg_offs pos a ++ ogg_offs (pos + zlen (render_all a)) b.
Proof.
  revert pos; induction a as [|p a IH]; intros pos.
  - cbn [app ogg_offs render_all map concat]. rewrite zlen_nil, Z.add_0_r. reflexivity.
  - cbn [app ogg_offs]. rewrite IH, render_all_cons, zlen_app, page_bytes_len. do 3 f_equal. lia.
Qed.
Lemma map_snd_offs pos l : map snd (ogg_offs pos l) = l.
Proof. revert pos; induction l as [|p l IH]; intros pos; [reflexivity|]. cbn [ogg_offs map snd]. rewrite IH. reflexivity. Qed.

Lemma scan_rendered l : forall fuel pos, Forall page_wf l -> (length l < fuel)%nat ->
  ogg_f_scan fuel (render_all l) pos = (ogg_offs pos l, EEOF).
Proof.
  induction l as [|p r IH]; intros fuel pos W Hf.
  - destruct fuel; [lia|]. reflexivity.
  - destruct fuel as [|k]; [lia|]. inversion W as [|? ? Wp Wr]; subst. cbn [ogg_f_scan]. rewrite render_all_cons.
    rewrite (page_parse_write p (render_all r) Wp).
    replace (pos + (zlen (page_bytes p ++ render_all r) - zlen (render_all r))) with (pos + page_size p)
      by (rewrite zlen_app, page_bytes_len; lia).
    rewrite (IH k (pos + page_size p) Wr) by (cbn [length] in Hf; lia). reflexivity.
Qed.

Lemma scan_file l : Forall page_wf l ->
  ogg_f_scan (S (length (render_all l))) (render_all l) 0 = (ogg_offs 0 l, EEOF).
Proof. intros W. apply scan_rendered; [exact W|]. pose proof (render_all_length l). lia. Qed.
