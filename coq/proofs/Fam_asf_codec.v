(* ASF family: little-endian integer codecs (2/4/8 bytes), slicing of concatenations, and the inversion of the
   generic object-list rendering: walk_objs (render_raws l) = Ok l, classify, asf_parse (render_header t ++ data). *)
From Coq Require Import ZArith List Bool Lia.
Import ListNotations.
Require Import Base.Py Base.ZList Model.Fam_asf.
Open Scope Z_scope.

(* ------------------------------------------------------------------ integer codecs *)
Lemma zlen_le n v : zlen (le_encode n v) = Z.of_nat n.
Proof. revert v; induction n; intros v; cbn [le_encode]; [reflexivity|]. rewrite zlen_cons, IHn. lia. Qed.

Lemma zlen_le2 v : zlen (le_encode 2 v) = 2. Proof. apply zlen_le. Qed.
Lemma zlen_le4 v : zlen (le_encode 4 v) = 4. Proof. apply zlen_le. Qed.
Lemma zlen_le8 v : zlen (le_encode 8 v) = 8. Proof. apply zlen_le. Qed.
Lemma zlen_12 : zlen [1; 2] = 2. Proof. reflexivity. Qed.
Lemma zlen_00 : zlen [0; 0] = 2. Proof. reflexivity. Qed.
Ltac zl := rewrite ?zlen_app, ?zlen_le2, ?zlen_le4, ?zlen_le8, ?zlen_12, ?zlen_00.

Lemma le_round n v : 0 <= v < 256 ^ Z.of_nat n -> le_decode (le_encode n v) = v.
Proof.
  revert v; induction n; intros v Hv.
  - cbn in *. lia.
  - cbn [le_encode le_decode]. rewrite IHn.
    + pose proof (Z.div_mod v 256). lia.
    + rewrite Nat2Z.inj_succ, Z.pow_succ_r in Hv by lia.
      split; [apply Z.div_pos; lia|]. apply Z.div_lt_upper_bound; lia.
Qed.
Lemma le2_round v : 0 <= v < U16 -> le_decode (le_encode 2 v) = v.
Proof. intros. apply le_round. unfold U16 in *. cbn. lia. Qed.
Lemma le4_round v : 0 <= v < U32 -> le_decode (le_encode 4 v) = v.
Proof. intros. apply le_round. unfold U32 in *. cbn. lia. Qed.
Lemma le8_round v : 0 <= v < U64 -> le_decode (le_encode 8 v) = v.
Proof. intros. apply le_round. unfold U64 in *. cbn. lia. Qed.

(* ------------------------------------------------------------------ slices of concatenations *)
Lemma zslice_app_mid {A} (a b c : list A) : zslice (zlen a) (zlen a + zlen b) (a ++ b ++ c) = b.
Proof.
  unfold zslice. rewrite zdrop_app_exact. replace (zlen a + zlen b - zlen a) with (zlen b) by lia.
  apply ztake_app_exact.
Qed.
Lemma zslice_mid {A} (a b c : list A) x y : x = zlen a -> y = zlen a + zlen b -> zslice x y (a ++ b ++ c) = b.
Proof. intros -> ->. apply zslice_app_mid. Qed.
Lemma ztake_exact {A} (a b : list A) n : n = zlen a -> ztake n (a ++ b) = a.
Proof. intros ->. apply ztake_app_exact. Qed.
Lemma zdrop_exact {A} (a b : list A) n : n = zlen a -> zdrop n (a ++ b) = b.
Proof. intros ->. apply zdrop_app_exact. Qed.

Lemma list_eqb_refl l : list_eqb l l = true.
Proof. apply list_eqb_spec. reflexivity. Qed.
Lemma starts_with_app p l : starts_with p (p ++ l) = true.
Proof. induction p; cbn [starts_with app]; [reflexivity|]. rewrite Z.eqb_refl, IHp. reflexivity. Qed.

(* ------------------------------------------------------------------ object lists *)
Definition raw_shaped (o : rawobj) : Prop := zlen (fst o) = 16.
Lemma zlen_render_raw o : raw_shaped o -> zlen (render_raw o) = 24 + zlen (snd o).
Proof. unfold raw_shaped, render_raw. intros H. rewrite !zlen_app, zlen_le, H. lia. Qed.

Lemma render_raws_cons o l : render_raws (o :: l) = render_raw o ++ render_raws l.
Proof. reflexivity. Qed.
Lemma render_raws_app a b : render_raws (a ++ b) = render_raws a ++ render_raws b.
Proof. unfold render_raws. apply flat_map_app. Qed.

Lemma walk_objs_step k d : 0 < zlen d ->
  walk_objs (S k) d =
    if zlen d <? 24 then Raise EMutagen else
    let n := le_decode (zslice 16 24 d) in
    if (n <? 24) || (zlen d <? n) then Raise EMutagen else
    match walk_objs k (zdrop n d) with
    | Ok r => Ok ((ztake 16 d, zslice 24 n d) :: r)
    | Raise e => Raise e end.
Proof. destruct d; [cbn; lia|reflexivity]. Qed.

Lemma walk_render : forall l fuel, Forall raw_shaped l -> forallb raw_packs l = true ->
  (length (render_raws l) < fuel)%nat -> walk_objs fuel (render_raws l) = Ok l.
Proof.
  induction l as [|o l IH]; intros fuel Hs Hp Hf.
  - destruct fuel; [cbn in Hf; lia|]. reflexivity.
  - inversion Hs as [|? ? Ho Hl]; subst. cbn [forallb] in Hp. apply andb_true_iff in Hp as [Hp1 Hp2].
    destruct fuel as [|k]; [lia|].
    rewrite render_raws_cons in *. pose proof (zlen_render_raw o Ho) as Hlen.
    pose proof (zlen_nonneg (snd o)). pose proof (zlen_nonneg (render_raws l)).
    assert (Hd : render_raw o ++ render_raws l = fst o ++ le_encode 8 (24 + zlen (snd o)) ++ (snd o ++ render_raws l)).
    { unfold render_raw. rewrite <- !app_assoc. reflexivity. }
    assert (Hz : zlen (render_raw o ++ render_raws l) = 24 + zlen (snd o) + zlen (render_raws l)) by (rewrite zlen_app; lia).
    rewrite walk_objs_step by lia. cbv zeta.
    unfold raw_packs in Hp1.
    assert (Hn : le_decode (zslice 16 24 (render_raw o ++ render_raws l)) = 24 + zlen (snd o)).
    { rewrite Hd. rewrite (zslice_mid (fst o) (le_encode 8 (24 + zlen (snd o)))) by (rewrite ?zlen_le; unfold raw_shaped in Ho; lia).
      apply le8_round. lia. }
    rewrite Hn. bset (zlen (render_raw o ++ render_raws l) <? 24) false.
    bset ((24 + zlen (snd o) <? 24) || (zlen (render_raw o ++ render_raws l) <? 24 + zlen (snd o))) false.
    rewrite (zdrop_exact (render_raw o)) by lia.
    rewrite IH; [|assumption|assumption|].
    2:{ rewrite app_length in Hf. unfold zlen in Hlen. lia. }
    f_equal. f_equal. destruct o as [g d]. cbn [fst snd] in *. f_equal.
    + rewrite Hd. apply ztake_exact. exact (eq_sym Ho).
    + unfold zslice. rewrite Hd.
      rewrite app_assoc. rewrite (zdrop_exact (g ++ le_encode 8 (24 + zlen d))) by (rewrite zlen_app, zlen_le; unfold raw_shaped in Ho; cbn in Ho; lia).
      apply ztake_exact. lia.
Qed.

(* ------------------------------------------------------------------ the two-level tree *)
Definition obj_shaped (o : obj) : Prop :=
  match o with
  | OLeaf g d => zlen g = 16 /\ is_hext g = false
  | OExt fx ch => zlen fx = 18 /\ Forall raw_shaped ch
  end.

Lemma obj_raw_shaped o : obj_shaped o -> raw_shaped (obj_raw o).
Proof. destruct o; cbn; intros H; [apply H|reflexivity]. Qed.

Lemma parse_ext_render fx ch : zlen fx = 18 -> Forall raw_shaped ch -> forallb raw_packs ch = true ->
  zlen (render_raws ch) < U32 -> parse_ext (ext_payload fx ch) = Ok (OExt fx ch).
Proof.
  intros Hfx Hs Hp Hlen. unfold parse_ext, ext_payload.
  pose proof (zlen_nonneg (render_raws ch)).
  zl.
  bset (zlen fx + (4 + zlen (render_raws ch)) <? 22) false.
  rewrite (zslice_mid fx (le_encode 4 (zlen (render_raws ch)))) by (zl; lia).
  rewrite le4_round by lia.
  bset (zlen (render_raws ch) =? zlen fx + (4 + zlen (render_raws ch)) - 22) true.
  cbn [negb].
  rewrite app_assoc. rewrite (zdrop_exact (fx ++ le_encode 4 (zlen (render_raws ch)))) by (zl; lia).
  rewrite walk_render; [|assumption|assumption|].
  2:{ rewrite !app_length. lia. }
  rewrite <- app_assoc. rewrite (ztake_exact fx) by lia. reflexivity.
Qed.

Lemma classify_render : forall l, Forall obj_shaped l -> forallb obj_packs l = true ->
  classify (map obj_raw l) = Ok l.
Proof.
  induction l as [|o l IH]; intros Hs Hp; [reflexivity|].
  inversion Hs as [|? ? Ho Hl]; subst. cbn [forallb] in Hp. apply andb_true_iff in Hp as [Hp1 Hp2].
  cbn [map classify]. rewrite (IH Hl Hp2).
  destruct o as [g d|fx ch]; cbn [obj_raw fst snd].
  - destruct Ho as [_ Hh]. rewrite Hh. reflexivity.
  - destruct Ho as [Hfx Hch]. cbn [obj_packs] in Hp1.
    apply andb_true_iff in Hp1 as [Hp1 _]. apply andb_true_iff in Hp1 as [Hq1 Hq2].
    unfold is_hext. rewrite list_eqb_refl. rewrite parse_ext_render; [reflexivity|assumption|assumption|assumption|lia].
Qed.

Lemma obj_packs_raw o : obj_packs o = true -> raw_packs (obj_raw o) = true.
Proof.
  destruct o; cbn [obj_packs obj_raw]; [trivial|]. intros H. apply andb_true_iff in H as [_ H]. exact H.
Qed.

Lemma zlen_G_HDR : zlen G_HDR = 16. Proof. reflexivity. Qed.

(* the header rendered from a tree, followed by any data section, parses back to exactly that tree and data *)
Theorem parse_render_header l data : Forall obj_shaped l -> forallb obj_packs l = true -> header_packs l = true ->
  asf_parse (render_header l ++ data) = Ok (mkS l data).
Proof.
  intros Hs Hp Hh. unfold header_packs in Hh. apply andb_true_iff in Hh as [Hh1 Hh2].
  pose proof (zlen_nonneg (render_objs l)) as Hb. pose proof (zlen_nonneg l) as Hc. pose proof (zlen_nonneg data) as Hdn.
  set (body := render_objs l) in *.
  assert (Hf : render_header l ++ data =
               G_HDR ++ le_encode 8 (30 + zlen body) ++ (le_encode 4 (zlen l) ++ [1; 2] ++ body ++ data)).
  { unfold render_header. fold body. rewrite <- !app_assoc. reflexivity. }
  assert (Hlen : zlen (render_header l ++ data) = 30 + zlen body + zlen data).
  { rewrite Hf. zl. rewrite zlen_G_HDR. lia. }
  unfold asf_parse. rewrite Hlen.
  bset (30 + zlen body + zlen data <? 30) false.
  assert (Hst : starts_with G_HDR (render_header l ++ data) = true) by (rewrite Hf; apply starts_with_app).
  rewrite Hst. cbn [negb orb].
  assert (Hsize : le_decode (zslice 16 24 (render_header l ++ data)) = 30 + zlen body).
  { rewrite Hf. rewrite (zslice_mid G_HDR (le_encode 8 (30 + zlen body))) by (zl; reflexivity).
    apply le8_round. lia. }
  assert (Hcnt : le_decode (zslice 24 28 (render_header l ++ data)) = zlen l).
  { rewrite Hf. rewrite app_assoc.
    rewrite (zslice_mid (G_HDR ++ le_encode 8 (30 + zlen body)) (le_encode 4 (zlen l))) by (zl; reflexivity).
    apply le4_round. lia. }
  assert (Hres : zslice 28 30 (render_header l ++ data) = [1; 2]).
  { rewrite Hf. rewrite !app_assoc. rewrite <- (app_assoc _ body data).
    apply (zslice_mid ((G_HDR ++ le_encode 8 (30 + zlen body)) ++ le_encode 4 (zlen l)) [1; 2]);
      zl; reflexivity. }
  rewrite Hsize, Hcnt, Hres. cbn [list_eqb Z.eqb Pos.eqb andb negb].
  bset ((30 + zlen body <? 30) || (30 + zlen body + zlen data <? 30 + zlen body)) false.
  assert (Hbody : zslice 30 (30 + zlen body) (render_header l ++ data) = body).
  { rewrite Hf. rewrite !app_assoc. rewrite <- (app_assoc _ body data).
    apply (zslice_mid (((G_HDR ++ le_encode 8 (30 + zlen body)) ++ le_encode 4 (zlen l)) ++ [1; 2]) body);
      zl; reflexivity. }
  rewrite Hbody. unfold body, render_objs.
  rewrite walk_render.
  - rewrite zlen_map. rewrite Z.eqb_refl. cbn [negb]. rewrite classify_render by assumption.
    f_equal. f_equal. rewrite Hf. rewrite !app_assoc.
    apply zdrop_exact. zl. rewrite zlen_G_HDR. fold (render_objs l). fold body. lia.
  - apply Forall_forall. intros r Hr. apply in_map_iff in Hr as (o & <- & Ho).
    apply obj_raw_shaped. rewrite Forall_forall in Hs. apply Hs, Ho.
  - apply forallb_forall. intros r Hr. apply in_map_iff in Hr as (o & <- & Ho).
    apply obj_packs_raw. rewrite forallb_forall in Hp. apply Hp, Ho.
  - fold (render_objs l). fold body. rewrite Hf. rewrite !app_length. lia.
Qed.

(* the fields of one rendered object in front of anything *)
Lemma raw_fields c rest : raw_shaped c -> raw_packs c = true ->
  le_decode (zslice 16 24 (render_raw c ++ rest)) = 24 + zlen (snd c) /\
  ztake 16 (render_raw c ++ rest) = fst c /\
  ztake (zlen (snd c)) (zdrop 24 (render_raw c ++ rest)) = snd c /\
  zdrop (zlen (snd c)) (zdrop 24 (render_raw c ++ rest)) = rest /\
  zlen (render_raw c ++ rest) = 24 + zlen (snd c) + zlen rest.
Proof.
  intros Hs Hp. unfold raw_shaped in Hs. unfold raw_packs in Hp. pose proof (zlen_nonneg (snd c)).
  assert (Hd : render_raw c ++ rest = fst c ++ le_encode 8 (24 + zlen (snd c)) ++ (snd c ++ rest)).
  { unfold render_raw. rewrite <- !app_assoc. reflexivity. }
  rewrite Hd. split; [|split; [|split; [|split]]].
  - rewrite (zslice_mid (fst c) (le_encode 8 (24 + zlen (snd c)))) by (zl; lia). apply le8_round. lia.
  - apply ztake_exact. lia.
  - rewrite app_assoc. rewrite (zdrop_exact (fst c ++ le_encode 8 (24 + zlen (snd c)))) by (zl; lia).
    apply ztake_app_exact.
  - rewrite app_assoc. rewrite (zdrop_exact (fst c ++ le_encode 8 (24 + zlen (snd c)))) by (zl; lia).
    apply zdrop_app_exact.
  - zl. lia.
Qed.

Lemma cls_of_inv g :
  match cls_of g with
  | KCD => g = G_CD | KECD => g = G_ECD | KMETA => g = G_META | KLIB => g = G_LIB | KPAD => g = G_PAD
  | KHEXT => g = G_HEXT | _ => True
  end.
Proof.
  unfold cls_of.
  repeat match goal with |- context [if list_eqb g ?c then _ else _] =>
    let E := fresh in destruct (list_eqb g c) eqn:E; [apply list_eqb_spec in E; try exact E; try exact I|] end.
  exact I.
Qed.
