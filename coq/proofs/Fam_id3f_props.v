(* Fam_id3f_props: the statements served to C01 C02 C03 C07 C08 C09 for the family id3f. *)
From Coq Require Import ZArith List Bool Lia.
Import ListNotations.
Require Import Base.Py Base.ZList Gen.Gen_tags Model.Splice Model.Id3Util Model.Fam_id3f
  Proofs.Splice_lemmas Proofs.C09_policy Proofs.C14_digits Proofs.Fam_id3f_base Proofs.Fam_id3f_save.
Open Scope Z_scope.

(* the payload between the two tags, as the strict reader sees it *)
Definition mid_of (f : list Z) : list Z := match id3f_parse f with Ok s => i_mid s | Raise _ => [] end.
Definition op_ok (mid : list Z) (x : op) : Prop :=
  match x with
  | OpSave fr o => frames_ok (o_v2 o) fr = true /\ v1_hyp mid o
  | OpDelete => True
  end.

(* ------------------------------------------------------------------ save on a well-formed file: everything at once *)
Lemma save_wf f s fr o f' :
  id3f_wf f = true -> id3f_parse f = Ok s -> frames_ok (o_v2 o) fr = true -> v1_hyp (i_mid s) o ->
  id3f_save f fr o = Ok f' ->
  let r := o_cb o (tag_size s - (zlen fr + 10)) (zlen f - tag_size s) in
  0 <= r /\
  id3f_parse f' = Ok (mkI (Some (mkT (o_v2 o) (10 + zlen fr + r) fr r)) (i_mid s) (v1_after (o_v1 o) (o_v1bytes o) (i_v1 s))) /\
  id3f_wf f' = true /\
  zlen f' = 10 + zlen fr + r + zlen (i_mid s) + zlen (optb (v1_after (o_v1 o) (o_v1bytes o) (i_v1 s))).
Proof.
  intros WF P FO Hh H r.
  destruct (save_shape _ _ _ _ WF H) as (s0 & P0 & V & R & W & bs & T & L & S7 & SS & Sh).
  assert (s0 = s) by congruence. subst s0. fold r in R, W, T, SS, Sh. specialize (Sh Hh).
  destruct (wf_inv _ WF) as (s1 & P1 & NI & SM & Fm & Fv).
  assert (s1 = s) by congruence. subst s1.
  pose proof (v1_after_fits _ _ _ Hh Fv) as Fv'.
  assert (PB := parse_built (o_v2 o) bs fr r (i_mid s) _ V L S7 SS R FO SM Fv').
  rewrite <- Sh in PB.
  split; [exact R|]. split; [exact PB|]. split.
  - eapply wf_intro; [exact PB| | | |]; cbn [i_mid i_v1]; assumption.
  - rewrite Sh. rewrite !zlen_app. rewrite render_tag_len by assumption. lia.
Qed.

(* ------------------------------------------------------------------ C02 *)
Theorem c02_save f s fr o f' :
  id3f_wf f = true -> id3f_parse f = Ok s -> frames_ok (o_v2 o) fr = true -> v1_hyp (i_mid s) o ->
  id3f_save f fr o = Ok f' ->
  exists s', id3f_parse f' = Ok s' /\ i_mid s' = i_mid s /\
             i_v1 s' = v1_after (o_v1 o) (o_v1bytes o) (i_v1 s).
Proof.
  intros WF P FO Hh H. destruct (save_wf _ _ _ _ _ WF P FO Hh H) as (_ & PB & _).
  eexists. split; [exact PB|]. split; reflexivity.
Qed.

Theorem c02_delete f s : id3f_wf f = true -> id3f_parse f = Ok s -> id3f_delete f = Ok (i_mid s).
Proof.
  intros WF P. destruct (delete_shape _ WF) as (s0 & P0 & D). assert (s0 = s) by congruence. subst s0. exact D.
Qed.

(* without any hypothesis on the file: the ID3v1 step touches at most the last 128 bytes (or appends) ... *)
Lemma find_id3v1_bounds st g n : find_id3v1 st g = Some n -> 124 <= n <= 128 /\ n <= zlen g.
Proof.
  unfold find_id3v1, find_v1_in. intros H.
  set (data := zdrop (zlen g - 131) g) in *.
  destruct ((32 <=? zlen data) && starts_with M_APE (zdrop (zlen data - 32) data)); [discriminate|].
  destruct (index_of M_TAG data) as [idx|] eqn:E; [|discriminate].
  apply index_of_bounds in E.
  destruct (match index_of M_APE data with Some ape_idx => idx =? ape_idx + 3 | None => false end); [discriminate|].
  destruct (zlen g - zlen data + idx <? st); [discriminate|].
  destruct ((128 <? zlen data - idx) || (zlen data - idx <? 124)) eqn:C; [discriminate|].
  inversion H; subst n. apply orb_false_iff in C as [C1 C2].
  assert (zlen data <= zlen g).
  { subst data. pose proof (zlen_nonneg g). destruct (Z_le_gt_dec (zlen g - 131) 0).
    - rewrite zdrop_neg by lia. lia.
    - rewrite zlen_zdrop by lia. lia. }
  lia.
Qed.
Lemma save_v1_frame g mode vb st : ztake (zlen g - 128) (save_v1 g mode vb st) = ztake (zlen g - 128) g.
Proof.
  unfold save_v1. pose proof (zlen_nonneg g).
  destruct (find_id3v1 st g) as [n|] eqn:E.
  - apply find_id3v1_bounds in E.
    assert (A : forall tl, ztake (zlen g - 128) (ztake (zlen g - n) g ++ tl) = ztake (zlen g - 128) g).
    { intros tl. rewrite ztake_app_l by (rewrite zlen_ztake by lia; lia). rewrite ztake_ztake. f_equal. lia. }
    destruct ((mode =? 1) || (mode =? 2)).
    + unfold patch. apply A.
    + rewrite <- (app_nil_r (ztake (zlen g - n) g)). apply A.
  - destruct (mode =? 2); [|reflexivity]. apply ztake_app_l. lia.
Qed.

Lemma le_val_nonneg l : 0 <= le_val 7 l.
Proof.
  induction l as [|x l IH]; cbn [le_val]; [lia|]. change (2 ^ 7) with 128.
  pose proof (Z.mod_pos_bound x 128 ltac:(lia)). lia.
Qed.
Lemma mut_header_size known f sz : mut_header known f = Ok (Some sz) -> 10 <= sz.
Proof.
  unfold mut_header. intros H.
  destruct (negb (zlen (ztake 10 f) =? 10)); [discriminate|]. cbv zeta in H.
  rewrite bpi_of_bytes_be in H by lia.
  pose proof (le_val_nonneg (rev (zslice 6 10 (ztake 10 f)))) as N.
  set (v := le_val 7 (rev (zslice 6 10 (ztake 10 f)))) in *.
  repeat match type of H with
  | (if ?c then _ else _) = _ => destruct c; try discriminate
  | match ?c with Ok _ => _ | Raise _ => _ end = _ => destruct c; try discriminate
  end; inversion H; lia.
Qed.

(* ... and the ID3v2 step is a splice at offset 0: every byte behind the old tag keeps content and order *)
Theorem c02_save_frame f fr o f' : id3f_save f fr o = Ok f' ->
  exists old new, 0 <= old /\ 0 <= new /\
    (mut_header (o_known o) f = Ok None /\ old = 0 \/ mut_header (o_known o) f = Ok (Some old)) /\
    (old <= zlen f ->
       ztake (zlen f - old - 128) (zdrop new f') = ztake (zlen f - old - 128) (zdrop old f)).
Proof.
  unfold id3f_save, id3f_save_v2. intros H.
  destruct (mut_header (o_known o) f) as [h|] eqn:Eh; [|discriminate].
  destruct (prepare_data (zlen f) (old_size_of h) fr o) as [data|] eqn:Ed; [|discriminate].
  destruct ((zlen f <? old_size_of h) && negb (old_size_of h =? zlen data)); [discriminate|].
  inversion H; subst f'; clear H.
  assert (Ho : 0 <= old_size_of h).
  { destruct h as [sz|]; cbn [old_size_of]; [|lia]. apply mut_header_size in Eh. lia. }
  exists (old_size_of h), (zlen data). pose proof (zlen_nonneg data). pose proof (zlen_nonneg f).
  split; [exact Ho|]. split; [lia|]. split.
  - destruct h; cbn [old_size_of]; auto.
  - intros Hle. set (old := old_size_of h) in *. set (g := splice f 0 old data).
    assert (Lg : zlen g = zlen f + zlen data - old) by (subst g; apply splice_len; lia).
    assert (Sg : zdrop (zlen data) g = zdrop old f).
    { subst g. pose proof (splice_suffix f 0 old data ltac:(lia) Ho ltac:(lia)) as S. rewrite !Z.add_0_l in S. exact S. }
    destruct (Z_lt_ge_dec (zlen f - old - 128) 0) as [Hn|Hn]; [rewrite !ztake_neg by lia; reflexivity|].
    rewrite <- Sg.
    rewrite <- !zdrop_ztake_comm by lia.
    replace (zlen data + (zlen f - old - 128)) with (zlen g - 128) by lia.
    rewrite save_v1_frame. reflexivity.
Qed.

(* ------------------------------------------------------------------ C03 *)
Theorem c03_save f fr o f' :
  id3f_wf f = true -> frames_ok (o_v2 o) fr = true -> v1_hyp (mid_of f) o ->
  id3f_save f fr o = Ok f' -> id3f_wf f' = true /\ mid_of f' = mid_of f.
Proof.
  intros WF FO Hh H. destruct (wf_inv _ WF) as (s & P & _).
  unfold mid_of in *. rewrite P in *.
  destruct (save_wf _ _ _ _ _ WF P FO Hh H) as (_ & PB & W & _).
  split; [exact W|]. rewrite PB. reflexivity.
Qed.

Lemma wf_payload mid : starts_with M_ID3 mid = false -> strict_v1 mid = false ->
  find_id3v1 0 mid = None -> id3f_wf mid = true /\ mid_of mid = mid.
Proof.
  intros B C D. pose proof (parse_payload _ B C) as P. split.
  - eapply wf_intro; [exact P| | | |]; cbn [i_mid i_v1]; try assumption. intros v E; discriminate.
  - unfold mid_of. rewrite P. reflexivity.
Qed.

Theorem c03_delete f f' : id3f_wf f = true -> id3f_delete f = Ok f' ->
  id3f_wf f' = true /\ mid_of f' = mid_of f /\ f' = mid_of f.
Proof.
  intros WF H. destruct (wf_inv _ WF) as (s & P & NI & SM & Fm & _).
  rewrite (c02_delete _ _ WF P) in H. inversion H; subst f'. clear H.
  unfold mid_of at 2 3. rewrite P.
  destruct (wf_payload _ NI SM Fm) as [A B]. auto.
Qed.

Lemma fold_step_raise ops e : fold_left step ops (Raise e) = Raise e.
Proof. induction ops as [|x ops IH]; [reflexivity|]. cbn [fold_left step]. exact IH. Qed.

(* lifted to every finite operation sequence *)
Theorem c03_history : forall ops f f',
  id3f_wf f = true -> Forall (op_ok (mid_of f)) ops -> run_ops ops f = Ok f' ->
  id3f_wf f' = true /\ mid_of f' = mid_of f.
Proof.
  unfold run_ops. induction ops as [|x ops IH]; intros f f' WF HO H.
  - cbn [fold_left] in H. inversion H; subst f'. auto.
  - cbn [fold_left] in H. inversion HO as [|? ? Hx HO']; subst.
    destruct (step (Ok f) x) as [f1|e] eqn:E; [|rewrite fold_step_raise in H; discriminate].
    assert (W1 : id3f_wf f1 = true /\ mid_of f1 = mid_of f).
    { destruct x as [fr o|]; cbn [step] in E.
      - destruct Hx as [FO Hh]. apply (c03_save _ _ _ _ WF FO Hh E).
      - destruct (c03_delete _ _ WF E) as (A & B & _). auto. }
    destruct W1 as [W1 M1]. rewrite <- M1 in HO'.
    destruct (IH f1 f' W1 HO' H) as [A B]. split; [exact A|congruence].
Qed.

(* ------------------------------------------------------------------ C01 *)
Theorem c01_roundtrip f fr o f' :
  id3f_wf f = true -> frames_ok (o_v2 o) fr = true -> v1_hyp (mid_of f) o ->
  id3f_save f fr o = Ok f' -> id3f_load f' = Ok (Some fr).
Proof.
  intros WF FO Hh H. destruct (wf_inv _ WF) as (s & P & _).
  unfold mid_of in Hh. rewrite P in Hh.
  destruct (save_wf _ _ _ _ _ WF P FO Hh H) as (_ & PB & _).
  unfold id3f_load. rewrite PB. reflexivity.
Qed.

(* ------------------------------------------------------------------ C08 *)
Theorem c08_delete f s : id3f_wf f = true -> id3f_parse f = Ok s ->
  id3f_delete f = Ok (i_mid s) /\
  id3f_parse (i_mid s) = Ok (mkI None (i_mid s) None) /\
  id3f_load (i_mid s) = Ok None /\
  starts_with M_ID3 (i_mid s) = false /\ find_id3v1 0 (i_mid s) = None /\
  id3f_delete (i_mid s) = Ok (i_mid s) /\
  zlen f = tag_size s + zlen (i_mid s) + v1_size s /\
  id3f_wf (i_mid s) = true.
Proof.
  intros WF P. destruct (wf_inv _ WF) as (s0 & P0 & NI & SM & Fm & Fv).
  assert (s0 = s) by congruence. subst s0.
  pose proof (parse_payload _ NI SM) as PP.
  destruct (wf_payload _ NI SM Fm) as [WM _].
  split; [apply c02_delete; assumption|]. split; [exact PP|]. split; [unfold id3f_load; rewrite PP; reflexivity|].
  split; [exact NI|]. split; [exact Fm|]. split.
  - pose proof (c02_delete _ _ WM PP) as D. exact D.
  - split; [|exact WM].
    destruct (parse_dec _ _ P) as (_ & B & _ & Ff & V1).
    rewrite Ff at 1. rewrite !zlen_app. rewrite zlen_ztake by lia.
    unfold v1_size. destruct (i_v1 s) as [v|]; cbn [optb].
    + destruct V1 as [Lv _]. lia.
    + change (zlen (@nil Z)) with 0. lia.
Qed.

(* new tags can be added and saved after a delete, and read back *)
Theorem c08_retag f d fr o :
  id3f_wf f = true -> id3f_delete f = Ok d ->
  frames_ok (o_v2 o) fr = true -> (o_v2 o = 3 \/ o_v2 o = 4) -> v1_hyp d o ->
  0 <= o_cb o (0 - (zlen fr + 10)) (zlen d) -> zlen fr + o_cb o (0 - (zlen fr + 10)) (zlen d) < 2 ^ 28 ->
  exists f', id3f_save d fr o = Ok f' /\ id3f_load f' = Ok (Some fr) /\ mid_of f' = d /\ id3f_wf f' = true.
Proof.
  intros WF D FO V Hh R W. destruct (c03_delete _ _ WF D) as (WD & _ & Ed).
  destruct (wf_inv _ WD) as (sd & Pd & _).
  destruct (wf_inv _ WF) as (s & P & NI & SM & Fm & _).
  assert (Esd : sd = mkI None d None).
  { unfold mid_of in Ed. rewrite P in Ed. subst d. pose proof (parse_payload _ NI SM). congruence. }
  subst sd.
  assert (Md : mid_of d = d) by (unfold mid_of; rewrite Pd; reflexivity).
  destruct (save_v2_ok d _ fr o Pd V) as (g & n & Eg); cbn [tag_size i_tag]; try (rewrite Z.sub_0_r; assumption).
  exists (save_v1 g (o_v1 o) (o_v1bytes o) n).
  assert (Es : id3f_save d fr o = Ok (save_v1 g (o_v1 o) (o_v1bytes o) n)) by (unfold id3f_save; rewrite Eg; reflexivity).
  split; [exact Es|]. rewrite <- Md in Hh.
  split; [apply (c01_roundtrip _ _ _ _ WD FO Hh Es)|].
  destruct (c03_save _ _ _ _ WD FO Hh Es) as [A B]. split; [congruence|exact A].
Qed.

(* ------------------------------------------------------------------ C09 *)
(* the callback receives (old tag size - needed, file size); what it returns is the padding found in the file *)
Theorem c09_callback f s fr o f' :
  id3f_wf f = true -> id3f_parse f = Ok s -> frames_ok (o_v2 o) fr = true -> v1_hyp (i_mid s) o ->
  id3f_save f fr o = Ok f' ->
  let r := o_cb o (tag_size s - (zlen fr + 10)) (zlen f - tag_size s) in
  0 <= r /\ exists s', id3f_parse f' = Ok s' /\ id3f_padding s' = r /\ tag_size s' = 10 + zlen fr + r.
Proof.
  intros WF P FO Hh H r. destruct (save_wf _ _ _ _ _ WF P FO Hh H) as (R & PB & _). fold r in R, PB.
  split; [exact R|]. eexists. split; [exact PB|]. split; reflexivity.
Qed.

Theorem c09_negative_rejected f s fr o :
  id3f_parse f = Ok s -> (o_v2 o = 3 \/ o_v2 o = 4) ->
  o_cb o (tag_size s - (zlen fr + 10)) (zlen f - tag_size s) < 0 -> id3f_save f fr o = Raise EMutagen.
Proof.
  intros P V R. destruct (parse_dec _ _ P) as (PT & B & _).
  unfold id3f_save, id3f_save_v2. rewrite (header_of_parse _ _ _ PT).
  assert (O : old_size_of (option_map t_size (i_tag s)) = tag_size s).
  { unfold tag_size. destruct (i_tag s); reflexivity. }
  rewrite O. unfold prepare_data. cbv zeta.
  assert (V' : (o_v2 o =? 3) || (o_v2 o =? 4) = true) by (destruct V as [V|V]; rewrite V; reflexivity).
  rewrite V'. cbn [negb].
  replace (Z.max 0 (zlen f - 0 - tag_size s)) with (zlen f - tag_size s) by lia.
  assert (R' : (o_cb o (tag_size s - (zlen fr + 10)) (zlen f - tag_size s) <? 0) = true) by lia. rewrite R'. reflexivity.
Qed.

(* returning info.padding (>= 0): the ID3v2 step keeps the file size and the offset of every byte behind the tag *)
Theorem c09_keep f s fr o g n :
  id3f_parse f = Ok s -> id3f_save_v2 f fr o = Ok (g, n) ->
  o_cb o (tag_size s - (zlen fr + 10)) (zlen f - tag_size s) = tag_size s - (zlen fr + 10) ->
  0 <= tag_size s - (zlen fr + 10) /\ zlen g = zlen f /\ n = tag_size s /\
  zdrop (tag_size s) g = zdrop (tag_size s) f /\
  (forall i, tag_size s <= i < zlen f -> znth i g = znth i f).
Proof.
  intros P H K. destruct (save_v2_shape _ _ _ _ _ _ P H) as (V & R & W & bs & T & L & S7 & SS & En & G & _).
  rewrite K in *. destruct (parse_dec _ _ P) as (_ & B & _).
  set (data := render_tag (o_v2 o) bs fr (tag_size s - (zlen fr + 10))) in *.
  assert (Ld : zlen data = tag_size s) by (subst data; rewrite render_tag_len by assumption; lia).
  rewrite <- Ld in G at 1.
  destruct (splice_same_size f 0 data ltac:(lia) ltac:(lia)) as (A1 & _ & A3).
  rewrite <- G in A1, A3. rewrite Z.add_0_l, Ld in A3.
  split; [exact R|]. split; [exact A1|]. split; [lia|]. split; [exact A3|].
  intros i Hi. replace i with (tag_size s + (i - tag_size s)) by lia.
  rewrite <- !znth_zdrop by lia. rewrite A3. reflexivity.
Qed.

(* with the whole save: the size changes only by the ID3v1 tag added or removed as selected by v1 *)
Theorem c09_keep_size f s fr o f' :
  id3f_wf f = true -> id3f_parse f = Ok s -> frames_ok (o_v2 o) fr = true -> v1_hyp (i_mid s) o ->
  id3f_save f fr o = Ok f' ->
  o_cb o (tag_size s - (zlen fr + 10)) (zlen f - tag_size s) = tag_size s - (zlen fr + 10) ->
  zlen f' - zlen (optb (v1_after (o_v1 o) (o_v1bytes o) (i_v1 s))) = zlen f - zlen (optb (i_v1 s)).
Proof.
  intros WF P FO Hh H K. destruct (save_wf _ _ _ _ _ WF P FO Hh H) as (R & _ & _ & Lf). rewrite K in Lf.
  destruct (parse_dec _ _ P) as (_ & B & _ & Ff & _).
  assert (Lff : zlen f = tag_size s + zlen (i_mid s) + zlen (optb (i_v1 s))).
  { rewrite Ff at 1. rewrite !zlen_app, zlen_ztake by lia. lia. }
  lia.
Qed.

(* ------------------------------------------------------------------ C07 *)
(* a second save is the identity whenever the callback, offered the padding now in the file (and the size of what lies
   behind the tag now), returns it *)
Theorem c07_second_save f fr o f' s' :
  id3f_wf f = true -> frames_ok (o_v2 o) fr = true -> v1_hyp (mid_of f) o ->
  id3f_save f fr o = Ok f' -> id3f_parse f' = Ok s' ->
  o_cb o (id3f_padding s') (zlen f' - tag_size s') = id3f_padding s' ->
  id3f_save f' fr o = Ok f'.
Proof.
  intros WF FO Hh H P' K. destruct (wf_inv _ WF) as (s & P & NI & SM & Fm & Fv).
  unfold mid_of in Hh. rewrite P in Hh.
  destruct (save_shape _ _ _ _ WF H) as (s0 & P0 & V & R & W & bs & T & L & S7 & SS & Sh).
  assert (s0 = s) by congruence. subst s0. specialize (Sh Hh).
  destruct (save_wf _ _ _ _ _ WF P FO Hh H) as (_ & PB & WF' & _).
  set (r := o_cb o (tag_size s - (zlen fr + 10)) (zlen f - tag_size s)) in *.
  assert (s' = mkI (Some (mkT (o_v2 o) (10 + zlen fr + r) fr r)) (i_mid s) (v1_after (o_v1 o) (o_v1bytes o) (i_v1 s))) by congruence.
  subst s'. cbn [id3f_padding tag_size i_tag t_pad t_size] in K.
  (* the second save *)
  destruct (save_v2_ok f' _ fr o PB) as (g2 & n2 & E2); cbn [tag_size i_tag t_size].
  { exact V. }
  { replace (10 + zlen fr + r - (zlen fr + 10)) with r by lia. rewrite K. exact R. }
  { replace (10 + zlen fr + r - (zlen fr + 10)) with r by lia. rewrite K. exact W. }
  assert (Es : id3f_save f' fr o = Ok (save_v1 g2 (o_v1 o) (o_v1bytes o) n2)) by (unfold id3f_save; rewrite E2; reflexivity).
  destruct (save_shape _ _ _ _ WF' Es) as (s2 & P2 & _ & _ & _ & bs2 & T2 & _ & _ & _ & Sh2).
  assert (s2 = mkI (Some (mkT (o_v2 o) (10 + zlen fr + r) fr r)) (i_mid s) (v1_after (o_v1 o) (o_v1bytes o) (i_v1 s))) by congruence.
  subst s2. cbn [tag_size i_tag t_size i_mid i_v1] in *.
  replace (10 + zlen fr + r - (zlen fr + 10)) with r in * by lia. rewrite K in *.
  specialize (Sh2 Hh). assert (bs2 = bs) by congruence. subst bs2.
  rewrite Es. f_equal. rewrite Sh2, Sh. rewrite v1_after_idem. reflexivity.
Qed.

(* the default policy keeps its own answer when the size of the data behind the tag does not shrink *)
Ltac Zify.zify_post_hook ::= Z.to_euclidean_division_equations.
Lemma default_stable_grow p s s' : 0 <= s <= s' ->
  get_default_padding (get_default_padding p s) s' = get_default_padding p s.
Proof.
  intros Hs. unfold get_default_padding; cbv zeta.
  repeat match goal with |- context [if ?c then _ else _] => destruct c eqn:? end; lia.
Qed.
Ltac Zify.zify_post_hook ::= idtac.

(* default policy: saving a second time leaves the file byte-identical, provided the first save did not remove an
   ID3v1 tag (which would shrink the size the policy is fed) *)
Theorem c07_default_idempotent f s fr o f' :
  id3f_wf f = true -> id3f_parse f = Ok s -> frames_ok (o_v2 o) fr = true -> v1_hyp (i_mid s) o ->
  o_cb o = get_default_padding ->
  zlen (optb (i_v1 s)) <= zlen (optb (v1_after (o_v1 o) (o_v1bytes o) (i_v1 s))) ->
  id3f_save f fr o = Ok f' -> id3f_save f' fr o = Ok f'.
Proof.
  intros WF P FO Hh Cb Hv H.
  destruct (save_wf _ _ _ _ _ WF P FO Hh H) as (R & PB & _ & Lf).
  assert (Hh' : v1_hyp (mid_of f) o) by (unfold mid_of; rewrite P; exact Hh).
  apply (c07_second_save f fr o f' _ WF FO Hh' H PB).
  cbn [id3f_padding tag_size i_tag t_pad t_size].
  destruct (parse_dec _ _ P) as (_ & B & _ & Ff & _).
  assert (Lff : zlen f = tag_size s + zlen (i_mid s) + zlen (optb (i_v1 s))).
  { rewrite Ff at 1. rewrite !zlen_app, zlen_ztake by lia. lia. }
  rewrite Cb in *. apply default_stable_grow.
  pose proof (zlen_nonneg (i_mid s)). pose proof (zlen_nonneg (optb (i_v1 s))). lia.
Qed.

(* default policy: padding of moderate size is kept whatever happens to the ID3v1 tag *)
Theorem c07_default_moderate f fr o f' s' :
  id3f_wf f = true -> frames_ok (o_v2 o) fr = true -> v1_hyp (mid_of f) o ->
  o_cb o = get_default_padding ->
  id3f_save f fr o = Ok f' -> id3f_parse f' = Ok s' -> id3f_padding s' <= 1024 ->
  id3f_save f' fr o = Ok f'.
Proof.
  intros WF FO Hh Cb H P' M. apply (c07_second_save f fr o f' s'); try assumption.
  rewrite Cb. destruct (wf_inv _ WF) as (s & P & _).
  unfold mid_of in Hh. rewrite P in Hh.
  destruct (save_wf _ _ _ _ _ WF P FO Hh H) as (R & PB & _).
  assert (Es : s' = mkI (Some (mkT (o_v2 o) (10 + zlen fr + o_cb o (tag_size s - (zlen fr + 10)) (zlen f - tag_size s)) fr
                  (o_cb o (tag_size s - (zlen fr + 10)) (zlen f - tag_size s)))) (i_mid s) (v1_after (o_v1 o) (o_v1bytes o) (i_v1 s)))
    by congruence.
  destruct (parse_dec _ _ P') as (_ & B' & _).
  apply default_keeps_moderate; [lia|]. subst s'. cbn [id3f_padding i_tag t_pad] in *. lia.
Qed.

(* load + save unchanged (same ID3v2 version) is lossless: the frame bytes read back are the frame bytes read *)
Theorem c07_lossless f s t o f' :
  id3f_wf f = true -> id3f_parse f = Ok s -> i_tag s = Some t -> o_v2 o = t_ver t -> v1_hyp (i_mid s) o ->
  id3f_save f (t_frames t) o = Ok f' ->
  id3f_load f' = id3f_load f /\ mid_of f' = i_mid s.
Proof.
  intros WF P Et Ev Hh H. destruct (parse_dec _ _ P) as (PT & _). rewrite Et in PT.
  destruct (parse_tag_inv _ _ PT) as (_ & _ & _ & _ & _ & _ & _ & _ & _ & _ & _ & _ & FO).
  rewrite <- Ev in FO.
  destruct (save_wf _ _ _ _ _ WF P FO Hh H) as (_ & PB & _).
  unfold id3f_load, mid_of. rewrite PB, P, Et. split; reflexivity.
Qed.

(* the hypothesis "no ID3v1 tag removed by the first save" is necessary: the policy is fed the size of everything behind
   the ID3v2 tag, ID3v1 tag included; removing it (v1=0) shrinks that size by 128 and can move the policy's upper
   threshold below the padding that the first save kept *)
Theorem c07_default_v1_removed_not_idempotent_arith :
  exists p0 s0, 0 <= p0 /\ 128 <= s0 /\
    let r := get_default_padding p0 s0 in
    r = p0 /\ get_default_padding r (s0 - 128) <> r.
Proof.
  exists 10250, 1000. split; [lia|]. split; [lia|]. vm_compute. split; [reflexivity|discriminate].
Qed.
