(* C12 (g): the tag-level unsynchronisation flag and the frame list.  read_frames hands every frame of the list
   to from_data under the SAME tag flag, whatever the frame's position (frames_loop_collect); hence a v2.4 tag
   whose frames rely on the tag flag (with or without their own flag) reads like the plain tag, frame by frame
   (frames_loop_tagflag_v24), and a v2.2 / v2.3 tag unsynchronised as a whole reads like the plain tag
   (read_frames_whole_tag_unsynch: every version below 2.4, v2.2 included). *)
From Coq Require Import ZArith List Bool Lia.
Import ListNotations.
Require Import Base.Py Base.ZList Model.Id3Spec Model.Id3Frame
  Proofs.C12_ints Proofs.C12_codec Proofs.C12_specs Proofs.C12_specs2 Proofs.C12_frame Proofs.C12_framing Proofs.C12_tag.
Open Scope Z_scope.

(* a stored v2.3/v2.4 frame: class, size field, flag field, stored body *)
Record stored := mkStored { s_fr : frame_desc; s_size : list Z; s_flags : list Z; s_body : list Z }.
Definition stored_bytes (x : stored) : list Z := (fr_id (s_fr x) ++ s_size x ++ s_flags x) ++ s_body x.

(* what read_frames does with the outcome of decoding one frame *)
Definition step_result (x : stored) (r : result (list value * list Z)) (next : result parsed) : result parsed :=
  match r with
  | Ok (vs, _) => rmap (add_frame (fr_id (s_fr x), vs)) next
  | Raise ENotImpl => rmap (add_unknown (stored_bytes x)) next
  | Raise EMutagen => next
  | Raise e => Raise e
  end.

Section TagFlag.
Variable sub : list Z -> result (value * list Z).
Variable ver : Z.
Variable tbl22 tbl : list frame_desc.
Variable bits : Z.

Definition stored_ok (x : stored) : Prop :=
  id_ok (fr_id (s_fr x)) = true /\ frame_lookup tbl (fr_id (s_fr x)) = Some (s_fr x) /\
  zlen (s_size x) = 4 /\ zlen (s_flags x) = 2 /\ bpi_decode bits (s_size x) = zlen (s_body x) /\ 0 < zlen (s_body x).

(* every frame of the list decoded by from_data under the one tag-level flag g *)
Fixpoint collect (g : bool) (xs : list stored) : result parsed :=
  match xs with
  | [] => Ok (mkParsed [] [] [])
  | x :: r => step_result x (from_data sub ver g (s_fr x) (be_decode (s_flags x)) (s_body x)) (collect g r)
  end.

Theorem frames_loop_collect : forall xs fuel g,
  Forall stored_ok xs -> (length (concat (map stored_bytes xs)) < fuel)%nat ->
  frames_loop sub ver fuel g tbl22 tbl bits (concat (map stored_bytes xs)) = collect g xs.
Proof.
  induction xs as [|x xs IH]; intros fuel g Hall Hfuel.
  - destruct fuel; [cbn in Hfuel; lia|]. reflexivity.
  - inversion Hall as [|? ? Hx Hxs]; subst.
    destruct Hx as (Hid & Hlk & Lsz & Lfl & Hdec & Hd).
    destruct (id_ok_facts tbl22 _ Hid) as (Lid & Hnz & Hascii & Hres & Hne).
    cbn [map concat collect] in Hfuel |- *. unfold step_result.
    set (rest := concat (map stored_bytes xs)) in *. unfold stored_bytes in Hfuel |- *.
    set (fr := s_fr x) in *. set (id := fr_id fr) in *. set (sz := s_size x) in *. set (fl := s_flags x) in *.
    set (b := s_body x) in *. set (n := zlen b) in *. set (hdr := id ++ sz ++ fl) in *.
    assert (Lhdr : zlen hdr = 10) by (unfold hdr; rewrite !zlen_app, Lid, Lsz, Lfl; reflexivity).
    rewrite <- (app_assoc hdr b rest) in Hfuel |- *.
    destruct fuel as [|fuel]; [lia|]. rewrite frames_loop_unfold.
    assert (F1 : is_nil (hdr ++ b ++ rest) = false).
    { unfold hdr. destruct id; [congruence|reflexivity]. }
    pose proof (zlen_nonneg rest) as Hrest0.
    assert (F2 : (zlen (hdr ++ b ++ rest) <? 10) = false) by (apply Z.ltb_ge; rewrite !zlen_app, Lhdr; fold n; lia).
    rewrite F1, F2. cbv zeta.
    rewrite (ztake_app_len 10 hdr) by exact Lhdr.
    assert (F4 : ztake 4 hdr = id) by (unfold hdr; apply ztake_app_len; exact Lid).
    rewrite F4, Hnz.
    assert (F5 : zslice 4 8 hdr = sz).
    { unfold zslice, hdr. rewrite (zdrop_app_len 4) by exact Lid. change (8 - 4) with 4. apply ztake_app_len. exact Lsz. }
    assert (F6 : zslice 8 10 hdr = fl).
    { unfold zslice, hdr. rewrite app_assoc. rewrite (zdrop_app_len 8) by (rewrite zlen_app, Lid, Lsz; reflexivity).
      apply ztake_all. rewrite Lfl. reflexivity. }
    rewrite F5, F6, Hdec. fold n.
    replace (Z.min n (zlen (hdr ++ b ++ rest))) with n by (rewrite !zlen_app, Lhdr; fold n; lia).
    assert (F7 : zslice 10 (10 + n) (hdr ++ b ++ rest) = b).
    { unfold zslice. rewrite (zdrop_app_len 10) by exact Lhdr. replace (10 + n - 10) with n by lia. apply ztake_app_len. reflexivity. }
    assert (F8 : zdrop (10 + n) (hdr ++ b ++ rest) = rest).
    { rewrite app_assoc. apply zdrop_app_len. rewrite zlen_app, Lhdr. reflexivity. }
    rewrite F7, F8.
    replace (n =? 0) with false by (symmetry; apply Z.eqb_neq; lia).
    rewrite Hascii. cbn [negb]. rewrite Hres, Hlk.
    rewrite (IH fuel g Hxs).
    + reflexivity.
    + rewrite !app_length in Hfuel. assert (0 < length hdr)%nat by (unfold zlen in Lhdr; lia). lia.
Qed.

End TagFlag.

Section Below24.
Variable sub : list Z -> result (value * list Z).
Variable ver : Z.
Variable tbl22 tbl : list frame_desc.

(* below v2.4 from_data does not look at the tag flag at all *)
Lemma from_data_lt4 g fr flags d : ver < 4 -> from_data sub ver g fr flags d = from_data sub ver false fr flags d.
Proof. intros H. unfold from_data. replace (4 <=? ver) with false by (symmetry; apply Z.leb_gt; lia). reflexivity. Qed.

Lemma frames_loop_lt4 bits : ver < 4 -> forall fuel g data,
  frames_loop sub ver fuel g tbl22 tbl bits data = frames_loop sub ver fuel false tbl22 tbl bits data.
Proof.
  intros Hv. induction fuel as [|fuel IH]; intros g data; [reflexivity|].
  rewrite !frames_loop_unfold. cbv zeta. rewrite (IH g).
  destruct (is_nil data); [reflexivity|]. destruct (zlen data <? 10); [reflexivity|].
  destruct (all_zero (ztake 4 (ztake 10 data))); [reflexivity|].
  destruct (bpi_decode bits (zslice 4 8 (ztake 10 data)) =? 0); [reflexivity|].
  destruct (negb (forallb ascii_cp (ztake 4 (ztake 10 data)))); [reflexivity|].
  destruct (match resolve_name tbl22 (ztake 4 (ztake 10 data)) with Some n => frame_lookup tbl n | None => None end) as [fr|];
    [|reflexivity].
  rewrite (from_data_lt4 g) by exact Hv. reflexivity.
Qed.

(* v2.2 and v2.3: the whole frame area is unsynchronised as a unit and decoded as a unit, before any frame is cut out *)
Theorem read_frames_whole_tag_unsynch data : ver < 4 ->
  read_frames sub ver true tbl22 tbl (fr_unsynch_encode data) = read_frames sub ver false tbl22 tbl data.
Proof.
  intros Hv. unfold read_frames. replace (ver <? 4) with true by (symmetry; apply Z.ltb_lt; lia).
  cbn [andb]. rewrite unsynch_roundtrip. destruct (3 <=? ver); [|reflexivity].
  apply frames_loop_lt4. exact Hv.
Qed.
End Below24.

(* ---------------------------------------------------------------- v2.4: frames relying on the tag flag *)
Section FlagOnly.
Variable sub : list Z -> result (value * list Z).
Variable tbl22 tbl : list frame_desc.

(* field bytes d of a frame of class fr, the size field of the plain frame and of the unsynchronised frame,
   and whether the unsynchronised frame also carries its own flag (0x0002) *)
Record flagged := mkFlagged { g_fr : frame_desc; g_d : list Z; g_size : list Z; g_usize : list Z; g_own : bool }.
Definition as_plain (x : flagged) : stored := mkStored (g_fr x) (g_size x) [0; 0] (g_d x).
Definition as_unsynch (x : flagged) : stored :=
  mkStored (g_fr x) (g_usize x) (if g_own x then [0; 2] else [0; 0]) (fr_unsynch_encode (g_d x)).
Definition flagged_ok (x : flagged) : Prop :=
  stored_ok tbl 7 (as_plain x) /\ stored_ok tbl 7 (as_unsynch x) /\ frame_read sub 4 (g_fr x) (g_d x) <> Raise ENotImpl.

Lemma from_data_tagflag fr (own : bool) d :
  from_data sub 4 true fr (be_decode (if own then [0; 2] else [0; 0])) (fr_unsynch_encode d) = frame_read sub 4 fr d /\
  from_data sub 4 false fr (be_decode [0; 0]) d = frame_read sub 4 fr d.
Proof.
  unfold from_data. change (4 <=? 4) with true. cbv iota. unfold has_flag.
  destruct own; cbn [be_decode];
    repeat match goal with |- context [(?a / ?b) mod 2 =? 1] =>
      let v := eval vm_compute in ((a / b) mod 2 =? 1) in change ((a / b) mod 2 =? 1) with v end;
    cbn [orb andb]; cbv iota; rewrite unsynch_roundtrip; split; reflexivity.
Qed.

Lemma collect_tagflag xs : Forall flagged_ok xs ->
  collect sub 4 true (map as_unsynch xs) = collect sub 4 false (map as_plain xs).
Proof.
  induction xs as [|x xs IH]; intros H; [reflexivity|].
  inversion H as [|? ? Hx Hxs]; subst. destruct Hx as (_ & _ & Hni).
  cbn [map collect]. rewrite (IH Hxs).
  destruct (from_data_tagflag (g_fr x) (g_own x) (g_d x)) as [E1 E2].
  cbn [as_unsynch as_plain s_fr s_flags s_body]. rewrite E1, E2.
  unfold step_result. cbn [s_fr as_unsynch as_plain].
  destruct (frame_read sub 4 (g_fr x) (g_d x)) as [[vs r]|e]; [reflexivity|].
  destruct e; try reflexivity. exfalso. apply Hni. reflexivity.
Qed.

(* the frame list of a v2.4 tag read under the tag flag (each body unsynchronised, with or without the frame's own flag)
   = the frame list of the plain tag read without it, at every position *)
Theorem frames_loop_tagflag_v24 xs fuel fuel' : Forall flagged_ok xs ->
  (length (concat (map stored_bytes (map as_unsynch xs))) < fuel)%nat ->
  (length (concat (map stored_bytes (map as_plain xs))) < fuel')%nat ->
  frames_loop sub 4 fuel true tbl22 tbl 7 (concat (map stored_bytes (map as_unsynch xs))) =
  frames_loop sub 4 fuel' false tbl22 tbl 7 (concat (map stored_bytes (map as_plain xs))).
Proof.
  intros H F1 F2.
  rewrite (frames_loop_collect sub 4 tbl22 tbl 7 (map as_unsynch xs) fuel true), (frames_loop_collect sub 4 tbl22 tbl 7 (map as_plain xs) fuel' false);
    try assumption.
  - apply collect_tagflag. exact H.
  - apply Forall_map. eapply Forall_impl; [|exact H]. intros a (A & _). exact A.
  - apply Forall_map. eapply Forall_impl; [|exact H]. intros a (_ & A & _). exact A.
Qed.

Theorem read_frames_tagflag_v24 xs : Forall flagged_ok xs ->
  determine_bpi tbl (concat (map stored_bytes (map as_unsynch xs))) = true ->
  determine_bpi tbl (concat (map stored_bytes (map as_plain xs))) = true ->
  read_frames sub 4 true tbl22 tbl (concat (map stored_bytes (map as_unsynch xs))) =
  read_frames sub 4 false tbl22 tbl (concat (map stored_bytes (map as_plain xs))).
Proof.
  intros H B1 B2. unfold read_frames. change (4 <? 4) with false. cbn [andb]. change (3 <=? 4) with true. cbv iota.
  rewrite B1, B2. apply frames_loop_tagflag_v24; [exact H|lia|lia].
Qed.
End FlagOnly.

(* ---------------------------------------------------------------- the depth-indexed tag reader *)
Section TagRead.
Variable tbl22 tbl : list frame_desc.

Theorem tag_read_whole_tag_unsynch ver d data : ver < 4 ->
  tag_read tbl22 tbl ver d true (fr_unsynch_encode data) = tag_read tbl22 tbl ver d false data.
Proof.
  intros Hv. destruct d as [|d]; [reflexivity|]. cbn [tag_read]. unfold nested_gunsync.
  apply read_frames_whole_tag_unsynch. exact Hv.
Qed.

Theorem tag_read_tagflag_v24 d xs :
  Forall (flagged_ok (sub_of tbl22 tbl 4 d false) tbl) xs ->
  determine_bpi tbl (concat (map stored_bytes (map as_unsynch xs))) = true ->
  determine_bpi tbl (concat (map stored_bytes (map as_plain xs))) = true ->
  tag_read tbl22 tbl 4 (S d) true (concat (map stored_bytes (map as_unsynch xs))) =
  tag_read tbl22 tbl 4 (S d) false (concat (map stored_bytes (map as_plain xs))).
Proof.
  intros H B1 B2. cbn [tag_read]. unfold nested_gunsync.
  apply (read_frames_tagflag_v24 (sub_of tbl22 tbl 4 d false) tbl22 tbl xs H B1 B2).
Qed.
End TagRead.
