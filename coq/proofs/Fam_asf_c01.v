(* ASF family, C01: the attributes saved are read back by the independent reader with name, type, value, language and
   stream, grouped by the header object the placement chose. *)
From Coq Require Import ZArith List Bool Lia.
Import ListNotations.
Require Import Base.Py Base.ZList Model.Splice Model.Fam_asf Proofs.Fam_asf_codec Proofs.Fam_asf_save Proofs.Fam_asf_agree
  Proofs.Fam_asf_attr Proofs.Fam_asf_reopen.
Open Scope Z_scope.

(* ------------------------------------------------------------------ invariants of the placement loop *)
Definition all_of (P : placement) : list attr := p_cd P ++ p_ecd P ++ p_m P ++ p_ml P.
Definition from (tags : list attr) (P : placement) : Prop := forall a, In a (all_of P) -> In a tags.

Lemma in_all_of P a : In a (all_of P) <-> In a (p_cd P) \/ In a (p_ecd P) \/ In a (p_m P) \/ In a (p_ml P).
Proof. unfold all_of. rewrite !in_app_iff. tauto. Qed.

Lemma place1_from tags P a : from tags P -> In a tags -> from tags (place1 P a).
Proof.
  intros H Ha b Hb. apply in_all_of in Hb.
  assert (Hold : In b (all_of P) \/ b = a).
  { unfold place1, to_ml in Hb.
    repeat match type of Hb with context [if ?c then _ else _] => destruct c end;
      cbn [p_cd p_ecd p_m p_ml] in Hb; rewrite ?in_app_iff in Hb; cbn [In] in Hb;
      rewrite in_all_of; intuition auto. }
  destruct Hold as [Ho| ->]; [apply H, Ho|exact Ha].
Qed.
Lemma fold_place_from tags : forall l P, from tags P -> (forall a, In a l -> In a tags) -> from tags (fold_left place1 l P).
Proof.
  induction l as [|a l IH]; intros P HP Hl; [exact HP|]. cbn [fold_left]. apply IH.
  - apply place1_from; [exact HP|apply Hl; left; reflexivity].
  - intros b Hb. apply Hl. right. exact Hb.
Qed.
Lemma place_from tags : from tags (place tags).
Proof. unfold place. apply fold_place_from; [intros a Ha; destruct Ha|auto]. Qed.

Lemma place1_cd_text P a : cd_texts_ok P -> cd_texts_ok (place1 P a).
Proof.
  unfold cd_texts_ok, place1, to_ml. intros H.
  repeat match goal with |- context [if ?c then _ else _] => destruct c eqn:? end; cbn [p_cd]; try exact H.
  apply Forall_app. split; [exact H|]. constructor; [|constructor].
  match goal with E : (_ && is_text _) = true |- _ => apply andb_true_iff in E as [_ E]; exact E end.
Qed.
Lemma place_cd_text tags : cd_texts_ok (place tags).
Proof.
  unfold place. assert (H : cd_texts_ok P0) by constructor. revert H. generalize P0.
  induction tags as [|a l IH]; intros P HP; [exact HP|]. cbn [fold_left]. apply IH, place1_cd_text, HP.
Qed.

(* the placement of a valid tag list is valid *)
Record placement_ok (P : placement) : Prop := mkPok {
  pok_text : cd_texts_ok P;
  pok_cd : Forall valid_attr (p_cd P); pok_ecd : Forall valid_attr (p_ecd P);
  pok_m : Forall valid_attr (p_m P); pok_ml : Forall valid_attr (p_ml P);
  pok_packs : place_packs P = true }.

Lemma place_ok tags : Forall valid_attr tags -> place_packs (place tags) = true -> placement_ok (place tags).
Proof.
  intros Hv Hp. pose proof (place_from tags) as Hf. rewrite Forall_forall in Hv.
  assert (Hsub : forall l, (forall a, In a l -> In a (all_of (place tags))) -> Forall valid_attr l).
  { intros l Hl. apply Forall_forall. intros a Ha. apply Hv, Hf, Hl, Ha. }
  constructor; [apply place_cd_text| | | | |exact Hp]; apply Hsub; intros a Ha; apply in_all_of; tauto.
Qed.

(* ------------------------------------------------------------------ what each object of the saved file reads back as *)
Definition exp_raw (P : placement) (c : rawobj) : list ltag :=
  match cls_of (fst c) with
  | KCD => cd_tags_of (cd_view P)
  | KECD => map ecd_tag (p_ecd P)
  | KMETA => map (meta_tag false) (p_m P)
  | KLIB => map (meta_tag true) (p_ml P)
  | _ => []
  end.
Definition exp_obj (P : placement) (o : obj) : list ltag :=
  match o with OLeaf g d => exp_raw P (g, d) | OExt _ ch => flat_map (exp_raw P) (filter nonpad_raw ch) end.

Lemma load_raw_retag P c : placement_ok P -> load_raw (retag_raw P c) = Ok (exp_raw P c).
Proof.
  intros [Ht Hcd Hecd Hm Hml Hp]. unfold place_packs in Hp.
  apply andb_true_iff in Hp as [Hp H]. apply andb_true_iff in Hp as [Hp H0]. apply andb_true_iff in Hp as [Hp H1].
  apply andb_true_iff in Hp as [Hp H2]. apply andb_true_iff in Hp as [Hp H3]. apply andb_true_iff in Hp as [Hp H4].
  destruct c as [g d]. unfold load_raw, retag_raw, exp_raw. cbn [fst snd].
  destruct (cls_of g); try reflexivity.
  - apply load_cd_render; assumption.
  - unfold ecd_payload. rewrite counted_render by lia. apply load_ecd_render; assumption.
  - unfold m_payload. rewrite counted_render by lia. apply (load_meta_render false); assumption.
  - unfold ml_payload. rewrite counted_render by lia. apply (load_meta_render true); assumption.
Qed.
Lemma load_raws_retag P ch : placement_ok P ->
  load_raws (map (retag_raw P) ch) = Ok (flat_map (exp_raw P) ch).
Proof.
  intros HP. induction ch as [|c ch IH]; [reflexivity|]. cbn [map load_raws flat_map].
  rewrite (load_raw_retag P c HP), IH. reflexivity.
Qed.
Lemma load_objs_retag P l : placement_ok P ->
  load_objs (map (retag_obj P) l) = Ok (flat_map (exp_obj P) l).
Proof.
  intros HP. induction l as [|o l IH]; [reflexivity|]. cbn [map load_objs flat_map]. rewrite IH.
  destruct o as [g d|fx ch]; cbn [retag_obj exp_obj].
  - change (g, snd (retag_raw P (g, d))) with (retag_raw P (g, d)). rewrite (load_raw_retag P (g, d) HP). reflexivity.
  - rewrite (load_raws_retag P _ HP). reflexivity.
Qed.
Lemma load_objs_app a b x y : load_objs a = Ok x -> load_objs b = Ok y -> load_objs (a ++ b) = Ok (x ++ y).
Proof.
  revert x. induction a as [|o a IH]; intros x Ha Hb.
  - cbn in Ha. inversion Ha. exact Hb.
  - cbn [app load_objs] in *.
    destruct (match o with OLeaf g d => load_raw (g, d) | OExt _ ch => load_raws ch end) as [u|]; [|discriminate].
    destruct (load_objs a) as [v|]; [|discriminate]. inversion Ha; subst x.
    rewrite (IH v eq_refl Hb). rewrite app_assoc. reflexivity.
Qed.

(* the objects of the saved file, without the padding object *)
Definition saved_objs (objs : list obj) : list obj := filter nonpad_obj (add_missing objs).

(* C01: every tag object of the saved file reads back as exactly the attributes the placement put there *)
Theorem asf_save_load f t cb f' : Forall valid_attr t -> asf_save f t cb = Ok f' ->
  exists objs ts, asf_open f = Ok (objs, ts) /\
    asf_load f' = Ok (flat_map (exp_obj (place t)) (saved_objs objs)).
Proof.
  intros Hv H. destruct (asf_save_form _ _ _ _ H) as (objs & ts & Ho & _ & Hpp & _).
  destruct (asf_save_parse _ _ _ _ H) as (objs' & ts' & Ho' & Hp).
  rewrite Ho in Ho'. inversion Ho'; subst objs' ts'; clear Ho'.
  exists objs, ts. split; [exact Ho|].
  unfold asf_load. rewrite Hp. cbn [sobjs]. unfold save_tree, core_objs.
  pose proof (place_ok t Hv Hpp) as HP.
  assert (Hpad : forall n, load_objs [pad_obj n] = Ok []) by reflexivity.
  rewrite (load_objs_app _ _ _ [] (load_objs_retag (place t) _ HP) (Hpad _)). rewrite app_nil_r. reflexivity.
Qed.

(* ------------------------------------------------------------------ the lists in the model's own words *)
Lemma cd_tags_sorted P : cd_texts_ok P ->
  cd_tags_of (cd_view P) = map (fun a => mkT 0 (a_name a) 0 0 (a_val a)) (cd_sorted P).
Proof.
  intros Ht. unfold cd_tags_of, cd_view, cd_sorted. rewrite flat_map_concat_map, map_map.
  rewrite flat_map_concat_map, concat_map, map_map. f_equal. apply map_ext. intros n. cbn [fst snd].
  destruct (find _ (p_cd P)) as [a|] eqn:E; [|reflexivity].
  apply find_some in E as [Hin Hn]. apply list_eqb_spec in Hn.
  unfold cd_texts_ok in Ht. rewrite Forall_forall in Ht. specialize (Ht a Hin).
  destruct (a_val a) eqn:Ev; try discriminate. cbn [map]. rewrite Hn, Ev. reflexivity.
Qed.
Theorem exp_raw_placed P : cd_texts_ok P ->
  let '(c0, c1, c2, c3) := placed_tags P in
  forall c, exp_raw P c = match cls_of (fst c) with KCD => c0 | KECD => c1 | KMETA => c2 | KLIB => c3 | _ => [] end.
Proof.
  intros Ht. unfold placed_tags. intros c. unfold exp_raw. destruct (cls_of (fst c)); try reflexivity.
  apply cd_tags_sorted, Ht.
Qed.

(* ------------------------------------------------------------------ nothing is lost, nothing is invented *)
Definition all_placed (P : placement) : list ltag :=
  let '(c0, c1, c2, c3) := placed_tags P in c0 ++ c1 ++ c2 ++ c3.

Lemma top_has_filter g0 l : is_pad g0 = false -> top_has g0 (filter nonpad_obj l) = top_has g0 l.
Proof.
  intros Hg. unfold top_has. induction l as [|o l IH]; [reflexivity|].
  destruct o as [g d|fx ch]; cbn [filter nonpad_obj].
  - destruct (is_pad g) eqn:Ep; cbn [negb existsb]; [rewrite (is_pad_not g g0 Ep Hg); exact IH|rewrite IH; reflexivity].
  - cbn [existsb]. rewrite IH. reflexivity.
Qed.
Lemma fec_filter l : fec (filter nonpad_obj l) = fec l.
Proof.
  induction l as [|o l IH]; [reflexivity|]. destruct o as [g d|fx ch]; cbn [filter nonpad_obj].
  - destruct (is_pad g); cbn [negb fec]; exact IH.
  - reflexivity.
Qed.
Lemma saved_complete objs : complete (saved_objs objs).
Proof.
  destruct (add_missing_complete objs) as (A & B & C). unfold saved_objs, complete.
  rewrite !top_has_filter by reflexivity. rewrite fec_filter. auto.
Qed.

Lemma top_has_in g0 l : top_has g0 l = true -> exists d, In (OLeaf g0 d) l.
Proof.
  unfold top_has. intros H. apply existsb_exists in H as (o & Hin & Ho).
  destruct o as [g d|]; [|discriminate]. apply list_eqb_spec in Ho. subst g. eauto.
Qed.
Lemma fec_in l : fec l = true -> exists fx ch dm dl, In (OExt fx ch) l /\ In (G_META, dm) ch /\ In (G_LIB, dl) ch.
Proof.
  induction l as [|o l IH]; [discriminate|]. destruct o as [g d|fx ch]; cbn [fec]; intros H.
  - destruct (IH H) as (fx & ch & dm & dl & A & B & C). exists fx, ch, dm, dl. split; [right; exact A|auto].
  - apply andb_true_iff in H as [H1 H2]. unfold raw_has in *.
    apply existsb_exists in H1 as ([g1 d1] & I1 & E1). apply existsb_exists in H2 as ([g2 d2] & I2 & E2).
    cbn [fst] in *. apply list_eqb_spec in E1, E2. subst. exists fx, ch, d1, d2. split; [left; reflexivity|auto].
Qed.

Lemma in_exp_raw P c tg : cd_texts_ok P -> In tg (exp_raw P c) -> In tg (all_placed P).
Proof.
  intros Ht. pose proof (exp_raw_placed P Ht) as H. unfold all_placed. destruct (placed_tags P) as [[[c0 c1] c2] c3].
  rewrite H. rewrite !in_app_iff. destruct (cls_of (fst c)); cbn [In]; tauto.
Qed.

Theorem asf_save_load_set f t cb f' : Forall valid_attr t -> asf_save f t cb = Ok f' ->
  exists loaded, asf_load f' = Ok loaded /\ forall tg, In tg loaded <-> In tg (all_placed (place t)).
Proof.
  intros Hv H. destruct (asf_save_load _ _ _ _ Hv H) as (objs & ts & _ & Hl).
  eexists. split; [exact Hl|]. pose proof (place_cd_text t) as Ht. intros tg. split.
  - intros Hin. apply in_flat_map in Hin as (o & Ho & Hin). destruct o as [g d|fx ch]; cbn [exp_obj] in Hin.
    + eapply in_exp_raw; eassumption.
    + apply in_flat_map in Hin as (c & _ & Hin). eapply in_exp_raw; eassumption.
  - intros Hin. destruct (saved_complete objs) as (A & B & C).
    pose proof (exp_raw_placed (place t) Ht) as Hx. unfold all_placed in Hin.
    destruct (placed_tags (place t)) as [[[c0 c1] c2] c3]. rewrite !in_app_iff in Hin.
    apply in_flat_map.
    destruct Hin as [Hin|[Hin|[Hin|Hin]]].
    + destruct (top_has_in _ _ A) as (d & Hd). exists (OLeaf G_CD d). split; [exact Hd|]. cbn [exp_obj]. rewrite Hx. exact Hin.
    + destruct (top_has_in _ _ B) as (d & Hd). exists (OLeaf G_ECD d). split; [exact Hd|]. cbn [exp_obj]. rewrite Hx. exact Hin.
    + destruct (fec_in _ C) as (fx & ch & dm & dl & I1 & I2 & I3). exists (OExt fx ch). split; [exact I1|].
      cbn [exp_obj]. apply in_flat_map. exists (G_META, dm). split; [apply filter_In; split; [exact I2|reflexivity]|].
      rewrite Hx. exact Hin.
    + destruct (fec_in _ C) as (fx & ch & dm & dl & I1 & I2 & I3). exists (OExt fx ch). split; [exact I1|].
      cbn [exp_obj]. apply in_flat_map. exists (G_LIB, dl). split; [apply filter_In; split; [exact I3|reflexivity]|].
      rewrite Hx. exact Hin.
Qed.

(* ------------------------------------------------------------------ every attribute of the tag list is read back *)
Lemma place1_keeps P a b : In b (all_of P) \/ b = a -> In b (all_of (place1 P a)).
Proof.
  intros H. rewrite in_all_of in H. apply in_all_of. unfold place1, to_ml.
  repeat match goal with |- context [if ?c then _ else _] => destruct c end;
    cbn [p_cd p_ecd p_m p_ml]; rewrite ?in_app_iff; cbn [In]; intuition auto.
Qed.
Lemma fold_place_keeps : forall l P b, In b (all_of P) \/ In b l -> In b (all_of (fold_left place1 l P)).
Proof.
  induction l as [|a l IH]; intros P b H; cbn [fold_left]; [destruct H as [H|[]]; exact H|].
  apply IH. destruct H as [H|[H|H]]; [left; apply place1_keeps; auto|left; apply place1_keeps; auto|right; exact H].
Qed.
Lemma place_keeps tags a : In a tags -> In a (all_of (place tags)).
Proof. intros H. unfold place. apply fold_place_keeps. right. exact H. Qed.

(* the ContentDescription dict: lookups by name find the very attribute that was stored, and names are among the five *)
Definition cd_dict_ok (P : placement) : Prop :=
  forall a, In a (p_cd P) -> find (fun x => list_eqb (a_name x) (a_name a)) (p_cd P) = Some a /\ In (a_name a) CD_NAMES.
Lemma find_app_l {A} (f : A -> bool) l r x : find f l = Some x -> find f (l ++ r) = Some x.
Proof. induction l as [|y l IH]; [discriminate|]. cbn [app find]. destruct (f y); auto. Qed.
Lemma find_app_r {A} (f : A -> bool) l r : existsb f l = false -> find f (l ++ r) = find f r.
Proof.
  induction l as [|y l IH]; [reflexivity|]. cbn [existsb app find]. intros H. apply orb_false_iff in H as [H1 H2].
  rewrite H1. apply IH, H2.
Qed.
Lemma is_cd_name_in n : is_cd_name n = true -> In n CD_NAMES.
Proof.
  unfold is_cd_name. intros H. apply existsb_exists in H as (m & Hin & E). apply list_eqb_spec in E. subst. exact Hin.
Qed.
Lemma place1_cd_dict P a : cd_dict_ok P -> cd_dict_ok (place1 P a).
Proof.
  unfold cd_dict_ok, place1, to_ml. intros H.
  repeat match goal with |- context [if ?c then _ else _] => destruct c eqn:? end; cbn [p_cd]; try exact H.
  intros b Hb. apply in_app_iff in Hb as [Hb|[Hb|[]]].
  - destruct (H b Hb) as [A B]. split; [apply find_app_l, A|exact B].
  - subst b. match goal with E : (negb (has_name _ _) && _) = true |- _ => apply andb_true_iff in E as [E _] end.
    apply negb_true_iff in Heqb2. split.
    + rewrite find_app_r by exact Heqb2. cbn [find]. rewrite list_eqb_refl. reflexivity.
    + apply is_cd_name_in. assumption.
Qed.
Lemma place_cd_dict tags : cd_dict_ok (place tags).
Proof.
  unfold place. assert (H : cd_dict_ok P0) by (intros a []). revert H. generalize P0.
  induction tags as [|a l IH]; intros P HP; [exact HP|]. cbn [fold_left]. apply IH, place1_cd_dict, HP.
Qed.
Lemma in_cd_sorted P a : cd_dict_ok P -> In a (p_cd P) -> In a (cd_sorted P).
Proof.
  intros H Ha. destruct (H a Ha) as [A B]. unfold cd_sorted. apply in_flat_map.
  exists (a_name a). split; [exact B|]. rewrite A. left. reflexivity.
Qed.

Definition attr_tag (k : Z) (a : attr) : ltag :=
  mkT k (a_name a) (if k =? 3 then oz (a_lang a) else 0) (if 2 <=? k then oz (a_stream a) else 0) (a_val a).

Theorem asf_save_load_all f t cb f' : Forall valid_attr t -> asf_save f t cb = Ok f' ->
  exists loaded, asf_load f' = Ok loaded /\
    forall a, In a t -> exists k, (k = 0 \/ k = 1 \/ k = 2 \/ k = 3) /\ In (attr_tag k a) loaded.
Proof.
  intros Hv H. destruct (asf_save_load_set _ _ _ _ Hv H) as (loaded & Hl & Hset).
  exists loaded. split; [exact Hl|]. intros a Ha.
  pose proof (place_keeps t a Ha) as Hin. apply in_all_of in Hin.
  assert (Hall : forall k tg, In tg (all_placed (place t)) -> tg = attr_tag k a -> In (attr_tag k a) loaded).
  { intros k tg Htg ->. apply Hset, Htg. }
  unfold all_placed, placed_tags in Hall.
  destruct Hin as [Hin|[Hin|[Hin|Hin]]].
  - exists 0. split; [auto|]. eapply Hall; [|reflexivity]. rewrite !in_app_iff. left.
    apply in_map_iff. exists a. split; [reflexivity|]. apply in_cd_sorted; [apply place_cd_dict|exact Hin].
  - exists 1. split; [auto|]. eapply Hall; [|reflexivity]. rewrite !in_app_iff. right. left.
    apply in_map_iff. exists a. split; [reflexivity|exact Hin].
  - exists 2. split; [auto|]. eapply Hall; [|reflexivity]. rewrite !in_app_iff. right. right. left.
    apply in_map_iff. exists a. split; [reflexivity|exact Hin].
  - exists 3. split; [auto|]. eapply Hall; [|reflexivity]. rewrite !in_app_iff. right. right. right.
    apply in_map_iff. exists a. split; [reflexivity|exact Hin].
Qed.
