(* C05 -- AAC ADIF: decode_adif (build_adif p tail) reports the encoded values, for all field values. *)
From Coq Require Import ZArith List Bool Lia.
Import ListNotations.
Require Import Base.Py Base.ZList Model.InfoBase Model.InfoMpeg Model.InfoAac Gen.Gen_tables Proofs.C05_aac_bits.
Open Scope Z_scope.

Theorem aac_tables_match_spec : aac_table_diffs = [].
Proof. vm_compute. reflexivity. Qed.
Lemma gen_aac_freqs_spec : gen_aac_freqs = spec_aac_freqs.
Proof. reflexivity. Qed.

(* ------------------------------------------------------------------ widths and well-formedness of the field lists *)
Lemma fw_map (w : Z) (l : list Z) : fields_width (map (fun t => (t, w)) l) = w * zlen l.
Proof. induction l as [|x l IH]; cbn [map fields_width]; [cbn; lia|]. rewrite IH, zlen_cons. lia. Qed.
Lemma fw_elem5 (l : list Z) : fields_width (flat_map elem5 l) = 5 * zlen l.
Proof. induction l as [|x l IH]; cbn [flat_map elem5 app fields_width]; [cbn; lia|]. rewrite IH, zlen_cons. lia. Qed.
Lemma fw_opt o w : fields_width (opt_field o w) = match o with None => 1 | Some _ => 1 + w end.
Proof. destruct o; cbn [opt_field fields_width]; lia. Qed.
Lemma ok_map (w : Z) (l : list Z) : 0 <= w -> Forall (fun e => 0 <= e < 2 ^ w) l -> fields_ok (map (fun t => (t, w)) l).
Proof. intros Hw. induction 1; cbn [map fields_ok]; auto. Qed.
Lemma ok_elem5 (l : list Z) : Forall (fun e => 0 <= e < 2 ^ 5) l -> fields_ok (flat_map elem5 l).
Proof.
  induction 1 as [|e l He Hl IH]; cbn [flat_map elem5 app fields_ok]; [exact I|].
  change (2 ^ 5) with 32 in He. change (2 ^ 1) with 2. change (2 ^ 4) with 16.
  repeat split; try lia; try exact IH; Z.to_euclidean_division_equations; lia.
Qed.
Lemma ok_opt o w : 0 <= w -> opt_in w o -> fields_ok (opt_field o w).
Proof. intros Hw. destruct o; cbn [opt_in opt_field fields_ok]; intros; repeat split; try lia; cbn; lia. Qed.

Lemma pce_head_ok p : valid_pce p -> fields_ok (pce_head p).
Proof.
  intros (H1 & H2 & H3 & (F1 & F2) & (S1 & S2) & (B1 & B2) & (L1 & L2) & (A1 & A2) & (C1 & C2) & M1 & M2 & M3 & _).
  pose proof (zlen_nonneg (pc_front p)). pose proof (zlen_nonneg (pc_side p)). pose proof (zlen_nonneg (pc_back p)).
  pose proof (zlen_nonneg (pc_lfe p)). pose proof (zlen_nonneg (pc_assoc p)). pose proof (zlen_nonneg (pc_cc p)).
  unfold pce_head. cbn [app fields_ok].
  change (2 ^ 4) with 16 in *. change (2 ^ 2) with 4 in *. change (2 ^ 3) with 8 in *.
  repeat (split; [lia|]).
  repeat (apply fields_ok_app; split); try (apply ok_opt; [lia | assumption]).
  - apply ok_elem5. repeat (apply Forall_app; split); assumption.
  - apply ok_map; [lia | exact L2].
  - apply ok_map; [lia | exact A2].
  - apply ok_elem5. exact C2.
Qed.
Lemma pce_fields_ok n0 p : valid_pce p -> fields_ok (pce_fields n0 p).
Proof.
  intros V. pose proof (pce_head_ok p V) as Hh. destruct V as (_ & _ & _ & _ & _ & _ & _ & _ & _ & _ & _ & _ & (K1 & K2)).
  unfold pce_fields. apply fields_ok_app. split; [exact Hh|]. cbn [app fields_ok].
  pose proof (Z.mod_pos_bound (- (n0 + fields_width (pce_head p))) 8 ltac:(lia)).
  pose proof (zlen_nonneg (pc_comment p)). change (2 ^ 8) with 256 in *.
  split; [lia|]. split; [split; [lia | apply Z.pow_pos_nonneg; lia]|]. split; [lia|]. split; [lia|].
  apply ok_map; [lia | exact K2].
Qed.

(* ------------------------------------------------------------------ stepping the reader *)
Ltac step_bits H :=
  match type of H with
  | holds ?r ?c ((?x, ?w) :: ?fs) ?tail =>
    let r' := fresh "r" in let E := fresh "E" in let H' := fresh "H" in
    destruct (a_bits_holds r c x w fs tail H) as (r' & E & H'); rewrite E; cbn [obind]; clear E H
  end.
(* skip over the fields fs1 at the head of the list: the hypothesis must have the shape holds r c (fs1 ++ rest) tail *)
Ltac step_skip H n :=
  match type of H with
  | holds ?r ?c (?fs1 ++ ?fs2) ?tail =>
    let r' := fresh "r" in let E := fresh "E" in let H' := fresh "H" in
    destruct (a_skip_holds n r c fs1 fs2 tail H) as (r' & E & H'); [ | rewrite E; cbn [obind]; clear E H ]
  end.

Lemma pce_elements_spec es : forall r c ch fs tail,
  holds r c (flat_map elem5 es ++ fs) tail -> Forall (fun e => 0 <= e < 2 ^ 5) es ->
  exists r', pce_elements (length es) ch (r, 0) = Some (fold_left (fun acc e => acc + 1 + e / 16) es ch, (r', 0)) /\
             holds r' (c + 5 * zlen es) fs tail.
Proof.
  induction es as [|e es IH]; intros r c ch fs tail H F.
  - exists r. split; [reflexivity|]. cbn [flat_map app] in H. change (zlen []) with 0. rewrite Z.mul_0_r, Z.add_0_r. exact H.
  - inversion F as [|? ? He Fes]; subst. change (2 ^ 5) with 32 in He.
    cbn [flat_map elem5 app] in H. cbn [length pce_elements fold_left].
    step_bits H.
    change ((e mod 16, 4) :: flat_map elem5 es ++ fs) with ([(e mod 16, 4)] ++ (flat_map elem5 es ++ fs)) in H0.
    step_skip H0 4; [reflexivity|].
    destruct (IH r1 (c + 1 + 4) (ch + 1 + (if negb (e / 16 =? 0) then 1 else 0)) fs tail H Fes) as (r' & E & H').
    exists r'. rewrite E. split.
    + f_equal. f_equal. f_equal.
      assert (e / 16 = 0 \/ e / 16 = 1) as [-> | ->] by (Z.to_euclidean_division_equations; lia); reflexivity.
    + rewrite zlen_cons. replace (c + 5 * (1 + zlen es)) with (c + 1 + 4 + 5 * zlen es) by lia. exact H'.
Qed.

(* the same, finding the (single) holds hypothesis *)
Ltac sb :=
  match goal with
  | H : holds ?r ?c ((?x, ?w) :: ?fs) ?tail |- _ =>
    let r' := fresh "r" in let E := fresh "E" in let H' := fresh "H" in
    destruct (a_bits_holds r c x w fs tail H) as (r' & E & H'); rewrite E; cbn [obind]; clear E H
  end.
Ltac ss1 :=
  match goal with
  | H : holds ?r ?c ((?x, ?w) :: ?fs) ?tail |- _ =>
    change ((x, w) :: fs) with ([(x, w)] ++ fs) in H;
    let r' := fresh "r" in let E := fresh "E" in let H' := fresh "H" in
    destruct (a_skip_holds w r c [(x, w)] fs tail H) as (r' & E & H');
    [cbn [fields_width]; lia | rewrite E; cbn [obind]; clear E H]
  end.
Ltac ssl n :=
  match goal with
  | H : holds ?r ?c (?fs1 ++ ?fs2) ?tail |- _ =>
    let r' := fresh "r" in let E := fresh "E" in let H' := fresh "H" in
    destruct (a_skip_holds n r c fs1 fs2 tail H) as (r' & E & H');
    [ | rewrite E; cbn [obind]; clear E H]
  end.
Ltac opt_step :=
  sb; unfold a_skip_if at 1;
  lazymatch goal with
  | |- context [if 1 =? 1 then a_skip _ _ else _] => change (1 =? 1) with true; cbv iota; ss1
  | |- _ => change (0 =? 1) with false; cbv iota; cbn [obind]
  end.
Ltac fw_solve :=
  unfold pce_fields, pce_head; rewrite ?fw_app; cbn [fields_width opt_field app]; rewrite ?fw_app, ?fw_elem5, ?fw_map, ?zlen_app;
  cbn [fields_width]; lia.

Lemma to_nat_len3 {A} (a b c : list A) : Z.to_nat (zlen a + zlen b + zlen c) = length (a ++ b ++ c).
Proof. unfold zlen. rewrite !app_length. lia. Qed.

(* ProgramConfigElement.__init__ in front of the fields of program p written at bit offset c *)
Lemma read_pce_spec p r c fs tail : valid_pce p -> holds r c (pce_fields c p ++ fs) tail ->
  exists r', read_pce (r, 0) = Some ((pc_sfi p, pce_channels p), (r', 0)) /\
             holds r' (c + fields_width (pce_fields c p)) fs tail.
Proof.
  intros V H.
  destruct V as (_ & _ & _ & (_ & F2) & (_ & S2) & (_ & B2) & _ & _ & _ & _ & _ & _ & _).
  assert (Fall : Forall (fun e => 0 <= e < 2 ^ 5) (pc_front p ++ pc_side p ++ pc_back p))
    by (repeat (apply Forall_app; split); assumption).
  clear F2 S2 B2.
  remember (c + fields_width (pce_fields c p)) as cend eqn:Hcend.
  remember (- (c + fields_width (pce_head p))) as cal eqn:Hcal.
  unfold pce_fields in H. rewrite <- Hcal in H. unfold pce_head in H.
  unfold read_pce, pce_channels.
  destruct (pc_mono p) as [mono|] eqn:Emono; destruct (pc_stereo p) as [stereo|] eqn:Estereo;
    destruct (pc_matrix p) as [matrix|] eqn:Ematrix;
    repeat rewrite <- app_assoc in H; cbn [opt_field app] in H;
    do 9 sb; do 3 opt_step;
    rewrite to_nat_len3;
    (match goal with H : holds ?r ?c (flat_map elem5 ?es ++ ?fs) ?tail |- _ =>
       let r' := fresh "r" in let E := fresh "E" in let H' := fresh "H" in
       destruct (pce_elements_spec es r c 0 fs tail H Fall) as (r' & E & H'); rewrite E; cbn [obind]; clear E H end);
    (ssl (4 * zlen (pc_lfe p)); [rewrite fw_map; reflexivity|]);
    (ssl (4 * zlen (pc_assoc p)); [rewrite fw_map; reflexivity|]);
    (ssl (5 * zlen (pc_cc p)); [rewrite fw_elem5; reflexivity|]);
    (match goal with H : holds ?r ?c ((0, ?pw) :: ?fs) ?tail |- _ =>
       let r' := fresh "r" in let E := fresh "E" in let H' := fresh "H" in
       destruct (a_align_holds r c pw fs tail H) as (r' & E & H');
       [ rewrite Hcal; f_equal; f_equal; unfold pce_head; rewrite Emono, Estereo, Ematrix; fw_solve | rewrite E; clear E H] end);
    sb; (ssl (8 * zlen (pc_comment p)); [rewrite fw_map; reflexivity|]);
    (match goal with H : holds ?r _ _ _ |- _ => exists r; split; [reflexivity|] end);
    (match goal with H : holds ?r ?c ?fs ?tail |- holds ?r ?c' ?fs ?tail => replace c' with c; [exact H|] end);
    rewrite Hcend; unfold pce_fields; rewrite fw_app; rewrite <- Hcal; cbn [app fields_width]; rewrite fw_map; unfold pce_head;
    rewrite Emono, Estereo, Ematrix; fw_solve.
Qed.

(* ------------------------------------------------------------------ the programs after the first one (variable rate) *)
Lemma adif_pces_vbr_cons full c p rest :
  adif_pces 1 full c (p :: rest) = pce_fields c p ++ adif_pces 1 full (c + fields_width (pce_fields c p)) rest.
Proof. cbn [adif_pces]. change (1 =? 0) with false. cbv iota. cbn [app fields_width]. rewrite Z.add_0_r. reflexivity. Qed.
Lemma adif_pces_cbr_cons full c p rest :
  adif_pces 0 full c (p :: rest) =
  (full, 20) :: pce_fields (c + 20) p ++ adif_pces 0 full (c + 20 + fields_width (pce_fields (c + 20) p)) rest.
Proof.
  cbn [adif_pces]. change (0 =? 0) with true. cbv iota. cbn [app fields_width].
  replace (c + (20 + 0)) with (c + 20) by lia. rewrite Z.add_assoc. reflexivity.
Qed.

Lemma more_pces_spec ps : forall full r c fs tail, Forall valid_pce ps -> holds r c (adif_pces 1 full c ps ++ fs) tail ->
  exists r', read_more_pces 1 (length ps) (r, 0) = Some (r', 0) /\ holds r' (c + fields_width (adif_pces 1 full c ps)) fs tail.
Proof.
  induction ps as [|p ps IH]; intros full r c fs tail V H.
  - exists r. split; [reflexivity|]. cbn [adif_pces fields_width app] in *. rewrite Z.add_0_r. exact H.
  - inversion V as [|? ? Vp Vps]; subst. rewrite adif_pces_vbr_cons in H |- *. rewrite <- app_assoc in H.
    destruct (read_pce_spec p r c _ tail Vp H) as (r1 & E1 & H1).
    destruct (IH full r1 _ fs tail Vps H1) as (r2 & E2 & H2).
    exists r2. cbn [length read_more_pces]. change (1 =? 0) with false. cbv iota. cbn [obind].
    rewrite E1. cbn [obind]. rewrite E2. split; [reflexivity|].
    rewrite fw_app, Z.add_assoc. exact H2.
Qed.

(* constant rate: adif_buffer_fullness in front of every further program *)
Lemma more_pces_spec_cbr ps : forall full r c fs tail, Forall valid_pce ps -> holds r c (adif_pces 0 full c ps ++ fs) tail ->
  exists r', read_more_pces 0 (length ps) (r, 0) = Some (r', 0) /\ holds r' (c + fields_width (adif_pces 0 full c ps)) fs tail.
Proof.
  induction ps as [|p ps IH]; intros full r c fs tail V H.
  - exists r. split; [reflexivity|]. cbn [adif_pces fields_width app] in *. rewrite Z.add_0_r. exact H.
  - inversion V as [|? ? Vp Vps]; subst. rewrite adif_pces_cbr_cons in H |- *. cbn [app] in H. rewrite <- app_assoc in H.
    cbn [length read_more_pces]. change (0 =? 0) with true. cbv iota.
    ss1.
    match goal with H : holds ?r _ _ _ |- _ => destruct (read_pce_spec p r (c + 20) _ tail Vp H) as (ra & E1 & H1) end.
    destruct (IH full ra _ fs tail Vps H1) as (rb & E2 & H2).
    exists rb. rewrite E1. cbn [obind]. rewrite E2. split; [reflexivity|].
    cbn [fields_width]. rewrite fw_app.
    replace (c + (20 + (fields_width (pce_fields (c + 20) p) +
                        fields_width (adif_pces 0 full (c + 20 + fields_width (pce_fields (c + 20) p)) ps))))
      with (c + 20 + fields_width (pce_fields (c + 20) p) +
            fields_width (adif_pces 0 full (c + 20 + fields_width (pce_fields (c + 20) p)) ps)) by lia.
    exact H2.
Qed.

Lemma adif_pces_ok bst full ps : 0 <= full < 2 ^ 20 -> Forall valid_pce ps -> forall n0, fields_ok (adif_pces bst full n0 ps).
Proof.
  intros Hf. induction 1 as [|p ps Vp Vps IH]; intros n0; cbn [adif_pces]; [exact I|].
  apply fields_ok_app. split; [|apply IH]. apply fields_ok_app. split; [|apply pce_fields_ok; exact Vp].
  destruct (bst =? 0); cbn [fields_ok]; [|exact I]. repeat split; lia.
Qed.
Lemma adif_fields_ok p : valid_adif p -> fields_ok (adif_fields p).
Proof.
  intros (Vc & Vo & Vh & Vb & Vr & Vf & Vn & Vp). pose proof (zlen_nonneg (ad_pces p)).
  unfold adif_fields, adif_head. repeat (apply fields_ok_app; split).
  - destruct (ad_copyright p) as [cb|]; cbn [fields_ok]; [|repeat split; cbn; lia].
    destruct Vc as (_ & Vc). split; [lia|]. split; [cbn; lia|]. apply ok_map; [lia | exact Vc].
  - cbn [fields_ok]. change (2 ^ 1) with 2. change (2 ^ 4) with 16. repeat split; lia.
  - apply adif_pces_ok; assumption.
Qed.

Lemma decode_adif_ADIF X :
  decode_adif (ascii_ADIF ++ X) =
  match read_adif (br_new X, 0) with
  | None => Raise EMutagen
  | Some ([bitrate; sfi; channels], s) =>
    let rate := match idx sfi gen_aac_freqs with Some r => r | None => 0 end in
    let left := zlen (br_rest (fst s)) - snd s in
    if bitrate =? 0 then Ok [rate; channels; bitrate; 0; 1] else Ok [rate; channels; bitrate; 8 * left; bitrate]
  | Some _ => Raise EAssert
  end.
Proof. reflexivity. Qed.

Lemma idx_default i l : 0 <= i -> match idx i l with Some r => r | None => 0 end = nth (Z.to_nat i) l 0.
Proof.
  intros Hi. unfold idx. destruct ((0 <=? i) && (i <? zlen l)) eqn:E; [reflexivity|].
  symmetry. apply nth_overflow. apply andb_false_iff in E. destruct E as [E|E].
  - apply Z.leb_gt in E. lia.
  - apply Z.ltb_ge in E. unfold zlen in E. lia.
Qed.

Lemma holds_end r c pad tail : holds r c [(0, pad)] tail -> 0 <= pad < 8 -> zlen (br_rest r) = zlen tail.
Proof.
  intros (((Hb & _ & _) & H8) & _ & _ & HW & _) Hp. unfold brW in HW. cbn [fields_width] in HW. lia.
Qed.

(* ------------------------------------------------------------------ the theorem *)
Definition read_adif_body (s : ard) : option (list Z * ard) :=
  obind (a_skip 2 s) (fun s =>
  obind (a_bits 1 s) (fun '(bitstream_type, s) =>
  obind (a_bits 23 s) (fun '(bitrate, s) =>
  obind (a_bits 4 s) (fun '(npce, s) =>
  obind (if bitstream_type =? 0 then a_skip 20 s else Some s) (fun s =>
  obind (read_pce s) (fun '((sfi, channels), s) =>
  obind (read_more_pces bitstream_type (Z.to_nat npce) s) (fun s =>
  Some ([bitrate; sfi; channels], a_align s)))))))).
Lemma read_adif_eq s :
  read_adif s = obind (a_bits 1 s) (fun '(cp, s) => obind (if negb (cp =? 0) then a_skip 72 s else Some s) read_adif_body).
Proof. reflexivity. Qed.

Lemma read_adif_body_spec r c orig home bst bitrate full p0 rest pad tail :
  holds r c ((orig, 1) :: (home, 1) :: (bst, 1) :: (bitrate, 23) :: (zlen (p0 :: rest) - 1, 4) ::
             adif_pces bst full (c + 30) (p0 :: rest) ++ [(0, pad)]) tail ->
  valid_pce p0 -> Forall valid_pce rest -> 0 <= pad < 8 -> bst = 1 \/ bst = 0 ->
  exists r', read_adif_body (r, 0) = Some ([bitrate; pc_sfi p0; pce_channels p0], (r', 0)) /\ zlen (br_rest r') = zlen tail.
Proof.
  intros H V0 Vr Hpad Hdom. unfold read_adif_body.
  change ((orig, 1) :: (home, 1) :: ?x) with ([(orig, 1); (home, 1)] ++ x) in H.
  ssl 2; [reflexivity|]. do 3 sb.
  replace (c + 2 + 1 + 23 + 4) with (c + 30) in * by lia.
  assert (Hn : Z.to_nat (zlen (p0 :: rest) - 1) = length rest) by (rewrite zlen_cons; unfold zlen; lia).
  rewrite Hn. clear Hn.
  destruct Hdom as [-> | ->].
  - change (1 =? 0) with false. cbv iota. cbn [obind].
    rewrite adif_pces_vbr_cons in *. rewrite <- app_assoc in *.
    match goal with H : holds ?r _ _ _ |- _ => destruct (read_pce_spec p0 r (c + 30) _ tail V0 H) as (ra & E1 & H1) end.
    rewrite E1. cbn [obind].
    destruct (more_pces_spec rest full ra _ [(0, pad)] tail Vr H1) as (rb & E2 & H2).
    rewrite E2. cbn [obind]. exists (mkBR 0 0 (br_rest rb)). split; [reflexivity|]. cbn [br_rest].
    apply (holds_end _ _ _ _ H2 Hpad).
  - change (0 =? 0) with true. cbv iota.
    rewrite adif_pces_cbr_cons in *. cbn [app] in *. rewrite <- app_assoc in *. ss1.
    match goal with H : holds ?r _ _ _ |- _ => destruct (read_pce_spec p0 r (c + 30 + 20) _ tail V0 H) as (ra & E1 & H1) end.
    rewrite E1. cbn [obind].
    destruct (more_pces_spec_cbr rest full ra _ [(0, pad)] tail Vr H1) as (rb & E2 & H2).
    rewrite E2. cbn [obind]. exists (mkBR 0 0 (br_rest rb)). split; [reflexivity|]. cbn [br_rest].
    apply (holds_end _ _ _ _ H2 Hpad).
Qed.

Theorem adif_decode_build p tail : valid_adif p -> bytes_ok tail ->
  decode_adif (build_adif p tail) = Ok (expected_adif_info p (zlen tail)).
Proof.
  intros V Ht. pose proof (adif_fields_ok p V) as Fok.
  pose proof (holds_init _ tail Fok Ht) as H.
  assert (Hpad : 0 <= (- fields_width (adif_fields p)) mod 8 < 8) by (apply Z.mod_pos_bound; lia).
  remember ((- fields_width (adif_fields p)) mod 8) as pad eqn:Epad. clear Epad Fok.
  unfold build_adif. rewrite decode_adif_ADIF. unfold expected_adif_info, expected_adif.
  remember (br_new (pack_fields (adif_fields p) ++ tail)) as r0 eqn:Er0. clear Er0.
  unfold adif_fields in H. cbv zeta in H. unfold adif_head in H.
  destruct p as [cid orig home bst bitrate full pces].
  cbn [ad_copyright ad_original ad_home ad_bitstream_type ad_bitrate ad_fullness ad_pces] in *.
  destruct V as (Vc & Vo & Vh & Vb & Vr & Vf & Vn & Vp).
  cbn [ad_copyright ad_original ad_home ad_bitstream_type ad_bitrate ad_fullness ad_pces] in *.
  destruct pces as [|p0 rest]; [cbn in Vn; lia|].
  pose proof (Forall_inv Vp) as Vp0. pose proof (Forall_inv_tail Vp) as Vrest. clear Vp.
  assert (Hsfi : 0 <= pc_sfi p0) by (destruct Vp0 as (_ & _ & ? & _); lia).
  assert (Hdom' : bst = 1 \/ bst = 0) by lia.
  rewrite read_adif_eq.
  rewrite fw_app in H. cbn [fields_width] in H.
  repeat rewrite <- app_assoc in H.
  assert (Hfin : forall r, (exists r', read_adif_body (r, 0) = Some ([bitrate; pc_sfi p0; pce_channels p0], (r', 0)) /\
                                        zlen (br_rest r') = zlen tail) ->
          match read_adif_body (r, 0) with
          | Some ([bitrate0; sfi; channels], s) =>
            let rate := match idx sfi gen_aac_freqs with Some r => r | None => 0 end in
            let left := zlen (br_rest (fst s)) - snd s in
            if bitrate0 =? 0 then Ok [rate; channels; bitrate0; 0; 1] else Ok [rate; channels; bitrate0; 8 * left; bitrate0]
          | Some _ => Raise EAssert
          | None => Raise EMutagen
          end = Ok ([nth (Z.to_nat (pc_sfi p0)) spec_aac_freqs 0; pce_channels p0; bitrate] ++
                    (if bitrate =? 0 then [0; 1] else [8 * zlen tail; bitrate]))).
  { intros r (r' & E & L). rewrite E. cbv zeta. cbn [fst snd]. rewrite idx_default by exact Hsfi. rewrite gen_aac_freqs_spec, L.
    destruct (bitrate =? 0); cbn [app]; repeat f_equal; lia. }
  destruct cid as [cb|].
  - destruct Vc as (Lc & _). cbn [app fields_width] in H. rewrite fw_map, Lc in H. sb. change (negb (1 =? 0)) with true. cbv iota.
    ssl 72; [rewrite fw_map; lia|]. apply Hfin.
    apply (read_adif_body_spec _ (0 + 1 + 72) orig home bst bitrate full p0 rest pad tail); try assumption.
  - cbn [app fields_width] in H. sb. change (negb (0 =? 0)) with false. cbv iota. cbn [obind]. apply Hfin.
    apply (read_adif_body_spec _ (0 + 1) orig home bst bitrate full p0 rest pad tail); try assumption.
Qed.

(* ------------------------------------------------------------------ regression: constant rate, several programs *)
(* ISO/IEC 13818-7 puts adif_buffer_fullness in front of EVERY program_config_element of a constant-rate header.
   _parse_adif used to skip it only before the first one (fixed in /repo 2eb4867): the later programs were parsed 20 bits
   early, this header with 100 bytes of raw data was reported with length 624/128000 s instead of 800/128000 s, and with a
   2 byte tail it was rejected.  The witness of the former refutation, now an instance of adif_decode_build. *)
Definition adif_cbr2_witness : adif_p :=
  mkAdif None 0 0 0 128000 1048575
    [mkPce 0 1 4 [16] [] [] [] [] [] None None None []; mkPce 1 1 3 [0; 17] [] [18] [0] [] [] None None None [104; 101; 108; 108; 111]].
Example adif_cbr_multi_pce_regression :
  valid_adif adif_cbr2_witness /\
  build_adif adif_cbr2_witness [] =
    [65; 68; 73; 70; 0; 62; 128; 3; 255; 255; 224; 160; 128; 0; 4; 0; 0; 255; 255; 241; 76; 128; 80; 0; 17; 144; 0; 5; 104; 101; 108; 108; 111] /\
  decode_adif (build_adif adif_cbr2_witness (zeros 100)) = Ok [44100; 2; 128000; 800; 128000] /\
  decode_adif (build_adif adif_cbr2_witness [0; 0]) = Ok [44100; 2; 128000; 16; 128000] /\
  expected_adif_info adif_cbr2_witness 100 = [44100; 2; 128000; 800; 128000].
Proof.
  split; [|split; [|split; [|split]]]; try (vm_compute; reflexivity).
  unfold valid_adif, adif_cbr2_witness, valid_pce, elems_in, opt_in.
  cbn [ad_copyright ad_original ad_home ad_bitstream_type ad_bitrate ad_fullness ad_pces pc_tag pc_object_type pc_sfi pc_front pc_side
       pc_back pc_lfe pc_assoc pc_cc pc_mono pc_stereo pc_matrix pc_comment].
  repeat (first [exact I | split | apply Forall_cons | apply Forall_nil]); cbn; lia.
Qed.

(* the same header as a variable-rate stream (no buffer fullness fields): byte for byte, and what is reported *)
Example adif_vbr_example :
  build_adif (mkAdif None 0 0 1 128000 0 [mkPce 0 1 4 [16] [] [] [] [] [] None None None []]) [1; 2; 3] =
    [65; 68; 73; 70; 16; 62; 128; 0; 10; 8; 0; 0; 64; 0; 1; 2; 3] /\
  decode_adif [65; 68; 73; 70; 16; 62; 128; 0; 10; 8; 0; 0; 64; 0; 1; 2; 3] = Ok [44100; 2; 128000; 24; 128000].
Proof. split; vm_compute; reflexivity. Qed.

(* a header cut anywhere after the magic is rejected (BitReaderError -> AACError) *)
Example adif_truncated_rejected :
  forallb (fun n => match decode_adif (firstn n [65; 68; 73; 70; 16; 62; 128; 0; 10; 8; 0; 0; 64; 0]) with Raise EMutagen => true | _ => false end)
    [4; 5; 6; 7; 8; 9; 10; 11; 12; 13]%nat = true.
Proof. vm_compute. reflexivity. Qed.
