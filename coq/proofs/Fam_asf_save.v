(* ASF family: what asf_open returns is a shaped tree; the form of asf_save's result (a freshly rendered header in
   front of the old data section); well-formedness of every saved file (C03); the padding arithmetic (C09);
   what the re-rendering does to the foreign elements (C02, tree level). *)
From Coq Require Import ZArith List Bool Lia.
Import ListNotations.
Require Import Base.Py Base.ZList Model.Splice Model.Fam_asf Proofs.Splice_lemmas Proofs.Fam_asf_codec.
Open Scope Z_scope.

(* ------------------------------------------------------------------ shape of what the mirror reader returns *)
Lemma zlen_ztake_ge {A} n (l : list A) : 0 <= n <= zlen l -> zlen (ztake n l) = n.
Proof. intros. rewrite zlen_ztake by lia. lia. Qed.

Lemma mut_children_shaped : forall fuel d rem ch ts,
  mut_children fuel d rem = Ok (ch, ts) -> Forall raw_shaped ch.
Proof.
  induction fuel as [|k IH]; intros d rem ch ts H; [discriminate|].
  cbn [mut_children] in H.
  destruct (rem <=? 0); [inversion H; constructor|].
  destruct (zlen d <? 24) eqn:E1; [discriminate|].
  destruct (le_decode (zslice 16 24 d) <? 1); [discriminate|].
  destruct (is_hext (ztake 16 d)); [discriminate|].
  destruct (mut_leaf _ _); [|discriminate].
  destruct (mut_children k _ _) as [[ch' ts']|] eqn:E; [|discriminate].
  inversion H; subst. constructor; [|eapply IH; eassumption].
  unfold raw_shaped. cbn [fst]. apply zlen_ztake_ge. lia.
Qed.

Lemma mut_ext_shaped pl o ts : mut_ext pl = Ok (o, ts) -> obj_shaped o.
Proof.
  unfold mut_ext. destruct (zlen pl <? 22) eqn:E; [discriminate|].
  destruct (mut_children _ _ _) as [[ch ts']|] eqn:Ec; [|discriminate].
  intros H; inversion H; subst. cbn [obj_shaped]. split.
  - apply zlen_ztake_ge. lia.
  - eapply mut_children_shaped; eassumption.
Qed.

Lemma mut_objects_shaped : forall n more d rem objs ts,
  mut_objects n more d rem = Ok (objs, ts) -> Forall obj_shaped objs.
Proof.
  induction n as [|k IH]; intros more d rem objs ts H; cbn [mut_objects] in H.
  - destruct more; [discriminate|]. inversion H; constructor.
  - destruct (rem <? 24); [discriminate|].
    destruct (zlen d <? 24) eqn:E1; [discriminate|].
    destruct (rem - 24 <? le_decode (zslice 16 24 d) - 24); [discriminate|].
    destruct ((le_decode (zslice 16 24 d) - 24 <? 0) || _); [discriminate|].
    destruct (is_hext (ztake 16 d)) eqn:Eh.
    + destruct (mut_ext _) as [[o ts0]|] eqn:Ee; [|discriminate].
      destruct (mut_objects k _ _ _) as [[os ts']|] eqn:Er; [|discriminate].
      inversion H; subst. constructor; [eapply mut_ext_shaped; eassumption|eapply IH; eassumption].
    + destruct (mut_leaf _ _); [|discriminate].
      destruct (mut_objects k _ _ _) as [[os ts']|] eqn:Er; [|discriminate].
      inversion H; subst. constructor; [|eapply IH; eassumption].
      cbn [obj_shaped]. split; [apply zlen_ztake_ge; lia|exact Eh].
Qed.

Lemma asf_open_shaped f objs ts : asf_open f = Ok (objs, ts) -> Forall obj_shaped objs.
Proof.
  unfold asf_open. destruct (_ || _); [discriminate|].
  destruct (mut_objects _ _ _ _) as [[os ts']|] eqn:E; [|discriminate].
  intros H; inversion H; subst. eapply mut_objects_shaped; eassumption.
Qed.

(* ------------------------------------------------------------------ the writer keeps the tree shaped *)
Lemma upd_first_ext_shaped g l : (forall ch, Forall raw_shaped ch -> Forall raw_shaped (g ch)) ->
  Forall obj_shaped l -> Forall obj_shaped (upd_first_ext g l).
Proof.
  intros Hg. induction l as [|o l IH]; intros H; [constructor|].
  inversion H as [|? ? Ho Hl]; subst. destruct o as [a d|fx ch]; cbn [upd_first_ext].
  - constructor; [exact Ho|apply IH, Hl].
  - constructor; [|exact Hl]. destruct Ho as [H1 H2]. split; [exact H1|apply Hg, H2].
Qed.
Lemma add_children_shaped ch : Forall raw_shaped ch -> Forall raw_shaped (add_children ch).
Proof.
  intros H. unfold add_children.
  assert (H1 : Forall raw_shaped (if raw_has G_META ch then ch else ch ++ [(G_META, [])])).
  { destruct (raw_has G_META ch); [exact H|]. apply Forall_app. split; [exact H|]. repeat constructor. }
  destruct (raw_has G_LIB _); [exact H1|]. apply Forall_app. split; [exact H1|]. repeat constructor.
Qed.
Lemma add_missing_shaped l : Forall obj_shaped l -> Forall obj_shaped (add_missing l).
Proof.
  intros H. unfold add_missing. apply upd_first_ext_shaped; [apply add_children_shaped|].
  set (l1 := if top_has G_CD l then l else l ++ [OLeaf G_CD []]).
  assert (H1 : Forall obj_shaped l1).
  { unfold l1. destruct (top_has G_CD l); [exact H|]. apply Forall_app. split; [exact H|].
    repeat constructor. }
  set (l2 := if top_has G_ECD l1 then l1 else l1 ++ [OLeaf G_ECD []]).
  assert (H2 : Forall obj_shaped l2).
  { unfold l2. destruct (top_has G_ECD l1); [exact H1|]. apply Forall_app. split; [exact H1|].
    repeat constructor. }
  destruct (existsb is_ext l2); [exact H2|]. apply Forall_app. split; [exact H2|].
  repeat constructor.
Qed.
Lemma Forall_filter {A} (P : A -> Prop) f l : Forall P l -> Forall P (filter f l).
Proof.
  induction l as [|x l IH]; intros H; [constructor|]. inversion H; subst. cbn [filter].
  destruct (f x); [constructor; auto|auto].
Qed.
Lemma retag_obj_shaped P o : obj_shaped o -> obj_shaped (retag_obj P o).
Proof.
  destruct o as [g d|fx ch]; cbn [retag_obj obj_shaped]; [trivial|].
  intros [_ H]. split; [reflexivity|].
  apply Forall_forall. intros r Hr. apply in_map_iff in Hr as (c & <- & Hc).
  apply filter_In in Hc as [Hc _]. rewrite Forall_forall in H. exact (H c Hc).
Qed.
Lemma core_objs_shaped P l : Forall obj_shaped l -> Forall obj_shaped (core_objs P l).
Proof.
  intros H. unfold core_objs. apply Forall_forall. intros o Ho.
  apply in_map_iff in Ho as (x & <- & Hx). apply retag_obj_shaped.
  apply filter_In in Hx as [Hx _].
  pose proof (add_missing_shaped l H) as Ha. rewrite Forall_forall in Ha. exact (Ha x Hx).
Qed.
Lemma pad_obj_shaped n : obj_shaped (pad_obj n).
Proof. split; reflexivity. Qed.

(* ------------------------------------------------------------------ the form of a successful save *)
Definition save_tree (f : list Z) (objs : list obj) (t : list attr) (cb : Z -> Z -> Z) : list obj :=
  let core := core_objs (place t) objs in
  core ++ [pad_obj (cb (header_size f - (zlen (render_objs core) + 30 + 24)) (zlen f - header_size f))].

Lemma splice0 f old data : splice f 0 old data = data ++ zdrop old f.
Proof. unfold splice. rewrite ztake_0. reflexivity. Qed.

Lemma asf_save_form f t cb f' : asf_save f t cb = Ok f' ->
  exists objs ts, asf_open f = Ok (objs, ts) /\
    f' = render_header (save_tree f objs t cb) ++ zdrop (header_size f) f /\
    place_packs (place t) = true /\
    forallb obj_packs (save_tree f objs t cb) = true /\ header_packs (save_tree f objs t cb) = true /\
    header_size f <= zlen f.
Proof.
  unfold asf_save. destruct (asf_open f) as [[objs ts]|] eqn:Eo; [|discriminate].
  destruct (place_packs (place t)) eqn:Ep; cbn [negb]; [|discriminate].
  destruct (forallb obj_packs (core_objs (place t) objs)) eqn:Ec; cbn [negb]; [|discriminate].
  destruct (zlen f - header_size f <? 0) eqn:En; [discriminate|].
  destruct (obj_packs (pad_obj _) && header_packs _) eqn:Eh; cbn [negb]; [|discriminate].
  intros H; inversion H; subst; clear H.
  apply andb_true_iff in Eh as [Eh1 Eh2].
  exists objs, ts. split; [reflexivity|]. split; [apply splice0|]. split; [reflexivity|].
  unfold save_tree. split; [|split; [exact Eh2|lia]].
  rewrite forallb_app, Ec. cbn [forallb]. rewrite Eh1. reflexivity.
Qed.

Lemma save_tree_shaped f objs t cb : Forall obj_shaped objs -> Forall obj_shaped (save_tree f objs t cb).
Proof.
  intros H. unfold save_tree. apply Forall_app. split; [apply core_objs_shaped, H|].
  constructor; [apply pad_obj_shaped|constructor].
Qed.

(* a saved file parses (strictly) to the rendered tree and the old data section *)
Lemma asf_save_parse f t cb f' : asf_save f t cb = Ok f' ->
  exists objs ts, asf_open f = Ok (objs, ts) /\
    asf_parse f' = Ok (mkS (save_tree f objs t cb) (zdrop (header_size f) f)).
Proof.
  intros H. destruct (asf_save_form _ _ _ _ H) as (objs & ts & Ho & -> & _ & Hp & Hh & _).
  exists objs, ts. split; [exact Ho|].
  apply parse_render_header; [|exact Hp|exact Hh].
  apply save_tree_shaped. eapply asf_open_shaped; eassumption.
Qed.

Lemma ext_fixed_retag P o : ext_fixed_ok (retag_obj P o) = true.
Proof. destruct o; cbn [retag_obj ext_fixed_ok]; [reflexivity|apply list_eqb_refl]. Qed.
Lemma save_tree_fixed f objs t cb : forallb ext_fixed_ok (save_tree f objs t cb) = true.
Proof.
  unfold save_tree, core_objs. rewrite forallb_app. cbn [forallb pad_obj ext_fixed_ok]. rewrite andb_true_r.
  apply forallb_forall. intros o Ho. apply in_map_iff in Ho as (x & <- & _). apply ext_fixed_retag.
Qed.

(* C03, one step: whatever the file was, a save that returns leaves a structurally valid file *)
Theorem asf_save_wf f t cb f' : asf_save f t cb = Ok f' -> asf_wf f' = true.
Proof.
  intros H. destruct (asf_save_parse _ _ _ _ H) as (objs & ts & _ & Hp).
  unfold asf_wf. rewrite Hp. cbn [sobjs]. apply save_tree_fixed.
Qed.
Theorem asf_delete_wf f f' : asf_delete f = Ok f' -> asf_wf f' = true.
Proof. apply asf_save_wf. Qed.

(* ------------------------------------------------------------------ histories *)
Inductive op := OpSave (t : list attr) (cb : Z -> Z -> Z) | OpDelete.
(* an operation that raises leaves the file as it was (every error precedes the first write) *)
Definition step (f : list Z) (o : op) : list Z :=
  match o with
  | OpSave t cb => match asf_save f t cb with Ok f' => f' | Raise _ => f end
  | OpDelete => match asf_delete f with Ok f' => f' | Raise _ => f end
  end.
Lemma step_wf f o : asf_wf f = true -> asf_wf (step f o) = true.
Proof.
  intros H. destruct o as [t cb|]; cbn [step].
  - destruct (asf_save f t cb) eqn:E; [eapply asf_save_wf; eassumption|exact H].
  - destruct (asf_delete f) eqn:E; [eapply asf_delete_wf; eassumption|exact H].
Qed.
Theorem history_wf ops : forall f, asf_wf f = true -> asf_wf (fold_left step ops f) = true.
Proof. induction ops as [|o ops IH]; intros f H; cbn [fold_left]; [exact H|]. apply IH, step_wf, H. Qed.

(* ------------------------------------------------------------------ header size and count accounting *)
Lemma zlen_render_raws l : Forall raw_shaped l ->
  zlen (render_raws l) = fold_right (fun o a => 24 + zlen (snd o) + a) 0 l.
Proof.
  induction l as [|o l IH]; intros H; [reflexivity|]. inversion H; subst.
  rewrite render_raws_cons, zlen_app, zlen_render_raw by assumption. cbn [fold_right]. rewrite IH by assumption. lia.
Qed.
Lemma zlen_render_header l : zlen (render_header l) = 30 + zlen (render_objs l).
Proof. unfold render_header. zl. rewrite zlen_G_HDR. lia. Qed.

Lemma zlen_render_objs_sum l : Forall obj_shaped l ->
  zlen (render_objs l) = fold_right (fun o a => 24 + zlen (snd (obj_raw o)) + a) 0 l.
Proof.
  intros Hs. unfold render_objs. rewrite zlen_render_raws.
  - clear Hs. induction l as [|o l IH]; [reflexivity|]. cbn [map fold_right]. rewrite IH. reflexivity.
  - apply Forall_forall. intros r Hr. apply in_map_iff in Hr as (o & <- & Ho).
    apply obj_raw_shaped. rewrite Forall_forall in Hs. apply Hs, Ho.
Qed.

(* the size field is 30 + the sum of the object sizes, the count field the number of objects (read back from the bytes) *)
Theorem header_fields l data : Forall obj_shaped l -> forallb obj_packs l = true -> header_packs l = true ->
  le_decode (zslice 16 24 (render_header l ++ data)) = 30 + fold_right (fun o a => 24 + zlen (snd (obj_raw o)) + a) 0 l /\
  le_decode (zslice 24 28 (render_header l ++ data)) = zlen l.
Proof.
  intros Hs Hp Hh. unfold header_packs in Hh. apply andb_true_iff in Hh as [Hh1 Hh2].
  pose proof (zlen_nonneg (render_objs l)). pose proof (zlen_nonneg l).
  pose proof (zlen_render_objs_sum l Hs) as Hsum.
  rewrite <- Hsum. unfold render_header. split.
  - rewrite <- !app_assoc.
    rewrite (zslice_mid G_HDR (le_encode 8 (30 + zlen (render_objs l)))) by (zl; reflexivity).
    apply le8_round. lia.
  - rewrite <- !app_assoc. rewrite app_assoc.
    rewrite (zslice_mid (G_HDR ++ le_encode 8 (30 + zlen (render_objs l))) (le_encode 4 (zlen l))) by (zl; reflexivity).
    apply le4_round. lia.
Qed.

(* ------------------------------------------------------------------ padding (C09) *)
Lemma zlen_render_objs_app a b : zlen (render_objs (a ++ b)) = zlen (render_objs a) + zlen (render_objs b).
Proof. unfold render_objs. rewrite map_app, render_raws_app, zlen_app. reflexivity. Qed.
Lemma zlen_zeros_max n : zlen (zeros n) = Z.max 0 n.
Proof.
  destruct (Z.le_gt_cases 0 n); [rewrite zlen_zeros by lia; lia|].
  rewrite zeros_neg by lia. rewrite (@zlen_nil Z). lia.
Qed.
Lemma zlen_render_pad n : zlen (render_objs [pad_obj n]) = 24 + Z.max 0 n.
Proof.
  unfold render_objs, pad_obj. cbn [map obj_raw render_raws flat_map]. rewrite app_nil_r.
  rewrite zlen_render_raw by reflexivity. cbn [snd]. rewrite zlen_zeros_max. lia.
Qed.

Lemma retag_nonpad P o : nonpad_obj o = true -> nonpad_obj (retag_obj P o) = true.
Proof. destruct o; cbn; trivial. Qed.
Definition pad_of (o : obj) : Z := match o with OLeaf g d => if is_pad g then zlen d else 0 | _ => 0 end.
Lemma padding_core P l : fold_right (fun o a => pad_of o + a) 0 (core_objs P l) = 0.
Proof.
  unfold core_objs. induction (add_missing l) as [|o r IH]; [reflexivity|].
  cbn [filter]. destruct (nonpad_obj o) eqn:E; [|exact IH].
  cbn [map fold_right]. rewrite IH.
  destruct o as [g d|fx ch]; cbn [retag_obj pad_of]; [|reflexivity].
  cbn [nonpad_obj] in E. apply negb_true_iff in E. rewrite E. reflexivity.
Qed.
Lemma asf_padding_eq s : asf_padding s = fold_right (fun o a => pad_of o + a) 0 (sobjs s).
Proof. reflexivity. Qed.
Lemma padding_app a b : fold_right (fun o x => pad_of o + x) 0 (a ++ b) =
  fold_right (fun o x => pad_of o + x) 0 a + fold_right (fun o x => pad_of o + x) 0 b.
Proof. induction a as [|o a IH]; cbn [app fold_right]; [reflexivity|]. rewrite IH. lia. Qed.

(* the callback is handed (old header size - needed, data-section size); what it returns is the padding payload
   found in the new file; returning a non-negative info.padding keeps the header size and every byte of the data
   section at its offset *)
Theorem asf_save_padding f t cb f' : asf_save f t cb = Ok f' ->
  exists p s s', asf_info f t = Ok (p, s) /\ asf_parse f' = Ok s' /\
    s = zlen f - header_size f /\
    asf_padding s' = Z.max 0 (cb p s) /\
    header_size f' = header_size f - p + Z.max 0 (cb p s) /\
    sdata s' = zdrop (header_size f) f /\
    (cb p s = p -> 0 <= p ->
       zlen f' = zlen f /\ header_size f' = header_size f /\
       zdrop (header_size f) f' = zdrop (header_size f) f).
Proof.
  intros H. destruct (asf_save_form _ _ _ _ H) as (objs & ts & Ho & Hf & _ & Hp & Hh & Hold).
  destruct (asf_save_parse _ _ _ _ H) as (objs' & ts' & Ho' & Hparse).
  rewrite Ho in Ho'. inversion Ho'; subst objs' ts'; clear Ho'.
  set (core := core_objs (place t) objs) in *.
  set (p := header_size f - (zlen (render_objs core) + 30 + 24)).
  set (s := zlen f - header_size f).
  exists p, s, (mkS (save_tree f objs t cb) (zdrop (header_size f) f)).
  split; [unfold asf_info; rewrite Ho; reflexivity|].
  split; [exact Hparse|]. split; [reflexivity|].
  assert (Hpad : asf_padding (mkS (save_tree f objs t cb) (zdrop (header_size f) f)) = Z.max 0 (cb p s)).
  { rewrite asf_padding_eq. cbn [sobjs]. unfold save_tree. fold core. fold p. fold s.
    rewrite padding_app. unfold core. rewrite padding_core. cbn [fold_right pad_obj pad_of].
    change (is_pad G_PAD) with true. cbn iota. rewrite zlen_zeros_max. lia. }
  split; [exact Hpad|].
  assert (Hshape : Forall obj_shaped (save_tree f objs t cb)).
  { apply save_tree_shaped. eapply asf_open_shaped; eassumption. }
  assert (Hsz : header_size f' = header_size f - p + Z.max 0 (cb p s)).
  { unfold header_size at 1. rewrite Hf.
    destruct (header_fields (save_tree f objs t cb) (zdrop (header_size f) f) Hshape Hp Hh) as [_ _].
    unfold render_header. rewrite <- !app_assoc.
    rewrite (zslice_mid G_HDR (le_encode 8 (30 + zlen (render_objs (save_tree f objs t cb))))) by (zl; reflexivity).
    unfold header_packs in Hh. apply andb_true_iff in Hh as [Hh1 _].
    pose proof (zlen_nonneg (render_objs (save_tree f objs t cb))).
    rewrite le8_round by lia.
    unfold save_tree. fold core. fold p. fold s. rewrite zlen_render_objs_app, zlen_render_pad. unfold p. lia. }
  split; [exact Hsz|]. split; [reflexivity|].
  intros Hkeep Hnn.
  assert (Hhl : zlen (render_header (save_tree f objs t cb)) = header_size f).
  { rewrite zlen_render_header. unfold save_tree. fold core. fold p. fold s.
    rewrite zlen_render_objs_app, zlen_render_pad, Hkeep. unfold p. lia. }
  assert (Hold0 : 0 <= header_size f).
  { rewrite <- Hhl. apply zlen_nonneg. }
  split; [|split].
  - rewrite Hf, zlen_app, Hhl, zlen_zdrop by lia. lia.
  - rewrite Hsz, Hkeep. lia.
  - rewrite Hf. apply zdrop_exact. lia.
Qed.
