(* C13: MakeID3v1 / ParseID3v1 -- layout of the 128-byte block, Latin-1 with replacement, truncation, NUL
   padding, and ParseID3v1 (MakeID3v1 t). *)
From Coq Require Import ZArith List Bool Lia.
Import ListNotations.
Require Import Base.Py Base.ZList Model.Id3Util Model.Id3Conv Proofs.C13_dict.
Open Scope Z_scope.

(* ---------------------------------------------------------------- fields *)
Lemma latin1r_bytes s : Forall (fun b => 0 <= b < 256) (conv_latin1r s).
Proof.
  unfold conv_latin1r. apply Forall_forall. intros x Hx. apply in_map_iff in Hx. destruct Hx as (c & <- & _).
  destruct ((0 <=? c) && (c <? 256)) eqn:E; [|lia]. apply andb_true_iff in E. destruct E as [A B].
  apply Z.leb_le in A. apply Z.ltb_lt in B. lia.
Qed.
Lemma latin1r_id s : Forall (fun c => 0 <= c < 256) s -> conv_latin1r s = s.
Proof.
  induction 1 as [|c r Hc Hr IH]; [reflexivity|]. unfold conv_latin1r in *. cbn [map]. rewrite IH.
  replace ((0 <=? c) && (c <? 256)) with true; [reflexivity|].
  symmetry. apply andb_true_iff. split; [apply Z.leb_le | apply Z.ltb_lt]; lia.
Qed.
Lemma latin1r_len s : zlen (conv_latin1r s) = zlen s.
Proof. unfold conv_latin1r. apply zlen_map. Qed.

Lemma field_len n b : 0 <= n -> zlen (conv_field n b) = n.
Proof.
  intro H. unfold conv_field. rewrite zlen_app. pose proof (zlen_ztake_le n b). pose proof (zlen_nonneg (ztake n b)).
  rewrite zlen_ztake by lia. rewrite zlen_zeros; rewrite ?zlen_ztake by lia; lia.
Qed.
(* the field starts with the (truncated) value and continues with NULs only *)
Lemma field_shape n b : conv_field n b = ztake n b ++ zeros (n - Z.min n (zlen b)).
Proof.
  unfold conv_field. destruct (Z.le_gt_cases 0 n) as [H|H].
  - rewrite zlen_ztake by lia. reflexivity.
  - pose proof (zlen_nonneg b). rewrite ztake_neg by lia. change (zlen (@nil Z)) with 0. rewrite !zeros_neg by lia. reflexivity.
Qed.
Lemma field_short n b : zlen b <= n -> conv_field n b = b ++ zeros (n - zlen b).
Proof. intro H. unfold conv_field. rewrite ztake_all by exact H. reflexivity. Qed.
Lemma field_long n b : 0 <= n <= zlen b -> conv_field n b = ztake n b.
Proof.
  intro H. unfold conv_field. rewrite zlen_ztake by lia. rewrite zeros_neg by lia. apply app_nil_r.
Qed.

(* ---------------------------------------------------------------- slicing a concatenation *)
Lemma zslice_mid (a b c : list Z) i j : zlen a = i -> zlen b = j - i -> zslice i j (a ++ b ++ c) = b.
Proof.
  intros Ha Hb. unfold zslice. pose proof (zlen_nonneg a). rewrite zdrop_app_r by lia. rewrite Ha.
  replace (i - i) with 0 by lia. rewrite zdrop_0. rewrite <- Hb. apply ztake_app_exact.
Qed.
Lemma znth_mid (a : list Z) x c i : zlen a = i -> znth i (a ++ x :: c) = x.
Proof.
  intro Ha. unfold znth. rewrite <- Ha. unfold zlen. rewrite Nat2Z.id. rewrite app_nth2 by lia.
  rewrite Nat.sub_diag. reflexivity.
Qed.

Lemma v1_slices (A0 A1 A2 A3 A4 A5 : list Z) tr ge :
  zlen A0 = 3 -> zlen A1 = 30 -> zlen A2 = 30 -> zlen A3 = 30 -> zlen A4 = 4 -> zlen A5 = 29 ->
  let b := A0 ++ A1 ++ A2 ++ A3 ++ A4 ++ A5 ++ [tr] ++ [ge] in
  zlen b = 128 /\ zslice 3 33 b = A1 /\ zslice 33 63 b = A2 /\ zslice 63 93 b = A3 /\ zslice 93 97 b = A4 /\
  zslice 97 126 b = A5 /\ znth 126 b = tr /\ znth 127 b = ge.
Proof.
  intros L0 L1 L2 L3 L4 L5 b. unfold b. repeat split.
  - rewrite !zlen_app, L0, L1, L2, L3, L4, L5. reflexivity.
  - apply zslice_mid; lia.
  - replace (A0 ++ A1 ++ A2 ++ A3 ++ A4 ++ A5 ++ [tr] ++ [ge]) with ((A0 ++ A1) ++ A2 ++ (A3 ++ A4 ++ A5 ++ [tr] ++ [ge]))
      by (rewrite <- !app_assoc; reflexivity).
    apply zslice_mid; rewrite ?zlen_app; lia.
  - replace (A0 ++ A1 ++ A2 ++ A3 ++ A4 ++ A5 ++ [tr] ++ [ge]) with ((A0 ++ A1 ++ A2) ++ A3 ++ (A4 ++ A5 ++ [tr] ++ [ge]))
      by (rewrite <- !app_assoc; reflexivity).
    apply zslice_mid; rewrite ?zlen_app; lia.
  - replace (A0 ++ A1 ++ A2 ++ A3 ++ A4 ++ A5 ++ [tr] ++ [ge]) with ((A0 ++ A1 ++ A2 ++ A3) ++ A4 ++ (A5 ++ [tr] ++ [ge]))
      by (rewrite <- !app_assoc; reflexivity).
    apply zslice_mid; rewrite ?zlen_app; lia.
  - replace (A0 ++ A1 ++ A2 ++ A3 ++ A4 ++ A5 ++ [tr] ++ [ge]) with ((A0 ++ A1 ++ A2 ++ A3 ++ A4) ++ A5 ++ ([tr] ++ [ge]))
      by (rewrite <- !app_assoc; reflexivity).
    apply zslice_mid; rewrite ?zlen_app; lia.
  - replace (A0 ++ A1 ++ A2 ++ A3 ++ A4 ++ A5 ++ [tr] ++ [ge]) with ((A0 ++ A1 ++ A2 ++ A3 ++ A4 ++ A5) ++ tr :: [ge])
      by (rewrite <- !app_assoc; reflexivity).
    apply znth_mid; rewrite ?zlen_app; lia.
  - replace (A0 ++ A1 ++ A2 ++ A3 ++ A4 ++ A5 ++ [tr] ++ [ge]) with ((A0 ++ A1 ++ A2 ++ A3 ++ A4 ++ A5 ++ [tr]) ++ ge :: [])
      by (rewrite <- !app_assoc; reflexivity).
    apply znth_mid; rewrite ?zlen_app; change (zlen [tr]) with 1; lia.
Qed.

(* ---------------------------------------------------------------- MakeID3v1: the layout *)
Definition v1_comment_text (t : tag) : text :=
  match conv_v1_comment_frame t with
  | Some f => match conv_texts_of f with v :: _ => v | [] => [] end
  | None => []
  end.
Definition v1_track (t : tag) : result Z :=
  match conv_get s_TRCK t with
  | None => Ok 0
  | Some f => match conv_texts_of f with
              | [] => Ok 0
              | v :: _ => match conv_py_int (hd [] (split_on 47 v)) with
                          | Some n => Ok (if (0 <=? n) && (n <? 256) then n else 0)
                          | None => Ok 0
                          end
              end
  end.
Definition v1_genre (G : list text) (t : tag) : Z :=
  match conv_get s_TCON t with
  | None => 255
  | Some f => match conv_genres G (conv_texts_of f) with
              | [] => 255
              | g :: _ => match conv_index_of g G 0 with Some i => i | None => 255 end
              end
  end.
Definition v1_year (t : tag) : result (list Z) :=
  match conv_get s_TDRC t with
  | Some f => Ok (conv_frame_str f)
  | None => match conv_get s_TYER t with
            | Some f => if conv_all_ascii (conv_frame_str f) then Ok (conv_frame_str f) else Raise EUnicode
            | None => Ok []
            end
  end.

Lemma make_v1_unfold G t : conv_make_id3v1 G t =
  rbind (conv_first_text (conv_get s_TIT2 t)) (fun title =>
  rbind (conv_first_text (conv_get s_TPE1 t)) (fun artist =>
  rbind (conv_first_text (conv_get s_TALB t)) (fun album =>
  rbind (v1_track t) (fun track =>
  rbind (v1_year t) (fun year =>
  Ok (s_TAG ++ conv_field 30 (conv_latin1r title) ++ conv_field 30 (conv_latin1r artist) ++
      conv_field 30 (conv_latin1r album) ++ ztake 4 (year ++ [0;0;0;0]) ++
      conv_field 29 (ztake 28 (conv_latin1r (v1_comment_text t))) ++ [track] ++ [v1_genre G t])))))).
Proof. reflexivity. Qed.

Theorem make_v1_layout G t b : conv_make_id3v1 G t = Ok b ->
  exists title artist album track year,
    conv_first_text (conv_get s_TIT2 t) = Ok title /\ conv_first_text (conv_get s_TPE1 t) = Ok artist /\
    conv_first_text (conv_get s_TALB t) = Ok album /\ v1_track t = Ok track /\ v1_year t = Ok year /\
    b = s_TAG ++ conv_field 30 (conv_latin1r title) ++ conv_field 30 (conv_latin1r artist) ++
        conv_field 30 (conv_latin1r album) ++ ztake 4 (year ++ [0;0;0;0]) ++
        conv_field 29 (ztake 28 (conv_latin1r (v1_comment_text t))) ++ [track] ++ [v1_genre G t].
Proof.
  rewrite make_v1_unfold.
  destruct (conv_first_text (conv_get s_TIT2 t)) as [title|]; [|discriminate].
  destruct (conv_first_text (conv_get s_TPE1 t)) as [artist|]; [|discriminate].
  destruct (conv_first_text (conv_get s_TALB t)) as [album|]; [|discriminate].
  destruct (v1_track t) as [track|]; [|discriminate].
  destruct (v1_year t) as [year|]; [|discriminate]. cbn [rbind].
  intro H. exists title, artist, album, track, year. repeat (split; [reflexivity|]). congruence.
Qed.

Lemma year_field_len year : zlen (ztake 4 (year ++ [0;0;0;0])) = 4.
Proof.
  rewrite zlen_ztake by lia. rewrite zlen_app. change (zlen [0;0;0;0]) with 4. pose proof (zlen_nonneg year). lia.
Qed.
Lemma comment_field_last x : zlen x <= 28 -> znth 28 (conv_field 29 x) = 0.
Proof.
  intro H. rewrite field_short by lia. pose proof (zlen_nonneg x). rewrite znth_app by lia.
  destruct (28 <? zlen x) eqn:E; [apply Z.ltb_lt in E; lia|]. apply znth_zeros.
Qed.

Theorem make_v1_length G t b : conv_make_id3v1 G t = Ok b -> zlen b = 128 /\ ztake 3 b = s_TAG.
Proof.
  intro H. destruct (make_v1_layout G t b H) as (ti & ar & al & tr & ye & _ & _ & _ & _ & _ & ->).
  split.
  - apply (v1_slices s_TAG _ _ _ _ _ tr (v1_genre G t)); try reflexivity; try (apply field_len; lia). apply year_field_len.
  - reflexivity.
Qed.

(* ---------------------------------------------------------------- ParseID3v1 (MakeID3v1 t) *)
Lemma find_tag_self r : conv_find_tag (s_TAG ++ r) = Some (s_TAG ++ r).
Proof. reflexivity. Qed.

Theorem parse_make_v1 G t b v : conv_make_id3v1 G t = Ok b ->
  exists title artist album track year,
    conv_first_text (conv_get s_TIT2 t) = Ok title /\ conv_first_text (conv_get s_TPE1 t) = Ok artist /\
    conv_first_text (conv_get s_TALB t) = Ok album /\ v1_track t = Ok track /\ v1_year t = Ok year /\
    let fx := conv_v1_fix in
    let ti := fx (conv_field 30 (conv_latin1r title)) in
    let ar := fx (conv_field 30 (conv_latin1r artist)) in
    let al := fx (conv_field 30 (conv_latin1r album)) in
    let ye := fx (ztake 4 (year ++ [0;0;0;0])) in
    let co := fx (conv_field 29 (ztake 28 (conv_latin1r (v1_comment_text t)))) in
    conv_parse_id3v1 v b = Some (
        (if conv_nonempty ti then [FText s_TIT2 0 [ti]] else []) ++
        (if conv_nonempty ar then [FText s_TPE1 0 [ar]] else []) ++
        (if conv_nonempty al then [FText s_TALB 0 [al]] else []) ++
        (if conv_nonempty ye then
           (if v =? 3 then [FText s_TYER 0 [ye]] else [FStamp s_TDRC 0 (map conv_stamp_parse (split_on 44 ye))])
         else []) ++
        (if conv_nonempty co then [FComm 0 s_eng s_v1comm_desc [co]] else []) ++
        (if negb (track =? 0) then [FText s_TRCK 0 [conv_dec track]] else []) ++
        (if negb (v1_genre G t =? 255) then [FText s_TCON 0 [conv_dec (v1_genre G t)]] else [])).
Proof.
  intro H. destruct (make_v1_layout G t b H) as (title & artist & album & track & year & H1 & H2 & H3 & H4 & H5 & Eb).
  exists title, artist, album, track, year. repeat (split; [assumption|]). cbv zeta.
  set (A1 := conv_field 30 (conv_latin1r title)) in *. set (A2 := conv_field 30 (conv_latin1r artist)) in *.
  set (A3 := conv_field 30 (conv_latin1r album)) in *. set (A4 := ztake 4 (year ++ [0;0;0;0])) in *.
  set (A5 := conv_field 29 (ztake 28 (conv_latin1r (v1_comment_text t)))) in *.
  destruct (v1_slices s_TAG A1 A2 A3 A4 A5 track (v1_genre G t)) as (L & S1 & S2 & S3 & S4 & S5 & S6 & S7);
    try reflexivity; try (apply field_len; lia); try apply year_field_len.
  rewrite <- Eb in *.
  assert (S8 : znth 125 b = 0).
  { assert (E : znth 125 b = znth 28 A5).
    { rewrite <- S5. unfold zslice. rewrite znth_ztake by lia. rewrite znth_zdrop by lia. reflexivity. }
    rewrite E. apply comment_field_last. pose proof (zlen_ztake_le 28 (conv_latin1r (v1_comment_text t))).
    destruct (Z.le_gt_cases 0 28); [rewrite zlen_ztake by lia; lia | lia]. }
  unfold conv_parse_id3v1. rewrite Eb at 1. rewrite find_tag_self. rewrite <- Eb. rewrite L.
  cbn [Z.ltb Z.compare Pos.compare Pos.compare_cont orb].
  replace (128 - 124) with 4 by reflexivity.
  replace (93 + 4) with 97 by reflexivity. replace (122 + 4) with 126 by reflexivity.
  replace (123 + 4) with 127 by reflexivity. replace (121 + 4) with 125 by reflexivity.
  rewrite S1, S2, S3, S4, S5, S6, S7, S8. rewrite Z.eqb_refl, orb_true_r, andb_true_r. reflexivity.
Qed.

(* the value comes back exactly when it fits, has no NUL and no white space at its ends *)
Lemma takewhile_app_all (p : Z -> bool) a b : forallb p a = true -> conv_takewhile p (a ++ b) = a ++ conv_takewhile p b.
Proof.
  induction a as [|x r IH]; intro H; [reflexivity|]. cbn in H. apply andb_true_iff in H. destruct H as [A B].
  cbn [app conv_takewhile]. rewrite A, IH by exact B. reflexivity.
Qed.
Lemma takewhile_zeros n : conv_takewhile (fun c => negb (c =? 0)) (zeros n) = [].
Proof. unfold zeros. destruct (Z.to_nat n); reflexivity. Qed.
Definition no_edge_space (y : list Z) : Prop :=
  match y with [] => True | c :: _ => conv_is_bspace c = false end /\
  match rev y with [] => True | c :: _ => conv_is_bspace c = false end.
Lemma blstrip_id y : match y with [] => True | c :: _ => conv_is_bspace c = false end -> conv_blstrip y = y.
Proof. destruct y as [|c r]; [reflexivity|]. intro H. cbn. rewrite H. reflexivity. Qed.
Theorem v1_fix_field n y : zlen y <= n -> forallb (fun c => negb (c =? 0)) y = true -> no_edge_space y ->
  conv_v1_fix (conv_field n y) = y.
Proof.
  intros L Z0 [E1 E2]. rewrite field_short by exact L. unfold conv_v1_fix.
  rewrite takewhile_app_all by exact Z0. rewrite takewhile_zeros, app_nil_r.
  rewrite (blstrip_id y E1). rewrite (blstrip_id (rev y) E2). apply rev_involutive.
Qed.

(* the comment is taken from some COMM frame whenever the tag has one *)
Lemma min_key_some best l : best <> None -> conv_min_key best l <> None.
Proof.
  revert best. induction l as [|f r IH]; intros best H; [exact H|]. cbn [conv_min_key].
  destruct (starts_with s_COMM_ (conv_key f)); [|apply IH; exact H].
  destruct best as [g|]; [|contradiction]. destruct (conv_text_ltb (conv_key f) (conv_key g)); apply IH; discriminate.
Qed.
Lemma min_key_in l f : In f l -> starts_with s_COMM_ (conv_key f) = true -> forall best, conv_min_key best l <> None.
Proof.
  induction l as [|g r IH]; intros Hin Hs best; [destruct Hin|]. destruct Hin as [->|Hin].
  - cbn [conv_min_key]. rewrite Hs. destruct best as [b|]; [destruct (conv_text_ltb (conv_key f) (conv_key b))|]; apply min_key_some; discriminate.
  - cbn [conv_min_key]. destruct (starts_with s_COMM_ (conv_key g)); [destruct best as [b|]; [destruct (conv_text_ltb (conv_key g) (conv_key b))|]|]; apply IH; assumption.
Qed.
Theorem v1_comment_found t e l d vals : In (FComm e l d vals) t -> conv_v1_comment_frame t <> None.
Proof.
  intro H. unfold conv_v1_comment_frame.
  destruct (conv_get s_COMM t); [discriminate|]. destruct (conv_get s_v1comm_key t); [discriminate|].
  apply (min_key_in t (FComm e l d vals) H). reflexivity.
Qed.
