(* Ogg family: C02, second half -- the packets of the edited stream before and after a save *)
From Coq Require Import ZArith List Bool Lia.
Import ListNotations.
Require Import Base.Py Base.ZList Gen.Gen_tags Model.Crc Model.Ogg Model.Fam_flac Model.Fam_ogg.
Require Import Proofs.C15_lacing Proofs.C15_page Proofs.C15_unpage Proofs.C15_paging Proofs.C15_from_packets Proofs.C15_file
  Proofs.C15_replace Proofs.Fam_ogg_scan Proofs.Fam_ogg_locate Proofs.Fam_ogg_replace Proofs.Fam_ogg_stream
  Proofs.Fam_ogg_newpages Proofs.Fam_ogg_preserve Proofs.Fam_ogg_lastpiece Proofs.Fam_ogg_inject Proofs.Fam_ogg_thms
  Proofs.Fam_ogg_packets.
Open Scope Z_scope.

Lemma walk_chain l : forall st seq o e, ogg_f_walk st seq o e l = true -> chain o l.
Proof.
  induction l as [|p r IH]; intros st seq o e H; [exact I|]. rewrite walk_cons in H. apply andb_true_iff in H as [H1 H2].
  unfold ogg_head_ok in H1. apply andb_true_iff in H1 as [H1 _]. apply andb_true_iff in H1 as [_ H1]. apply eqb_prop in H1.
  split; [exact H1|]. exact (IH _ _ _ _ H2).
Qed.

(* the walk of a stream A ++ M ++ T restricted to its parts *)
Lemma stream_parts A m0 mr T : ogg_f_stream_ok (A ++ (m0 :: mr) ++ T) = true ->
  chain (continued m0) (m0 :: mr) /\ chain (negb (p_complete (last (m0 :: mr) new_page))) T.
Proof.
  unfold ogg_f_stream_ok. intros H.
  assert (X : forall st seq o e, ogg_f_walk st seq o e ((m0 :: mr) ++ T) = true ->
              chain (continued m0) (m0 :: mr) /\ chain (negb (p_complete (last (m0 :: mr) new_page))) T).
  { intros st seq o e W. rewrite walk_app_ne in W by discriminate. apply andb_true_iff in W as [W1 W2].
    split; [|exact (walk_chain _ _ _ _ _ W2)]. pose proof (walk_chain _ _ _ _ _ W1) as C. destruct C as (C1 & C2).
    split; [reflexivity|exact C2]. }
  destruct A as [|a0 A']; [exact (X _ _ _ _ H)|].
  rewrite walk_app_ne in H by discriminate. apply andb_true_iff in H as [_ H]. exact (X _ _ _ _ H).
Qed.

Lemma wf_canonical l : Forall page_wf l -> Forall (fun p => canonicalb p = true) l.
Proof. intros H. eapply Forall_impl; [|exact H]. cbn beta. intros p (_ & _ & _ & C). exact C. Qed.

Lemma Forall_filter {A} (P : A -> Prop) f l : Forall P l -> Forall P (filter f l).
Proof.
  induction l as [|x r IH]; intros H; [constructor|]. inversion H; subst. cbn [filter]. destruct (f x); [constructor|]; auto.
Qed.

Lemma cp_renumber s l : forall n, map ogg_cp (renumber_pages s n l) = map ogg_cp l.
Proof.
  induction l as [|p r IH]; intros n; [reflexivity|]. cbn [renumber_pages]. destruct (p_serial p =? s); cbn [map]; rewrite IH; reflexivity.
Qed.

(* gluing the pages behind the run onto Y ++ rest *)
Lemma tail_glue Y rest T : (rest = [] -> chain false T) -> Forall (fun p => canonicalb p = true) T ->
  Ufrom (Y ++ rest) T = Y ++ Ufrom rest T.
Proof.
  intros Hc HW. destruct rest as [|r0 rest'].
  - rewrite app_nil_r. apply Ufrom_fresh; [apply Hc; reflexivity|exact HW].
  - apply Ufrom_prefix. discriminate.
Qed.

Theorem save_obj_packets f c t pad cb f' pages :
  ogg_parse f = Ok pages -> ogg_f_streams_ok pages = true ->
  ogg_save_obj f c t pad cb = Ok f' ->
  exists olds news k,
    cut_ok c t pad cb pages olds news k /\ ogg_parse f' = Ok (cut_result k news) /\
    filter (not_serial (cut_s k)) (cut_result k news) = filter (not_serial (cut_s k)) pages /\
    (continued (cut_old0 k) = false ->
     exists post,
       ogg_f_stream_packets (cut_s k) pages =
         ogg_f_unpage (filter (is_serial (cut_s k)) (cut_before k)) ++ [cut_p0 k] ++ post /\
       ogg_f_stream_packets (cut_s k) (cut_result k news) =
         ogg_f_unpage (filter (is_serial (cut_s k)) (cut_before k)) ++ [cut_d k] ++ post) /\
    ogg_f_inject c t pad cb f = Ok (olds, news).
Proof.
  intros Hp Hs H.
  destruct (save_obj_step f c t pad cb f' pages Hp Hs H) as (olds & news & k & K & P' & S' & O & V1 & V2 & NK & Wres & Inj).
  exists olds, news, k. split; [exact K|]. split; [exact P'|]. split; [exact O|]. split; [|exact Inj]. intros Hc.
  apply parse_iff in Hp as (Ef & W).
  destruct (cut_news_ok c t pad cb pages olds news k W K) as (_ & Wo & WG & Wb).
  pose proof K as (Ep & Eo & S1 & S2 & S3 & S4 & T & N & F).
  destruct (cut_olds k) as (mr & Eolds & Elast).
  set (s := cut_s k) in *. set (A := filter (is_serial s) (cut_before k)) in *.
  set (Tl := filter (is_serial s) (cut_gn k)) in *.
  (* the old stream *)
  assert (Hst : ogg_f_stream_ok (A ++ (cut_old0 k :: mr) ++ Tl) = true).
  { unfold ogg_f_streams_ok in Hs. rewrite forallb_forall in Hs.
    assert (Hin : In (cut_old0 k) pages).
    { rewrite Ep. apply in_or_app. right. unfold cut_old0. pose proof (cut_run_ne k).
      destruct (cut_run k) as [|[o G] r]; [contradiction|]. unfold old_pages_of. cbn [map concat fst snd hd app]. left. reflexivity. }
    pose proof (Hs _ Hin) as X. rewrite ogg_is_serial_eq in X. fold (cut_s k) in X. fold s in X. rewrite V1, Eolds in X. exact X. }
  destruct (stream_parts _ _ _ _ Hst) as (Ch1 & Ch2). rewrite Hc in Ch1. rewrite Elast in Ch2.
  assert (WTl : Forall (fun p => canonicalb p = true) Tl).
  { apply wf_canonical. unfold Tl. apply Forall_filter.
    unfold cut_run in WG. apply Forall_app in WG as [_ X]. inversion X as [|? ? Y _]. exact Y. }
  assert (Hrest : cut_rest k = [] -> chain false Tl).
  { intros Er. destruct (p_complete (cut_on k)) eqn:Cn; [exact Ch2|].
    pose proof (finished_open _ S4 Cn) as H1.
    assert (Emap : map fst (cut_run k) = map fst (cut_a k) ++ [cut_on k]) by (unfold cut_run; rewrite map_app; reflexivity).
    rewrite Emap in T. destruct (to_packets_last _ _ _ T H1) as (_ & L2). rewrite Er, zlen_cons, zlen_nil in L2. lia. }
  pose proof (to_packets_fold false _ _ T) as X0. cbn [negb andb] in X0. rewrite Eolds in X0. cbn [hd] in X0. rewrite Hc in X0.
  assert (Wolds : Forall (fun p => canonicalb p = true) (cut_old0 k :: mr)) by (apply wf_canonical; rewrite <- Eolds; exact Wo).
  exists (Ufrom (cut_rest k) Tl). rewrite unpage_is_Ufrom. fold s A. split.
  - unfold ogg_f_stream_packets. rewrite ogg_is_serial_eq, unpage_is_Ufrom. fold s. rewrite V1, Eolds. fold A Tl.
    rewrite !Ufrom_app. rewrite (Ufrom_fresh _ Ch1 Wolds (Ufrom [] A)), <- X0.
    change (cut_p0 k :: cut_rest k) with ([cut_p0 k] ++ cut_rest k). rewrite app_assoc.
    rewrite (tail_glue _ _ _ Hrest WTl), <- app_assoc. reflexivity.
  - unfold ogg_f_stream_packets. rewrite ogg_is_serial_eq, unpage_is_Ufrom. fold s. rewrite V2. fold A.
    rewrite !Ufrom_app.
    (* the pages behind the run: the same pages up to numbering *)
    assert (Etail : Ufrom (Ufrom (Ufrom [] A) (cut_prepared k news)) (filter (is_serial s) (cut_tail k news)) =
                    Ufrom (Ufrom (Ufrom [] A) (cut_prepared k news)) Tl).
    { apply Ufrom_ext. unfold cut_tail. destruct (zlen (cut_run k) =? zlen news); [reflexivity|].
      fold s. rewrite filter_renumber. apply cp_renumber. }
    rewrite Etail.
    (* the new stream walks, hence its middle part starts fresh too *)
    assert (Hst' : ogg_f_stream_ok (A ++ cut_prepared k news ++ filter (is_serial s) (cut_tail k news)) = true).
    { unfold ogg_f_streams_ok in S'. rewrite forallb_forall in S'.
      destruct NK as (Hne & _). pose proof (prepare_new_nonempty (cut_old0 k) (cut_on k) news Hne) as Hpn.
      fold (cut_prepared k news) in Hpn.
      assert (Hin : In (hd new_page (cut_prepared k news)) (cut_result k news)).
      { assert (In (hd new_page (cut_prepared k news)) (filter (is_serial s) (cut_result k news))).
        { rewrite V2. apply in_or_app. right. apply in_or_app. left. destruct (cut_prepared k news); [contradiction|left; reflexivity]. }
        apply filter_In in H0 as [H0 _]. exact H0. }
      pose proof (S' _ Hin) as X. rewrite ogg_is_serial_eq in X.
      assert (Es : p_serial (hd new_page (cut_prepared k news)) = s).
      { destruct (prepare_new_spec (cut_old0 k) (cut_on k) news Hne) as (_ & _ & P3 & _). fold (cut_prepared k news) in P3.
        destruct (cut_prepared k news); [contradiction|]. inversion P3. assumption. }
      rewrite Es, V2 in X. exact X. }
    destruct NK as (Hne & _).
    destruct (prepare_new_spec (cut_old0 k) (cut_on k) news Hne) as (_ & _ & _ & _ & P5 & _). fold (cut_prepared k news) in P5.
    pose proof (prepare_new_nonempty (cut_old0 k) (cut_on k) news Hne) as Hpn. fold (cut_prepared k news) in Hpn.
    destruct (cut_prepared k news) as [|n0 nr] eqn:Eprep; [contradiction|]. cbn [hd] in P5.
    destruct (stream_parts _ _ _ _ Hst') as (Ch1' & _). rewrite P5, Hc in Ch1'.
    assert (Wprep : Forall (fun p => canonicalb p = true) (n0 :: nr)).
    { apply wf_canonical.
      assert (X : Forall page_wf (filter (is_serial s) (cut_result k news))) by (apply Forall_filter; exact Wres).
      rewrite V2 in X. apply Forall_app in X as [_ X]. apply Forall_app in X as [X _]. exact X. }
    rewrite (Ufrom_fresh _ Ch1' Wprep (Ufrom [] A)).
    assert (Epk : Ufrom [] (n0 :: nr) = cut_d k :: cut_rest k).
    { rewrite <- Eprep. unfold cut_prepared.
      assert (Eh : cut_old0 k = hd new_page (map fst (cut_run k))) by (rewrite Eolds; reflexivity).
      rewrite Eh. apply (prepared_packets (map fst (cut_run k)) (cut_on k) news (cut_d k :: cut_rest k) (cut_p0 k :: cut_rest k) (p_sequence (cut_old0 k))).
      - rewrite Eolds. discriminate.
      - rewrite <- Eh. exact Hc.
      - exact T.
      - discriminate.
      - destruct c; [right|right|right|right|left]; exact F. }
    rewrite Epk. change (cut_d k :: cut_rest k) with ([cut_d k] ++ cut_rest k). rewrite app_assoc.
    rewrite (tail_glue _ _ _ Hrest WTl), <- app_assoc. reflexivity.
Qed.
