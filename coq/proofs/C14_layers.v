(* C14: the flag layers of Frame._fromData undo the layered encoding of the ID3v2.3 / v2.4 specification:
   the unsynchronisation scheme is removed first, the deflate stream is inflated second.  `inflate` /
   `deflate` are arbitrary functions with inflate (deflate b) = Ok b (Section variables). *)
From Coq Require Import ZArith List Bool Lia.
Import ListNotations.
Require Import Base.Py Base.ZList Model.Id3Util Model.C14_Layers Proofs.C14_tostr Proofs.C14_unsynch.
Open Scope Z_scope.

(* a prefix without 0xFF passes through the stuffing unchanged (the data length bytes are syncsafe) *)
Lemma enc_direct_prefix p s : Forall (fun b => b <> 0xFF) p -> enc_direct (p ++ s) = p ++ enc_direct s.
Proof.
  induction 1 as [|b p Hb _ IH]; [reflexivity|].
  cbn [app enc_direct]. destruct (b =? 0xFF) eqn:E; [apply Z.eqb_eq in E; contradiction|].
  now rewrite IH.
Qed.

Lemma unsynch_encode_prefix p s : Forall (fun b => b <> 0xFF) p ->
  unsynch_encode (p ++ s) = p ++ unsynch_encode s.
Proof. intros H. rewrite !unsynch_encode_direct. now apply enc_direct_prefix. Qed.

Lemma decode_or_keep_encode s : unsynch_decode_or_keep (unsynch_encode s) = Ok s.
Proof. unfold unsynch_decode_or_keep. now rewrite unsynch_roundtrip. Qed.

Lemma take4_app (p s : list Z) : length p = 4%nat -> ztake 4 (p ++ s) = p.
Proof.
  intros H. unfold ztake. change (Z.to_nat 4) with 4%nat. rewrite <- H.
  rewrite firstn_app, Nat.sub_diag, firstn_all. cbn [firstn]. apply app_nil_r.
Qed.

Lemma drop4_app (p s : list Z) : length p = 4%nat -> zdrop 4 (p ++ s) = s.
Proof.
  intros H. unfold zdrop. change (Z.to_nat 4) with 4%nat. rewrite <- H.
  rewrite skipn_app, Nat.sub_diag, skipn_all. reflexivity.
Qed.

Section Layers.
Variable inflate : list Z -> result (list Z).
Variable deflate : list Z -> list Z.
Hypothesis inflate_deflate : forall b, inflate (deflate b) = Ok b.

(* v2.4, every combination of tag-level flag, frame flag, compression and data length indicator *)
Lemma from_data_v24_inverts tag_unsynch frame_unsynch compress datalen dl4 body :
  length dl4 = 4%nat -> Forall (fun b => b <> 0xFF) dl4 ->
  from_data_v24 inflate tag_unsynch (tflags_v24 frame_unsynch compress datalen)
    (enc_v24 deflate (frame_unsynch || tag_unsynch) compress datalen dl4 body) = Ok body.
Proof.
  intros H4 Hff.
  unfold from_data_v24, enc_v24.
  destruct tag_unsynch, frame_unsynch, compress, datalen;
    cbn -[unsynch_encode unsynch_decode_or_keep ztake zdrop];
    rewrite ?(unsynch_encode_prefix dl4) by exact Hff;
    rewrite ?drop4_app by exact H4;
    rewrite ?decode_or_keep_encode;
    cbn -[unsynch_encode unsynch_decode_or_keep ztake zdrop];
    rewrite ?inflate_deflate; reflexivity.
Qed.

(* the data length bytes the writer must emit: to_str(len(body), bits=7, width=4) *)
Lemma from_data_v24_syncsafe tag_unsynch frame_unsynch compress datalen dl4 body :
  zlen body < 2 ^ 28 -> to_str (zlen body) 7 true 4 4 = Ok dl4 ->
  from_data_v24 inflate tag_unsynch (tflags_v24 frame_unsynch compress datalen)
    (enc_v24 deflate (frame_unsynch || tag_unsynch) compress datalen dl4 body) = Ok body.
Proof.
  intros Hlt Hts.
  pose proof (zlen_nonneg body) as Hn.
  assert (Hr : 0 <= zlen body < 2 ^ (7 * 4)) by (change (2 ^ (7 * 4)) with (2 ^ 28); lia).
  pose proof (to_str_fixed_ok 7 true 4 4 (zlen body) ltac:(lia) ltac:(lia) Hr) as P. cbv zeta in P.
  destruct P as (E & Hlen & Hall & _).
  revert E Hlen Hall. generalize (endian true (C14_digits.le_digits (Z.to_nat 4) 7 (zlen body))).
  intros bs E Hlen Hall. rewrite Hts in E. injection E as E. subst bs.
  apply from_data_v24_inverts.
  - unfold zlen in Hlen. lia.
  - eapply Forall_impl; [|exact Hall]. cbn beta. intros a Ha. change (2 ^ 7) with 128 in Ha. lia.
Qed.

(* v2.3: compressed frame inside a tag, whole tag body unsynchronised or not *)
Lemma from_data_v23_inverts (compress : bool) (sz4 body : list Z) :
  length sz4 = 4%nat ->
  from_data_v23 inflate (if compress then FLAG23_COMPRESS else 0) (enc_v23 deflate compress sz4 body) = Ok body.
Proof.
  intros H4. unfold from_data_v23, enc_v23. destruct compress; cbn -[zdrop zlen Z.ltb].
  - replace (zlen (sz4 ++ deflate body) <? 4) with false.
    + rewrite drop4_app by exact H4. now rewrite inflate_deflate.
    + symmetry. apply Z.ltb_ge. unfold zlen. rewrite app_length. lia.
  - reflexivity.
Qed.

Lemma tag_body_v23_inverts (f_unsynch : bool) (tagbody : list Z) :
  tag_body_v23 f_unsynch (if f_unsynch then unsynch_encode tagbody else tagbody) = Ok tagbody.
Proof. destruct f_unsynch; [apply decode_or_keep_encode | reflexivity]. Qed.

End Layers.

(* v2.2 (and v2.3 again, through the version test of read_frames): whole-tag unsynchronisation *)
Lemma read_frames_head_inverts (major : Z) (f_unsynch : bool) (tagbody : list Z) : major < 4 ->
  read_frames_head major f_unsynch (if f_unsynch then unsynch_encode tagbody else tagbody) = Ok tagbody.
Proof.
  intros H. unfold read_frames_head. replace (major <? 4) with true by (symmetry; apply Z.ltb_lt; exact H).
  destruct f_unsynch; [apply decode_or_keep_encode | reflexivity].
Qed.

Lemma read_frames_head_v24 (f_unsynch : bool) (data : list Z) : read_frames_head 4 f_unsynch data = Ok data.
Proof. reflexivity. Qed.

(* the order matters: with the two steps swapped (inflate first, destuff second) a concrete frame is lost.
   inflate = reverse the bytes (any non-trivial bijection will do). *)
Definition swapped_v24 (inflate : list Z -> result (list Z)) (data : list Z) : result (list Z) :=
  rbind (inflate (zdrop 4 data)) unsynch_decode_or_keep.

Lemma swapped_order_refuted :
  exists body,
    from_data_v24 (fun l => Ok (rev l)) false (tflags_v24 true true true)
      (enc_v24 (@rev Z) true true true [0;0;0;2] body) = Ok body /\
    swapped_v24 (fun l => Ok (rev l)) (enc_v24 (@rev Z) true true true [0;0;0;2] body) <> Ok body.
Proof. exists [0; 0xFF]. split; [vm_compute; reflexivity | vm_compute; discriminate]. Qed.
