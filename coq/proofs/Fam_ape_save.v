(* APEv2 family: what save and delete do to a well-formed file, and what the strict reader makes of the result.
     save_spec    ape_save f items   = pbody ++ render_tag items      (the trailer after the old tag is dropped)
     delete_spec  ape_delete f       = pbody ++ ptrailer
     parse_tagged the strict reader on body ++ tag: body | items in file order | no trailer
   and from these the one-step facts behind C01 C02 C03 C07 C08 and their lifting to operation histories. *)
From Coq Require Import ZArith List Bool Lia Permutation.
Import ListNotations.
Require Import Base.Py Base.ZList Model.Sort Model.Splice Model.Fam_ape
  Proofs.SortPerm Proofs.Fam_ape_codec Proofs.Fam_ape_locate.
Open Scope Z_scope.

(* ------------------------------------------------------------------ well-formedness unpacked *)
Lemma wf_inv f : ape_wf f = true ->
  exists s, ape_parse f = Ok s /\ has_marker (pbody s ++ ptrailer s) = false.
Proof.
  unfold ape_wf. destruct (ape_parse f) as [s|]; [|discriminate]. intros H.
  exists s. split; [reflexivity|]. destruct (has_marker _); [discriminate|reflexivity].
Qed.

(* mutagen's locator on a well-formed file agrees with the strict reader *)
Theorem locate_wf real f s : ape_wf f = true -> ape_parse f = Ok s ->
  match ptag s with
  | None => ape_locate real f = Ok None /\ pbody s = f /\ ptrailer s = []
  | Some _ => exists l, ape_locate real f = Ok (Some l) /\ l_at_start l = false /\
                0 <= l_start l /\ l_start l <= l_end l /\ l_end l <= zlen f /\
                pbody s = ztake (l_start l) f /\ ptrailer s = zdrop (l_end l) f
  end.
Proof.
  intros Hwf Hp. destruct (wf_inv f Hwf) as (s' & Hp' & Hm). rewrite Hp in Hp'. injection Hp' as <-.
  destruct (parse_inv f s Hp) as [[SE ->]|(e & its & SE & Hsz & Hst & -> & _)].
  - cbn [ptag pbody ptrailer] in *. rewrite app_nil_r in Hm. split; [apply locate_none; exact Hm|]. split; reflexivity.
  - cbn [ptag pbody ptrailer] in *. destruct (no_marker_app _ _ Hm) as [Hm1 _].
    destruct (strict_end_inv f e SE) as (He & _ & _).
    assert (Hle : tag_start f e <= e - 32) by (unfold tag_start; destruct (ft_hashdr f e); lia).
    destruct (locate_tagged real f e SE Hsz Hst Hm1) as (l & Hl & L1 & L2 & L3 & _).
    exists l. rewrite L1, L2. repeat split; auto; lia.
Qed.

(* the file-object flavour is irrelevant on a well-formed file *)
Theorem locate_flavour_wf f : ape_wf f = true -> ape_locate true f = ape_locate false f.
Proof.
  intros Hwf. destruct (wf_inv f Hwf) as (s & Hp & Hm).
  destruct (parse_inv f s Hp) as [[SE ->]|(e & its & SE & Hsz & Hst & -> & _)]; cbn [pbody ptrailer] in Hm.
  - rewrite app_nil_r in Hm. rewrite !locate_none by exact Hm. reflexivity.
  - destruct (no_marker_app _ _ Hm) as [Hm1 _]. rewrite !(locate_tagged_eq _ f e SE Hsz Hst Hm1). reflexivity.
Qed.

Lemma splice_end base tag : splice base (zlen base) 0 tag = base ++ tag.
Proof.
  unfold splice. rewrite ztake_all by lia. rewrite zdrop_all by lia. rewrite app_nil_r. reflexivity.
Qed.

Theorem save_spec real f s items : ape_wf f = true -> ape_parse f = Ok s ->
  ape_save real f items = if tag_fits items then Ok (pbody s ++ ape_render_tag items) else Raise EStruct.
Proof.
  intros Hwf Hp. pose proof (locate_wf real f s Hwf Hp) as H. unfold ape_save.
  destruct (ptag s) as [its0|].
  - destruct H as (l & Hl & Hat & _ & _ & _ & Hb & _). rewrite Hl, Hat, <- Hb, splice_end. reflexivity.
  - destruct H as (Hl & Hb & _). rewrite Hl, splice_end, Hb. reflexivity.
Qed.

Theorem delete_spec real f s : ape_wf f = true -> ape_parse f = Ok s ->
  ape_delete real f = Ok (pbody s ++ ptrailer s).
Proof.
  intros Hwf Hp. pose proof (locate_wf real f s Hwf Hp) as H. unfold ape_delete.
  destruct (ptag s) as [its0|].
  - destruct H as (l & Hl & _ & H0 & H1 & H2 & Hb & Ht). rewrite Hl. unfold del_region.
    destruct ((l_end l - l_start l <? 0) || (l_start l <? 0)) eqn:C1; [lia|].
    destruct (zlen f - l_start l - (l_end l - l_start l) <? 0) eqn:C2; [lia|].
    replace (l_start l + (l_end l - l_start l)) with (l_end l) by lia. rewrite Hb, Ht. reflexivity.
  - destruct H as (Hl & Hb & Ht). rewrite Hl, Hb, Ht, app_nil_r. reflexivity.
Qed.

(* module-level delete either leaves the file alone (no tag / empty tag) or is APEv2.delete *)
Lemma moddelete_cases real f r : ape_moddelete real f = Ok r -> r = f \/ ape_delete real f = Ok r.
Proof.
  unfold ape_moddelete. destruct (ape_mut_load real f) as [[its|]|]; intros H; try discriminate.
  - right; exact H.
  - left; congruence.
Qed.

(* ------------------------------------------------------------------ the strict reader on body ++ tag *)
Definition tag_bytes (ver : Z) (its : list item) : list Z :=
  let b := flat_map render_item its in
  ape_hdr ver (zlen b + 32) (zlen its) (HAS_HEADER + IS_HEADER) ++ b ++ ape_hdr ver (zlen b + 32) (zlen its) HAS_HEADER.

Lemma render_tag_bytes items : ape_render_tag items = tag_bytes 2000 (sort_items items).
Proof.
  unfold ape_render_tag, tag_bytes. cbv zeta. rewrite render_body_sorted, zlen_sort_items. reflexivity.
Qed.

Lemma zlen_render_item it : zlen (render_item it) = 9 + zlen (ikey it) + zlen (ivalue it).
Proof. unfold render_item. rewrite !zlen_app, !zlen_le_encode, zlen_cons, zlen_nil. lia. Qed.
Lemma zlen_flat_render its : zlen its <= zlen (flat_map render_item its).
Proof.
  induction its as [|it its IH]; cbn [flat_map]; [unfold zlen; cbn; lia|].
  rewrite zlen_app, zlen_cons, zlen_render_item.
  pose proof (zlen_nonneg (ikey it)). pose proof (zlen_nonneg (ivalue it)). lia.
Qed.

Definition its_fit (its : list item) : bool :=
  forallb item_fits its && (zlen (flat_map render_item its) + 32 <? W32) && (zlen its <? W32).
Lemma tag_fits_sorted items : tag_fits items = its_fit (sort_items items).
Proof.
  unfold tag_fits, its_fit. rewrite render_body_sorted, sort_items_forallb, zlen_sort_items. reflexivity.
Qed.

Theorem parse_tag_bytes body ver its :
  forallb item_valid its = true -> its_fit its = true ->
  ape_parse (body ++ tag_bytes ver its) = Ok (mkS body (Some its) true []).
Proof.
  intros Hv Hf. unfold its_fit in Hf. apply andb_true_iff in Hf as [Hf Hf3]. apply andb_true_iff in Hf as [Hf1 Hf2].
  set (B := flat_map render_item its) in *.
  set (H := ape_hdr ver (zlen B + 32) (zlen its) (HAS_HEADER + IS_HEADER)).
  set (F := ape_hdr ver (zlen B + 32) (zlen its) HAS_HEADER).
  pose proof (zlen_nonneg body) as Nb. pose proof (zlen_nonneg B) as NB. pose proof (zlen_nonneg its) as Ni.
  pose proof (zlen_flat_render its) as Hcnt. fold B in Hcnt.
  assert (EH : zlen H = 32) by reflexivity. assert (EF : zlen F = 32) by reflexivity.
  set (f := body ++ tag_bytes ver its).
  assert (Ef1 : f = body ++ (H ++ (B ++ F))) by reflexivity.
  assert (Ef2 : f = (body ++ H) ++ (B ++ F)) by (rewrite Ef1, app_assoc; reflexivity).
  assert (Ef3 : f = (body ++ H ++ B) ++ (F ++ [])).
  { rewrite Ef1, app_nil_r, <- !app_assoc. reflexivity. }
  assert (En : zlen f = zlen body + 64 + zlen B).
  { rewrite Ef1, !zlen_app. lia. }
  assert (EX : zlen (body ++ H ++ B) = zlen f - 32) by (rewrite !zlen_app; lia).
  (* reads inside the footer *)
  assert (RF : forall k m, 0 <= k -> rd f (zlen f - 32 + k) m = rd (F ++ []) k m).
  { intros k m Hk. rewrite Ef3 at 1. rewrite <- EX. apply rd_at. exact Hk. }
  assert (RH : forall k m, 0 <= k -> rd f (zlen body + k) m = rd (H ++ B ++ F) k m).
  { intros k m Hk. rewrite Ef1. apply rd_at. exact Hk. }
  assert (SE : strict_end f = Some (zlen f)).
  { unfold strict_end. cbv zeta. unfold is_marker at 1.
    replace (zlen f - 32) with (zlen f - 32 + 0) by lia. rewrite RF by lia. unfold F at 1. rewrite hdr_marker.
    destruct (32 <=? zlen f) eqn:E; [reflexivity|lia]. }
  unfold ape_parse. rewrite SE. cbv zeta.
  rewrite !RF by lia.
  assert (F12 : rd (F ++ []) 12 4 = le_encode 4 (zlen B + 32)) by reflexivity.
  assert (F16 : rd (F ++ []) 16 4 = le_encode 4 (zlen its)) by reflexivity.
  assert (F20 : rd (F ++ []) 20 4 = le_encode 4 HAS_HEADER) by reflexivity.
  assert (F8 : rd (F ++ []) 8 12 = le_encode 4 ver ++ le_encode 4 (zlen B + 32) ++ le_encode 4 (zlen its)) by reflexivity.
  rewrite F12, F16, F20, F8.
  rewrite !le32_round by (unfold W32, HAS_HEADER in *; lia).
  destruct (zlen B + 32 <? 32) eqn:C1; [lia|].
  change (negb (Z.land HAS_HEADER HAS_HEADER =? 0)) with true. cbv iota.
  replace (zlen f - (zlen B + 32) - 32) with (zlen body + 0) by lia.
  destruct (zlen body + 0 <? 0) eqn:C2; [lia|].
  change (negb (Z.land HAS_HEADER IS_HEADER =? 0)) with false. cbv iota.
  unfold is_marker. rewrite RH by lia.
  replace (zlen body + 0 + 8) with (zlen body + 8) by lia. replace (zlen body + 0 + 20) with (zlen body + 20) by lia.
  rewrite !RH by lia.
  assert (H0 : rd (H ++ B ++ F) 0 8 = APETAGEX) by reflexivity.
  assert (H8 : rd (H ++ B ++ F) 8 12 = le_encode 4 ver ++ le_encode 4 (zlen B + 32) ++ le_encode 4 (zlen its)) by reflexivity.
  assert (H20 : rd (H ++ B ++ F) 20 4 = le_encode 4 (HAS_HEADER + IS_HEADER)) by reflexivity.
  rewrite H0, H8, H20.
  rewrite le32_round by (unfold W32, HAS_HEADER, IS_HEADER; lia).
  assert (L1 : list_eqb APETAGEX APETAGEX = true) by reflexivity. rewrite L1.
  assert (L2 : forall l, list_eqb l l = true) by (intros l; apply list_eqb_spec; reflexivity). rewrite L2.
  rewrite Z.eqb_refl. cbn [andb negb]. cbv iota.
  destruct (zlen B + 32 - 32 <? zlen its) eqn:C3; [lia|].
  replace (zlen f - (zlen B + 32)) with (zlen (body ++ H) + 0) by (rewrite zlen_app; lia).
  rewrite Ef2 at 1. rewrite rd_at by lia. replace (zlen B + 32 - 32) with (zlen B) by lia. rewrite rd_prefix.
  replace (Z.to_nat (zlen its)) with (length its) by (unfold zlen; lia).
  rewrite <- (app_nil_r B). unfold B. rewrite ape_items_render by assumption.
  replace (zlen body + 0) with (zlen body) by lia.
  rewrite zdrop_all by lia. rewrite Ef1, ztake_app_exact. reflexivity.
Qed.

Theorem parse_rendered body items :
  forallb item_valid items = true -> tag_fits items = true ->
  ape_parse (body ++ ape_render_tag items) = Ok (mkS body (Some (sort_items items)) true []).
Proof.
  intros Hv Hf. rewrite render_tag_bytes. apply parse_tag_bytes.
  - rewrite sort_items_forallb. exact Hv.
  - rewrite <- tag_fits_sorted. exact Hf.
Qed.
