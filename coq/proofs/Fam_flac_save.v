(* FLAC family: what flac_save_obj / flac_save / flac_delete compute on a well-formed file, as an explicit layout
   prefix ++ "fLaC" ++ blocks ++ audio, and the block-list algebra (set_vc, nonpad, foreign_blocks) behind the
   property theorems. *)
From Coq Require Import ZArith List Bool Lia.
Import ListNotations.
Require Import Base.Py Base.ZList Gen.Gen_tags Model.Splice Model.Fam_flac Proofs.Fam_flac_codec Proofs.Fam_flac_walk.
Open Scope Z_scope.
Ltac Zify.zify_post_hook ::= Z.to_euclidean_division_equations.

Definition layout (p : list Z) (bs : list block) (a : list Z) : list Z := p ++ MAGIC ++ render_blocks bs ++ a.
Definition size_ok (b : block) : Prop := zlen (bdata b) <= MAXSZ.
Definition ovf_none (b : block) : Prop := bovf b = -1.
Definition code_ok (b : block) : Prop := 0 <= bcode b < 127.

Lemma block_small_iff b : block_small b <-> code_ok b /\ size_ok b /\ ovf_none b.
Proof. unfold block_small, code_ok, size_ok, ovf_none. tauto. Qed.

Lemma Forall_filter {A} (P : A -> Prop) f (l : list A) : Forall P l -> Forall P (filter f l).
Proof. induction 1; cbn [filter]; [constructor|]. destruct (f x); [constructor|]; assumption. Qed.

(* ------------------------------------------------------------------ the writer *)
Lemma zlen_zeros_max n : zlen (zeros n) = Z.max 0 n.
Proof.
  destruct (Z.le_gt_cases 0 n); [rewrite zlen_zeros by lia; lia|].
  rewrite zeros_neg by lia. rewrite zlen_nil. lia.
Qed.
Lemma zeros_max n : zeros (Z.max 0 n) = zeros n.
Proof. unfold zeros. f_equal. lia. Qed.

Lemma wsize_ovf_none b : ovf_none b -> wsize b = if zlen (bdata b) >? MAXSZ then Raise EMutagen else Ok (zlen (bdata b)).
Proof.
  unfold wsize, ovf_none. intros H. rewrite H. cbn [Z.eqb negb]. rewrite andb_false_r. reflexivity.
Qed.
Lemma write_block_ok b last : ovf_none b -> size_ok b -> write_block b last = Ok (render_block b last).
Proof.
  intros Ho Hs. unfold write_block. rewrite wsize_ovf_none by exact Ho. unfold size_ok in Hs.
  replace (zlen (bdata b) >? MAXSZ) with false by lia. reflexivity.
Qed.
Lemma write_block_inv b last d : ovf_none b -> write_block b last = Ok d -> size_ok b /\ d = render_block b last.
Proof.
  intros Ho. unfold write_block. rewrite wsize_ovf_none by exact Ho. unfold size_ok.
  destruct (zlen (bdata b) >? MAXSZ) eqn:E; [discriminate|]. intros H; inversion H. split; [lia|reflexivity].
Qed.

Lemma write_nonpad_inv bs : forall d, Forall ovf_none bs -> write_nonpad bs = Ok d ->
  Forall size_ok (nonpad bs) /\ d = flat_map (fun b => render_block b false) (nonpad bs).
Proof.
  induction bs as [|b bs IH]; intros d Ho H; cbn [write_nonpad nonpad filter] in *.
  - inversion H. split; [constructor|reflexivity].
  - inversion Ho as [|? ? Hob Hor]; subst. fold (nonpad bs).
    destruct (is_pad b) eqn:Ep; cbn [negb].
    + apply IH; assumption.
    + destruct (write_block b false) as [d1|] eqn:Ew; [|discriminate].
      destruct (write_nonpad bs) as [d2|] eqn:Er; [|discriminate]. inversion H; subst d.
      destruct (write_block_inv _ _ _ Hob Ew) as [Hs Hd1]. destruct (IH d2 Hor eq_refl) as [Hs2 Hd2].
      split; [constructor; assumption|]. cbn [flat_map]. rewrite Hd1, Hd2. reflexivity.
Qed.
Lemma write_nonpad_ok bs : Forall ovf_none bs -> Forall size_ok (nonpad bs) ->
  write_nonpad bs = Ok (flat_map (fun b => render_block b false) (nonpad bs)).
Proof.
  induction bs as [|b bs IH]; intros Ho Hs; cbn [write_nonpad nonpad filter] in *; [reflexivity|].
  inversion Ho as [|? ? Hob Hor]; subst. fold (nonpad bs) in *.
  destruct (is_pad b) eqn:Ep; cbn [negb] in *.
  - apply IH; assumption.
  - inversion Hs as [|? ? Hsb Hsr]; subst. rewrite write_block_ok by assumption. rewrite IH by assumption. reflexivity.
Qed.

Lemma pad_block_small n : n <= MAXSZ -> block_small (pad_block n).
Proof.
  intros H. unfold block_small, pad_block. cbn [bcode bdata bovf]. rewrite zlen_zeros_max. unfold MAXSZ in *. lia.
Qed.

(* ------------------------------------------------------------------ slicing a layout *)
Lemma drop_header p X : zdrop (zlen p + 4) (p ++ MAGIC ++ X) = X.
Proof.
  pose proof (zlen_nonneg p). rewrite zdrop_app_r by lia. replace (zlen p + 4 - zlen p) with (zlen MAGIC) by (rewrite zlen_MAGIC; lia).
  apply zdrop_app_exact.
Qed.
Lemma take_header p X : ztake (zlen p + 4) (p ++ MAGIC ++ X) = p ++ MAGIC.
Proof.
  rewrite app_assoc. replace (zlen p + 4) with (zlen (p ++ MAGIC)) by (rewrite zlen_app, zlen_MAGIC; lia).
  apply ztake_app_exact.
Qed.
Lemma zlen_layout p bs a : zlen (layout p bs a) = zlen p + 4 + blocks_extent bs + zlen a.
Proof. unfold layout. rewrite !zlen_app, zlen_MAGIC, zlen_render_blocks. lia. Qed.

(* what mutagen's readers see in a well-formed layout *)
Section Layout.
Variables (p : list Z) (bs : list block) (a : list Z).
Hypothesis Hp : prefix_ok p.
Hypothesis Hne : bs <> [].
Hypothesis Hsm : Forall block_small bs.
Hypothesis Hok : forallb block_ok bs = true.
Let f := layout p bs a.

Lemma layout_header : mut_check_header f = Ok (zlen p + 4).
Proof. apply (Hp (render_blocks bs ++ a)). Qed.

Lemma layout_walk : mut_walk (S (length f)) (zdrop (zlen p + 4) f) = Ok (bs, a).
Proof.
  unfold f, layout. rewrite drop_header. apply mut_walk_render; try assumption.
  rewrite !app_length. pose proof (blocks_extent_ge bs) as Hg. rewrite <- zlen_render_blocks in Hg.
  unfold zlen in Hg. lia.
Qed.

Lemma layout_audio_offset : mut_audio_offset f (zlen p + 4) = Ok (zlen p + 4 + blocks_extent bs).
Proof.
  unfold mut_audio_offset. rewrite layout_walk. f_equal. unfold f. rewrite zlen_layout. lia.
Qed.

(* FLAC._save on a well-formed file without deleteid3 *)
Lemma save_obj_eq bs0 t o : o_deleteid3 o = false ->
  flac_save_obj f bs0 t o =
  match (match t with
         | None => Ok bs0
         | Some t => match vc_write t with Ok d => Ok (set_vc bs0 d) | Raise e => Raise e end end) with
  | Raise e => Raise e
  | Ok bs1 =>
    match writeblocks bs1 (blocks_extent bs) (zlen a) (o_cb o) with
    | Raise e => Raise e
    | Ok data => Ok (p ++ MAGIC ++ data ++ a)
    end
  end.
Proof.
  intros Hd. unfold flac_save_obj. rewrite layout_header, layout_audio_offset, Hd. cbn [andb].
  replace (zlen p + 4 + blocks_extent bs - (zlen p + 4)) with (blocks_extent bs) by lia.
  replace (zlen f - (zlen p + 4 + blocks_extent bs)) with (zlen a) by (unfold f; rewrite zlen_layout; lia).
  destruct (match t with
            | None => Ok bs0
            | Some t0 => match vc_write t0 with Ok d => Ok (set_vc bs0 d) | Raise e => Raise e end end) as [bs1|]; [|reflexivity].
  destruct (writeblocks bs1 (blocks_extent bs) (zlen a) (o_cb o)) as [data|]; [|reflexivity].
  f_equal. pose proof (zlen_nonneg p) as Hpn.
  assert (Hs : splice f (zlen p + 4) (blocks_extent bs) data = (p ++ MAGIC) ++ data ++ a).
  { unfold splice. unfold f, layout at 1. rewrite take_header. f_equal. f_equal.
    unfold layout. rewrite !app_assoc.
    replace (zlen p + 4 + blocks_extent bs) with (zlen ((p ++ MAGIC) ++ render_blocks bs))
      by (rewrite !zlen_app, zlen_MAGIC, zlen_render_blocks; lia).
    apply zdrop_app_exact. }
  rewrite Hs. unfold patch. replace (zlen p + 4 - 4) with (zlen p) by lia.
  rewrite <- app_assoc. rewrite ztake_app_exact. rewrite zlen_MAGIC, drop_header. reflexivity.
Qed.
End Layout.

(* ------------------------------------------------------------------ block-list algebra *)
Lemma nonpad_app a b : nonpad (a ++ b) = nonpad a ++ nonpad b.
Proof. apply filter_app. Qed.
Lemma nonpad_idem l : nonpad (nonpad l) = nonpad l.
Proof.
  unfold nonpad. induction l as [|b l IH]; cbn [filter]; [reflexivity|].
  destruct (negb (is_pad b)) eqn:E; cbn [filter]; [rewrite E, IH; reflexivity|exact IH].
Qed.
Lemma nonpad_pad_block n : nonpad [pad_block n] = [].
Proof. reflexivity. Qed.
Lemma foreign_app a b : foreign_blocks (a ++ b) = foreign_blocks a ++ foreign_blocks b.
Proof. apply filter_app. Qed.
Lemma foreign_pad_block n : foreign_blocks [pad_block n] = [].
Proof. reflexivity. Qed.
Lemma foreign_nonpad l : foreign_blocks (nonpad l) = foreign_blocks l.
Proof.
  unfold foreign_blocks, nonpad. induction l as [|b l IH]; cbn [filter]; [reflexivity|].
  destruct (is_pad b) eqn:E; cbn [negb filter]; rewrite ?E, ?andb_false_r; cbn [negb]; rewrite IH; reflexivity.
Qed.
Lemma vcb_not_pad b : is_vcb b = true -> is_pad b = false.
Proof. unfold is_vcb, is_pad. lia. Qed.
Lemma is_vcb_mk d o : is_vcb (mkB 4 d o) = true. Proof. reflexivity. Qed.
Lemma is_pad_mk d o : is_pad (mkB 4 d o) = false. Proof. reflexivity. Qed.
Lemma foreign_set_vc l d : foreign_blocks (set_vc l d) = foreign_blocks l.
Proof.
  unfold foreign_blocks. induction l as [|b l IH]; cbn [set_vc filter]; [reflexivity|].
  destruct (is_vcb b) eqn:E; cbn [filter].
  - rewrite is_vcb_mk, ?E. reflexivity.
  - rewrite ?E, IH. reflexivity.
Qed.
Lemma nonpad_novc l : nonpad (filter (fun b => negb (is_vcb b)) l) = foreign_blocks l.
Proof.
  unfold foreign_blocks, nonpad. induction l as [|b l IH]; cbn [filter]; [reflexivity|].
  destruct (is_vcb b) eqn:E; cbn [negb andb filter]; [exact IH|].
  destruct (is_pad b); cbn [negb]; rewrite IH; reflexivity.
Qed.
Lemma foreign_no_vc l : existsb is_vcb (foreign_blocks l) = false.
Proof.
  unfold foreign_blocks. induction l as [|b l IH]; cbn [filter existsb]; [reflexivity|].
  destruct (is_vcb b) eqn:E; cbn [negb andb]; [exact IH|].
  destruct (is_pad b); cbn [negb existsb]; rewrite ?E, IH; reflexivity.
Qed.
Lemma foreign_nonpad_id l : nonpad (foreign_blocks l) = foreign_blocks l.
Proof.
  unfold foreign_blocks, nonpad. induction l as [|b l IH]; cbn [filter]; [reflexivity|].
  destruct (negb (is_vcb b) && negb (is_pad b)) eqn:E; cbn [filter]; [|exact IH].
  apply andb_true_iff in E as [_ E]. rewrite E, IH. reflexivity.
Qed.

(* saving the same tags again finds them where they are *)
Lemma set_vc_fix bs d Y : set_vc (nonpad (set_vc bs d) ++ Y) d = nonpad (set_vc bs d) ++ Y.
Proof.
  unfold nonpad. induction bs as [|b bs IH]; cbn [set_vc filter].
  - reflexivity.
  - destruct (is_vcb b) eqn:E.
    + cbn [filter]. rewrite is_pad_mk. cbn [negb app set_vc]. rewrite is_vcb_mk. reflexivity.
    + cbn [filter]. destruct (is_pad b) eqn:Ep; cbn [negb]; [exact IH|].
      cbn [app set_vc]. rewrite ?E, IH. reflexivity.
Qed.
Lemma find_set_vc bs d Y : exists o, find is_vcb (nonpad (set_vc bs d) ++ Y) = Some (mkB 4 d o).
Proof.
  unfold nonpad. induction bs as [|b bs IH]; cbn [set_vc filter].
  - exists (-1). reflexivity.
  - destruct (is_vcb b) eqn:E.
    + exists (bovf b). cbn [filter]. rewrite is_pad_mk. cbn [negb app find]. rewrite is_vcb_mk. reflexivity.
    + cbn [filter]. destruct (is_pad b) eqn:Ep; cbn [negb]; [exact IH|].
      cbn [app find]. rewrite ?E. exact IH.
Qed.
Lemma find_foreign_none l Y : existsb is_vcb Y = false -> find is_vcb (foreign_blocks l ++ Y) = None.
Proof.
  intros HY. pose proof (foreign_no_vc l) as H. revert H. generalize (foreign_blocks l) as m.
  induction m as [|b m IH]; cbn [app find existsb]; intros H.
  - induction Y as [|y Y IHY]; cbn [find existsb] in *; [reflexivity|].
    apply orb_false_iff in HY as [H1 H2]. rewrite H1. apply IHY. exact H2.
  - apply orb_false_iff in H as [H1 H2]. rewrite H1. apply IH. exact H2.
Qed.

Lemma Forall_set_vc (P : block -> Prop) bs d :
  Forall P bs -> (forall o, (o = -1 \/ exists b, In b bs /\ o = bovf b) -> P (mkB 4 d o)) -> Forall P (set_vc bs d).
Proof.
  induction bs as [|b bs IH]; intros H Hn; cbn [set_vc].
  - constructor; [apply Hn; left; reflexivity|constructor].
  - inversion H as [|? ? Hb Hr]; subst. destruct (is_vcb b).
    + constructor; [apply Hn; right; exists b; split; [left; reflexivity|reflexivity]|exact Hr].
    + constructor; [exact Hb|]. apply IH; [exact Hr|]. intros o [Ho|(b' & Hin & Ho)]; apply Hn; [left; exact Ho|].
      right. exists b'. split; [right; exact Hin|exact Ho].
Qed.
Lemma ovf_set_vc bs d : Forall ovf_none bs -> Forall ovf_none (set_vc bs d).
Proof.
  intros H. apply Forall_set_vc; [exact H|]. intros o [Ho|(b & Hin & Ho)]; unfold ovf_none; cbn [bovf]; [exact Ho|].
  rewrite Ho. rewrite Forall_forall in H. apply H. exact Hin.
Qed.
Lemma code_set_vc bs d : Forall code_ok bs -> Forall code_ok (set_vc bs d).
Proof. intros H. apply Forall_set_vc; [exact H|]. intros o _. unfold code_ok. cbn [bcode]. lia. Qed.

(* counting blocks of a type other than comment and padding *)
Lemma count_code_app c a b : count_code c (a ++ b) = count_code c a + count_code c b.
Proof. unfold count_code. rewrite filter_app, zlen_app. reflexivity. Qed.
Lemma count_code_cons c b l : count_code c (b :: l) = (if bcode b =? c then 1 else 0) + count_code c l.
Proof. unfold count_code. cbn [filter]. destruct (bcode b =? c); [rewrite zlen_cons|]; lia. Qed.
Lemma count_foreign c l : c <> 1 -> c <> 4 -> count_code c (foreign_blocks l) = count_code c l.
Proof.
  intros H1 H4. unfold foreign_blocks. induction l as [|b l IH]; cbn [filter]; [reflexivity|].
  rewrite count_code_cons.
  destruct (is_vcb b) eqn:E4; cbn [negb andb]; [unfold is_vcb in E4; replace (bcode b =? c) with false by lia; lia|].
  destruct (is_pad b) eqn:E1; cbn [negb]; [unfold is_pad in E1; replace (bcode b =? c) with false by lia; lia|].
  rewrite count_code_cons, IH. reflexivity.
Qed.
Lemma count_saved c bs d n : c <> 1 -> c <> 4 ->
  count_code c (nonpad (set_vc bs d) ++ [pad_block n]) = count_code c bs.
Proof.
  intros H1 H4. rewrite <- (count_foreign c (nonpad (set_vc bs d) ++ [pad_block n])) by assumption.
  rewrite foreign_app, foreign_nonpad, foreign_set_vc, foreign_pad_block, app_nil_r. apply count_foreign; assumption.
Qed.
Lemma count_deleted c bs n : c <> 1 -> c <> 4 -> count_code c (foreign_blocks bs ++ [pad_block n]) = count_code c bs.
Proof.
  intros H1 H4. rewrite count_code_app, count_foreign by assumption.
  rewrite count_code_cons. cbn [pad_block bcode]. replace (1 =? c) with false by lia. unfold count_code. cbn. lia.
Qed.

Lemma flac_padding_blocks p l n a : flac_padding (mkFlac p (nonpad l ++ [pad_block n]) a) = Z.max 0 n.
Proof.
  unfold flac_padding. cbn [fblocks]. rewrite fold_right_app. cbn [fold_right].
  change (is_pad (pad_block n)) with true. cbv iota. change (bdata (pad_block n)) with (zeros n).
  rewrite zlen_zeros_max. replace (Z.max 0 n + 0) with (Z.max 0 n) by lia. generalize (Z.max 0 n) as x0. intros x0. unfold nonpad.
  induction l as [|b l IH]; cbn [filter fold_right]; [lia|].
  destruct (is_pad b) eqn:E; cbn [negb]; [exact IH|]. cbn [fold_right]. rewrite E, IH. lia.
Qed.

(* ------------------------------------------------------------------ MetadataBlock._writeblocks *)
Definition padlen (cb : option (Z -> Z -> Z)) (available : Z) (bs1 : list block) (size : Z) : Z :=
  Z.min (_get_padding cb (available - (blocks_extent (nonpad bs1) + 4)) size) MAXSZ.

Lemma writeblocks_inv bs1 available size cb data : Forall ovf_none bs1 ->
  writeblocks bs1 available size cb = Ok data ->
  Forall size_ok (nonpad bs1) /\ data = render_blocks (nonpad bs1 ++ [pad_block (padlen cb available bs1 size)]).
Proof.
  intros Ho. unfold writeblocks. destruct (write_nonpad bs1) as [d|] eqn:Ew; [|discriminate].
  destruct (write_nonpad_inv _ _ Ho Ew) as [Hs Hd]. cbv zeta.
  assert (Hl : zlen d = blocks_extent (nonpad bs1)) by (rewrite Hd; apply zlen_flat_render).
  rewrite Hl. fold (padlen cb available bs1 size).
  rewrite write_block_ok.
  - intros H; inversion H. split; [exact Hs|]. rewrite render_blocks_snoc, Hd. reflexivity.
  - reflexivity.
  - apply pad_block_small. unfold padlen. lia.
Qed.
Lemma writeblocks_ok bs1 available size cb : Forall ovf_none bs1 -> Forall size_ok (nonpad bs1) ->
  writeblocks bs1 available size cb = Ok (render_blocks (nonpad bs1 ++ [pad_block (padlen cb available bs1 size)])).
Proof.
  intros Ho Hs. unfold writeblocks. rewrite write_nonpad_ok by assumption. cbv zeta.
  rewrite zlen_flat_render. fold (padlen cb available bs1 size).
  rewrite write_block_ok; [rewrite render_blocks_snoc; reflexivity|reflexivity|apply pad_block_small; unfold padlen; lia].
Qed.

(* ------------------------------------------------------------------ the saved file as a layout *)
Definition tags_applied (bs0 : list block) (t : option vc) (bs1 : list block) : Prop :=
  match t with
  | None => bs1 = bs0
  | Some t => vc_valid t = true /\ vc_fits32 t = true /\ bs1 = set_vc bs0 (vc_render t)
  end.

Lemma vc_write_inv t d : vc_write t = Ok d -> vc_valid t = true /\ vc_fits32 t = true /\ d = vc_render t.
Proof.
  unfold vc_write. destruct (vc_valid t); [|discriminate]. destruct (vc_fits32 t); [|discriminate].
  cbn [negb]. intros H; inversion H. repeat split.
Qed.

Lemma small_nonpad_snoc bs1 n : Forall code_ok bs1 -> Forall ovf_none bs1 -> Forall size_ok (nonpad bs1) -> n <= MAXSZ ->
  Forall block_small (nonpad bs1 ++ [pad_block n]) /\ nonpad bs1 ++ [pad_block n] <> [].
Proof.
  intros Hc Ho Hs Hn. split; [|destruct (nonpad bs1); discriminate].
  apply Forall_app. split; [|constructor; [apply pad_block_small; exact Hn|constructor]].
  pose proof (Forall_filter code_ok (fun b => negb (is_pad b)) bs1 Hc) as Hc'.
  pose proof (Forall_filter ovf_none (fun b => negb (is_pad b)) bs1 Ho) as Ho'.
  fold (nonpad bs1) in Hc', Ho'. rewrite Forall_forall in *. intros b Hb. apply block_small_iff. auto.
Qed.

Section Saved.
Variables (p : list Z) (bs : list block) (a : list Z).
Hypothesis Hp : prefix_ok p.
Hypothesis Hne : bs <> [].
Hypothesis Hsm : Forall block_small bs.
Hypothesis Hok : forallb block_ok bs = true.

Theorem save_obj_layout bs0 t o f' : o_deleteid3 o = false -> Forall ovf_none bs0 -> Forall code_ok bs0 ->
  flac_save_obj (layout p bs a) bs0 t o = Ok f' ->
  exists bs1, tags_applied bs0 t bs1 /\
    Forall block_small (nonpad bs1 ++ [pad_block (padlen (o_cb o) (blocks_extent bs) bs1 (zlen a))]) /\
    f' = layout p (nonpad bs1 ++ [pad_block (padlen (o_cb o) (blocks_extent bs) bs1 (zlen a))]) a /\
    flac_parse f' = Ok (mkFlac p (nonpad bs1 ++ [pad_block (padlen (o_cb o) (blocks_extent bs) bs1 (zlen a))]) a).
Proof.
  intros Hd Ho Hc. rewrite (save_obj_eq p bs a Hp Hne Hsm Hok bs0 t o Hd).
  assert (G : forall bs1, Forall ovf_none bs1 -> Forall code_ok bs1 ->
    match writeblocks bs1 (blocks_extent bs) (zlen a) (o_cb o) with
    | Ok data => Ok (p ++ MAGIC ++ data ++ a) | Raise e => Raise e end = Ok f' ->
    Forall block_small (nonpad bs1 ++ [pad_block (padlen (o_cb o) (blocks_extent bs) bs1 (zlen a))]) /\
    f' = layout p (nonpad bs1 ++ [pad_block (padlen (o_cb o) (blocks_extent bs) bs1 (zlen a))]) a /\
    flac_parse f' = Ok (mkFlac p (nonpad bs1 ++ [pad_block (padlen (o_cb o) (blocks_extent bs) bs1 (zlen a))]) a)).
  { intros bs1 Ho1 Hc1 H.
    destruct (writeblocks bs1 (blocks_extent bs) (zlen a) (o_cb o)) as [data|] eqn:Ew; [|discriminate].
    destruct (writeblocks_inv _ _ _ _ _ Ho1 Ew) as [Hs Hdata]. inversion H; subst f'.
    destruct (small_nonpad_snoc bs1 (padlen (o_cb o) (blocks_extent bs) bs1 (zlen a)) Hc1 Ho1 Hs) as [Hall Hnn];
      [unfold padlen; lia|].
    split; [exact Hall|]. split; [rewrite Hdata; reflexivity|].
    rewrite Hdata. apply parse_build; assumption. }
  destruct t as [t|].
  - destruct (vc_write t) as [d|] eqn:Ev; [|discriminate].
    destruct (vc_write_inv _ _ Ev) as (Hv & Hf & Hdd). subst d.
    intros H. exists (set_vc bs0 (vc_render t)). split; [repeat split; assumption|].
    apply G; [apply ovf_set_vc; exact Ho|apply code_set_vc; exact Hc|exact H].
  - intros H. exists bs0. split; [reflexivity|]. apply G; assumption.
Qed.

(* totality: on a well-formed file a save fails only for invalid or oversized tags *)
Theorem save_obj_total bs0 t o bs1 : o_deleteid3 o = false -> Forall ovf_none bs0 ->
  tags_applied bs0 t bs1 -> Forall size_ok (nonpad bs1) ->
  flac_save_obj (layout p bs a) bs0 t o =
    Ok (layout p (nonpad bs1 ++ [pad_block (padlen (o_cb o) (blocks_extent bs) bs1 (zlen a))]) a).
Proof.
  intros Hd Ho Ht Hs. rewrite (save_obj_eq p bs a Hp Hne Hsm Hok bs0 t o Hd).
  destruct t as [t|]; cbn [tags_applied] in Ht.
  - destruct Ht as (Hv & Hf & Hb). unfold vc_write. rewrite Hv, Hf. cbn [negb]. rewrite <- Hb.
    rewrite writeblocks_ok; [reflexivity| |exact Hs]. rewrite Hb. apply ovf_set_vc. exact Ho.
  - subst bs1. rewrite writeblocks_ok by assumption. reflexivity.
Qed.

Lemma block_ok_loadable b : block_ok b = true -> block_loadable b = true.
Proof.
  unfold block_ok, block_loadable. cbv zeta. intros H. apply andb_true_iff in H as [_ H].
  destruct (bcode b =? 0) eqn:E0; [apply andb_true_iff in H as [_ H]; exact H|].
  destruct (bcode b =? 1) eqn:E1; [replace (bcode b =? 5) with false by lia; reflexivity|].
  destruct (bcode b =? 4) eqn:E4; [replace (bcode b =? 5) with false by lia; reflexivity|].
  destruct (bcode b =? 5) eqn:E5; [exact H|reflexivity].
Qed.

(* FLAC.load on a well-formed file yields exactly the blocks the strict walker finds *)
Theorem open_layout : (1 <=? count_code 0 bs) && (count_code 3 bs <=? 1) && (count_code 5 bs <=? 1) = true ->
  flac_open (layout p bs a) = Ok bs.
Proof.
  intros Hcnt. unfold flac_open. rewrite (layout_header p bs a Hp), (layout_walk p bs a Hne Hsm Hok).
  replace (forallb block_loadable bs) with true.
  - rewrite andb_true_l, Hcnt. reflexivity.
  - symmetry. clear - Hok. induction bs as [|b l IH]; cbn [forallb] in *; [reflexivity|].
    apply andb_true_iff in Hok as [H1 H2]. rewrite (block_ok_loadable _ H1), (IH H2). reflexivity.
Qed.
End Saved.
