(* Proofs.C04_lib -- Hoare-style lemmas for the C04 reader monad (Model.Parse_base):
   pspecE E m d p Q : running m on data d at position p either returns a with Q a p' or raises an e with E e.
   The totality theorems are pspec (E = "is MutagenError") of the loaders at position 0. *)
From Coq Require Import ZArith List Bool Lia.
Import ListNotations.
Require Import Base.Py Base.ZList Model.Parse_base.
Open Scope Z_scope.

Definition isM (e : exc) : Prop := e = EMutagen.
Definition pspecE {A} (E : exc -> Prop) (m : P A) (d : list Z) (p : Z) (Q : A -> Z -> Prop) : Prop :=
  match m d p with (Ok a, p') => Q a p' | (Raise e, _) => E e end.
Notation pspec := (pspecE isM).

Lemma pspecE_ret {A} E (a : A) d p (Q : A -> Z -> Prop) : Q a p -> pspecE E (pret a) d p Q.
Proof. intro H. exact H. Qed.
Lemma pspecE_raise {A} (E : exc -> Prop) e d p (Q : A -> Z -> Prop) : E e -> pspecE E (praise e) d p Q.
Proof. intro H. exact H. Qed.
Lemma pspec_raiseM {A} d p (Q : A -> Z -> Prop) : pspec (praise EMutagen) d p Q.
Proof. reflexivity. Qed.
Lemma pspecE_bind {A B} E (m : P A) (k : A -> P B) d p Q :
  pspecE E m d p (fun a p' => pspecE E (k a) d p' Q) -> pspecE E (pbind m k) d p Q.
Proof. unfold pspecE, pbind. destruct (m d p) as [[a|e] p']; auto. Qed.
Lemma pspecE_weaken {A} (E E' : exc -> Prop) (m : P A) d p (Q Q' : A -> Z -> Prop) :
  pspecE E m d p Q -> (forall e, E e -> E' e) -> (forall a p', Q a p' -> Q' a p') -> pspecE E' m d p Q'.
Proof. unfold pspecE. destruct (m d p) as [[a|e] p']; auto. Qed.
Lemma pspecE_post {A} E (m : P A) d p (Q Q' : A -> Z -> Prop) :
  pspecE E m d p Q -> (forall a p', Q a p' -> Q' a p') -> pspecE E m d p Q'.
Proof. intros H HQ. eapply pspecE_weaken; eauto. Qed.
Lemma pspecE_lift {A} (E : exc -> Prop) (r : result A) d p (Q : A -> Z -> Prop) :
  match r with Ok a => Q a p | Raise e => E e end -> pspecE E (plift r) d p Q.
Proof. unfold pspecE, plift. destruct r; auto. Qed.

(* try/except: the body may raise what E' allows; the caught ones go to the handler (at any position) *)
Lemma pspecE_catch {A} (E E' : exc -> Prop) (m : P A) (c : exc -> bool) (h : exc -> P A) d p Q :
  pspecE E' m d p Q ->
  (forall e, E' e -> if c e then forall p', pspecE E (h e) d p' Q else E e) ->
  pspecE E (pcatch m c h) d p Q.
Proof.
  unfold pspecE, pcatch. intros H Hh. destruct (m d p) as [[a|e] p']; auto.
  specialize (Hh e H). destruct (c e); auto. apply Hh.
Qed.
Lemma pspecE_catch' {A} (E E' : exc -> Prop) (m : P A) (c : exc -> bool) (h : exc -> P A) d p (Q Q0 : A -> Z -> Prop) :
  pspecE E' m d p Q0 ->
  (forall e, E' e -> if c e then forall p', pspecE E (h e) d p' Q else E e) ->
  (forall a p', Q0 a p' -> Q a p') ->
  pspecE E (pcatch m c h) d p Q.
Proof.
  unfold pspecE, pcatch. intros H Hh HQ. destruct (m d p) as [[a|e] p']; auto.
  specialize (Hh e H). destruct (c e); auto. apply Hh.
Qed.
(* except (X, Y): raise error(...) *)
Lemma pspec_catchM {A} (m : P A) (c : exc -> bool) d p Q :
  pspecE (fun e => e = EMutagen \/ c e = true) m d p Q ->
  pspec (pcatch m c (fun _ => praise EMutagen)) d p Q.
Proof.
  intro H. eapply pspecE_catch; [exact H|]. intros e He. destruct (c e) eqn:Ec.
  - intros. reflexivity.
  - destruct He as [He|He]; [exact He|congruence].
Qed.
Lemma pspecE_catchM {A} (E : exc -> Prop) (m : P A) (c : exc -> bool) d p Q :
  E EMutagen -> pspecE (fun e => E e \/ c e = true) m d p Q ->
  pspecE E (pcatch m c (fun _ => praise EMutagen)) d p Q.
Proof.
  intros HM H. eapply pspecE_catch; [exact H|]. intros e He. destruct (c e) eqn:Ec.
  - intros. exact HM.
  - destruct He as [He|He]; [exact He|congruence].
Qed.
Lemma pspec_convert_io {A} (m : P A) d p Q : pspec m d p Q -> pspec (pconvert_io m) d p Q.
Proof.
  intro H. unfold pconvert_io. eapply pspecE_catch; [exact H|]. intros e He. red in He. subst e. exact eq_refl.
Qed.
Lemma pspecE_convert_io {A} (E : exc -> Prop) (m : P A) d p Q :
  E EMutagen -> pspecE E m d p Q -> pspecE E (pconvert_io m) d p Q.
Proof.
  intros HM H. unfold pconvert_io. eapply pspecE_catch; [exact H|]. intros e He.
  destruct (is_eio e); [intros; exact HM|exact He].
Qed.

Lemma in_ssize_ok n : - c04_two63 <= n < c04_two63 -> in_ssize n = true.
Proof. unfold in_ssize. intros. apply andb_true_iff. split; [apply Z.leb_le|apply Z.ltb_lt]; lia. Qed.

Lemma pspecE_read E n d p (Q : list Z -> Z -> Prop) :
  - c04_two63 <= n < c04_two63 -> Q (rd n p d) (p + zlen (rd n p d)) -> pspecE E (p_read n) d p Q.
Proof. intros Hn H. unfold pspecE, p_read. rewrite in_ssize_ok by assumption. exact H. Qed.
Lemma pspecE_tell E d p (Q : Z -> Z -> Prop) : Q p p -> pspecE E p_tell d p Q.
Proof. intro H. exact H. Qed.
Lemma pspecE_seek_abs E off d p (Q : unit -> Z -> Prop) :
  0 <= off < c04_two63 -> Q tt off -> pspecE E (p_seek off 0) d p Q.
Proof.
  intros Ho H. unfold pspecE, p_seek. unfold c04_two63 in *. rewrite in_ssize_ok by (unfold c04_two63; lia).
  cbn [negb]. replace (0 =? 0) with true by reflexivity.
  destruct (off <? 0) eqn:E1; [lia|]. exact H.
Qed.
Lemma pspecE_seek_rel E off d p (Q : unit -> Z -> Prop) :
  - c04_two63 <= off -> p + off < c04_two63 -> 0 <= p -> Q tt (Z.max 0 (p + off)) -> pspecE E (p_seek off 1) d p Q.
Proof.
  intros Ho Hp Hp0 H. unfold pspecE, p_seek. rewrite in_ssize_ok by lia.
  cbn [negb]. replace (1 =? 0) with false by reflexivity. replace (1 =? 1) with true by reflexivity.
  destruct (c04_two63 - 1 - p <? off) eqn:E1; [lia|]. exact H.
Qed.
Lemma pspecE_seek_end E off d p (Q : unit -> Z -> Prop) :
  - c04_two63 <= off -> zlen d + off < c04_two63 -> Q tt (Z.max 0 (zlen d + off)) -> pspecE E (p_seek off 2) d p Q.
Proof.
  intros Ho Hp H. unfold pspecE, p_seek. pose proof (zlen_nonneg d). rewrite in_ssize_ok by lia.
  cbn [negb]. replace (2 =? 0) with false by reflexivity. replace (2 =? 1) with false by reflexivity.
  destruct (c04_two63 - 1 - zlen d <? off) eqn:E1; [lia|]. exact H.
Qed.

Lemma total_prun {A} (m : P A) d Q : pspec m d 0 Q -> total (prun m d).
Proof. unfold pspecE, prun, total. destruct (m d 0) as [[a|e] p']; cbn; auto. Qed.

(* ---- what a read returns ---- *)
Lemma ltake_ztake : forall l n, ltake n l = ztake n l.
Proof.
  induction l as [|x t IH]; intro n; cbn [ltake].
  - unfold ztake. rewrite firstn_nil. reflexivity.
  - destruct (n <=? 0) eqn:E.
    + apply Z.leb_le in E. rewrite ztake_neg by lia. reflexivity.
    + apply Z.leb_gt in E. rewrite IH. unfold ztake.
      replace (Z.to_nat n) with (S (Z.to_nat (n - 1))) by lia. reflexivity.
Qed.
Lemma ldrop_zdrop : forall l n, ldrop n l = zdrop n l.
Proof.
  induction l as [|x t IH]; intro n; cbn [ldrop].
  - unfold zdrop. rewrite skipn_nil. reflexivity.
  - destruct (n <=? 0) eqn:E.
    + apply Z.leb_le in E. rewrite zdrop_neg by lia. reflexivity.
    + apply Z.leb_gt in E. rewrite IH. unfold zdrop.
      replace (Z.to_nat n) with (S (Z.to_nat (n - 1))) by lia. reflexivity.
Qed.
Lemma lslice_zslice a b l : lslice a b l = zslice a b l.
Proof. unfold lslice, zslice. rewrite ldrop_zdrop, ltake_ztake. reflexivity. Qed.
Lemma rd_eq n p d : rd n p d = if n <? 0 then zdrop p d else ztake n (zdrop p d).
Proof. unfold rd. rewrite ldrop_zdrop, ltake_ztake. reflexivity. Qed.
Lemma rd_len n p d : 0 <= p -> 0 <= n -> zlen (rd n p d) = Z.min n (Z.max 0 (zlen d - p)).
Proof.
  intros. rewrite rd_eq. destruct (n <? 0) eqn:E; [lia|]. rewrite zlen_ztake, zlen_zdrop by lia. reflexivity.
Qed.
Lemma rd_len_neg n p d : 0 <= p -> n < 0 -> zlen (rd n p d) = Z.max 0 (zlen d - p).
Proof. intros. rewrite rd_eq. destruct (n <? 0) eqn:E; [|lia]. apply zlen_zdrop; lia. Qed.

Definition bytes_ok (l : list Z) : Prop := Forall (fun x => 0 <= x < 256) l.
Lemma bytes_ok_firstn n l : bytes_ok l -> bytes_ok (firstn n l).
Proof. unfold bytes_ok. revert l; induction n; intros l H; cbn; [constructor|]. destruct H; constructor; auto. Qed.
Lemma bytes_ok_skipn n l : bytes_ok l -> bytes_ok (skipn n l).
Proof. unfold bytes_ok. revert l; induction n; intros l H; cbn; [exact H|]. destruct H; [constructor|auto]. Qed.
Lemma bytes_ok_ztake n l : bytes_ok l -> bytes_ok (ztake n l). Proof. apply bytes_ok_firstn. Qed.
Lemma bytes_ok_zdrop n l : bytes_ok l -> bytes_ok (zdrop n l). Proof. apply bytes_ok_skipn. Qed.
Lemma bytes_ok_zslice a b l : bytes_ok l -> bytes_ok (zslice a b l).
Proof. intro. unfold zslice. apply bytes_ok_ztake, bytes_ok_zdrop. assumption. Qed.
Lemma bytes_ok_rd n p d : bytes_ok d -> bytes_ok (rd n p d).
Proof. intro H. rewrite rd_eq. destruct (n <? 0); [|apply bytes_ok_ztake]; apply bytes_ok_zdrop; assumption. Qed.
Lemma bytes_ok_nth l i : bytes_ok l -> 0 <= nth i l 0 < 256.
Proof.
  unfold bytes_ok. revert l; induction i; intros l H; destruct H; cbn; try lia.
  apply IHi. assumption.
Qed.
Lemma bytes_ok_znth l i : bytes_ok l -> 0 <= znth i l < 256.
Proof. intro. unfold znth. apply bytes_ok_nth. assumption. Qed.

Lemma zlen_zslice {A} a b (l : list A) : 0 <= a -> a <= b -> zlen (zslice a b l) = Z.min (b - a) (Z.max 0 (zlen l - a)).
Proof. intros. unfold zslice. rewrite zlen_ztake, zlen_zdrop by lia. reflexivity. Qed.

Lemma le_decode_bound l : bytes_ok l -> 0 <= le_decode l < 256 ^ zlen l.
Proof.
  unfold bytes_ok. induction 1 as [|x l Hx Hl IH]; [cbn; lia|].
  rewrite zlen_cons. pose proof (zlen_nonneg l). cbn [le_decode].
  replace (1 + zlen l) with (Z.succ (zlen l)) by lia. rewrite Z.pow_succ_r by lia. nia.
Qed.
Lemma be_decode_acc_bound l : bytes_ok l -> forall acc, 0 <= acc ->
  0 <= be_decode_acc acc l < (acc + 1) * 256 ^ zlen l.
Proof.
  unfold bytes_ok. induction 1 as [|x l Hx Hl IH]; intros acc Ha; [cbn; lia|].
  rewrite zlen_cons. pose proof (zlen_nonneg l). cbn [be_decode_acc].
  replace (1 + zlen l) with (Z.succ (zlen l)) by lia. rewrite Z.pow_succ_r by lia.
  specialize (IH (acc * 256 + x) ltac:(nia)).
  assert (0 < 256 ^ zlen l) by (apply Z.pow_pos_nonneg; lia). nia.
Qed.
Lemma be_decode_bound l : bytes_ok l -> 0 <= be_decode l < 256 ^ zlen l.
Proof. intro H. pose proof (be_decode_acc_bound l H 0 ltac:(lia)). unfold be_decode. lia. Qed.

(* plift of unpack: Ok with the bound, when the slice has the right length *)
Lemma unpack_le_ok n l : zlen l = n -> unpack_le n l = Ok (le_decode l).
Proof. intro H. unfold unpack_le. rewrite H, Z.eqb_refl. reflexivity. Qed.
Lemma unpack_be_ok n l : zlen l = n -> unpack_be n l = Ok (be_decode l).
Proof. intro H. unfold unpack_be. rewrite H, Z.eqb_refl. reflexivity. Qed.
Lemma pspecE_unpack_le E n l d p (Q : Z -> Z -> Prop) :
  zlen l = n -> Q (le_decode l) p -> pspecE E (plift (unpack_le n l)) d p Q.
Proof. intros H HQ. rewrite unpack_le_ok by assumption. exact HQ. Qed.
Lemma pspecE_unpack_be E n l d p (Q : Z -> Z -> Prop) :
  zlen l = n -> Q (be_decode l) p -> pspecE E (plift (unpack_be n l)) d p Q.
Proof. intros H HQ. rewrite unpack_be_ok by assumption. exact HQ. Qed.

Lemma list_index_ok {A} i (l : list A) : 0 <= i < zlen l -> exists a, list_index i l = Ok a /\ In a l.
Proof.
  intros H. unfold list_index. destruct (i <? 0) eqn:E; [lia|].
  destruct (nth_error l (Z.to_nat i)) eqn:En.
  - exists a. split; [reflexivity|]. eapply nth_error_In; eauto.
  - apply nth_error_None in En. unfold zlen in H. lia.
Qed.
Lemma list_index_cases {A} i (l : list A) :
  (exists a, list_index i l = Ok a /\ In a l) \/ list_index i l = Raise EIndex.
Proof.
  unfold list_index. destruct (i <? 0); [right; reflexivity|].
  destruct (nth_error l (Z.to_nat i)) eqn:En; [left|right; reflexivity].
  exists a. split; [reflexivity|]. eapply nth_error_In; eauto.
Qed.

Lemma c04_input_bytes d : c04_input d -> bytes_ok d. Proof. intros [H _]. exact H. Qed.
Lemma c04_input_len d : c04_input d -> zlen d < c04_two62. Proof. intros [_ H]. exact H. Qed.

Lemma lin_fuel_gt a b d k : 0 <= a -> k < a * zlen d + b -> k < Z.of_nat (lin_fuel a b d).
Proof. intros. unfold lin_fuel. pose proof (zlen_nonneg d). lia. Qed.

(* stepping tactics *)
Ltac pbind := apply pspecE_bind.
Ltac pread := apply pspecE_read; [unfold c04_two63 in *; try lia|cbv beta].
Ltac pretn := apply pspecE_ret; cbv beta.
Ltac praiseM := apply pspecE_raise; first [assumption | reflexivity | (left; reflexivity) | (left; assumption)].

(* ---- pure (non file) computations ---- *)
Definition rspec {A} (r : result A) (Q : A -> Prop) : Prop := match r with Ok a => Q a | Raise e => e = EMutagen end.
Lemma rspec_bind {A B} (m : result A) (k : A -> result B) Q :
  rspec m (fun a => rspec (k a) Q) -> rspec (rbind m k) Q.
Proof. unfold rspec, rbind. destruct m; auto. Qed.
Lemma rspec_post {A} (r : result A) (Q Q' : A -> Prop) : rspec r Q -> (forall a, Q a -> Q' a) -> rspec r Q'.
Proof. unfold rspec. destruct r; auto. Qed.
Lemma rspec_ok {A} (a : A) (Q : A -> Prop) : Q a -> rspec (Ok a) Q. Proof. intro H; exact H. Qed.
Lemma rspec_raiseM {A} (Q : A -> Prop) : rspec (Raise EMutagen) Q. Proof. reflexivity. Qed.
Lemma pspec_lift_rspec {A} (r : result A) d p (Q : A -> Z -> Prop) :
  rspec r (fun a => Q a p) -> pspec (plift r) d p Q.
Proof. unfold rspec, pspecE, plift. destruct r; auto. Qed.
Lemma rspec_total {A} (r : result A) Q : rspec r Q -> total r.
Proof. unfold rspec, total. destruct r; auto. Qed.
Ltac rbind := apply rspec_bind.

(* one symbolic step of a monadic program; reads leave `r := rd n p d` and its length equation in the context *)
Ltac pstep :=
  lazymatch goal with
  | |- pspecE _ (pbind _ _) _ _ _ => apply pspecE_bind
  | |- pspecE _ (p_read ?n) ?d ?p _ =>
      apply pspecE_read; [unfold c04_two63 in *; lia |
        cbv beta; let H := fresh "Hr" in let r := fresh "r" in
        (pose proof (rd_len n p d ltac:(lia) ltac:(lia)) as H); set (r := rd n p d) in *]
  | |- pspecE _ p_tell _ _ _ => apply pspecE_tell; cbv beta
  | |- pspecE _ (pret _) _ _ _ => apply pspecE_ret; cbv beta
  | |- pspecE _ (p_seek _ 0) _ _ _ => apply pspecE_seek_abs; [unfold c04_two63 in *; lia | cbv beta]
  | |- pspecE _ (p_seek _ 1) _ _ _ =>
      apply pspecE_seek_rel; [unfold c04_two63 in *; lia | unfold c04_two63 in *; lia | lia | cbv beta]
  | |- pspecE _ (p_seek _ 2) _ _ _ =>
      apply pspecE_seek_end; [unfold c04_two63 in *; lia | unfold c04_two63 in *; lia | cbv beta]
  | |- pspecE _ (praise EMutagen) _ _ _ => praiseM
  | |- pspecE _ (if negb ?b then _ else _) _ _ _ => destruct b eqn:?; cbn [negb]
  | |- pspecE _ (if ?b then _ else _) _ _ _ => destruct b eqn:?
  end.
Ltac psteps := repeat pstep.
