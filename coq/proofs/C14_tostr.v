(* C14: to_str / BitPaddedInt round trips, rejection of wide and negative values, and the int branch
   of BitPaddedInt.__new__ as a re-reading of the int's bytes. *)
From Coq Require Import ZArith List Bool Lia.
Import ListNotations.
Require Import Base.Py Base.ZList Model.Id3Util Proofs.C14_digits Proofs.C14_padding.
Open Scope Z_scope.

Definition endian (be : bool) (l : list Z) : list Z := if be then rev l else l.

Lemma zlen_endian be l : zlen (endian be l) = zlen l.
Proof. destruct be; [apply zlen_rev|reflexivity]. Qed.
Lemma Forall_endian (P : Z -> Prop) be l : Forall P l -> Forall P (endian be l).
Proof. destruct be; [apply Forall_rev|auto]. Qed.
Lemma bpi_of_bytes_endian bits be l : 0 <= bits ->
  bpi_of_bytes bits be (endian be l) = Ok (le_val bits l).
Proof.
  intros Hb. destruct be; cbn [endian].
  - rewrite bpi_of_bytes_be, rev_involutive by assumption. reflexivity.
  - apply bpi_of_bytes_le; assumption.
Qed.

(* ---------- fixed width ---------- *)
Lemma to_str_fixed_closed bits be width mw v : 0 <= bits <= 8 -> 0 <= width -> 0 <= v ->
  to_str v bits be width mw =
  if v <? 2 ^ (bits * width) then Ok (endian be (le_digits (Z.to_nat width) bits v)) else Raise EValue.
Proof.
  intros Hb Hw Hv. unfold to_str.
  destruct (v <? 0) eqn:E0; [lia|]. destruct (bits <? 0) eqn:E1; [lia|].
  destruct (width =? -1) eqn:E2; [lia|]. cbn [negb]. destruct (width <? 0) eqn:E3; [lia|].
  pose proof (fixed_loop_spec bits Hb (Z.to_nat width) [] v Hv) as H.
  change (zlen (@nil Z)) with 0 in H. cbn [app] in H. rewrite Z2Nat.id in H by assumption.
  rewrite H. destruct (v <? 2 ^ (bits * width)); reflexivity.
Qed.

Lemma to_str_fixed_ok bits be width mw v : 0 <= bits <= 8 -> 0 <= width -> 0 <= v < 2 ^ (bits * width) ->
  let bs := endian be (le_digits (Z.to_nat width) bits v) in
  to_str v bits be width mw = Ok bs /\
  zlen bs = width /\
  Forall (fun b => 0 <= b < 2 ^ bits) bs /\
  has_valid_padding_bytes bits bs = Ok true /\
  bpi_of_bytes bits be bs = Ok v.
Proof.
  intros Hb Hw Hv bs. subst bs.
  assert (HF : Forall (fun b => 0 <= b < 2 ^ bits) (endian be (le_digits (Z.to_nat width) bits v))).
  { apply Forall_endian. apply le_digits_bound. lia. }
  split; [|split; [|split; [|split]]].
  - rewrite to_str_fixed_closed by lia. destruct (v <? 2 ^ (bits * width)) eqn:E; [reflexivity|lia].
  - rewrite zlen_endian, le_digits_length. lia.
  - exact HF.
  - apply hvp_bytes_digits; assumption.
  - rewrite bpi_of_bytes_endian by lia. f_equal. apply le_val_digits_small; [lia|].
    rewrite Z2Nat.id by assumption. exact Hv.
Qed.

Lemma to_str_rejects_wide bits be width mw v : 0 <= bits <= 8 -> 0 <= width -> 2 ^ (bits * width) <= v ->
  to_str v bits be width mw = Raise EValue.
Proof.
  intros Hb Hw Hv. assert (0 < 2 ^ (bits * width)) by (apply pow2_pos; apply Z.mul_nonneg_nonneg; lia).
  rewrite to_str_fixed_closed by lia. destruct (v <? 2 ^ (bits * width)) eqn:E; [lia|reflexivity].
Qed.

Lemma to_str_rejects_negative bits be width mw v : v < 0 -> to_str v bits be width mw = Raise EValue.
Proof. intros H. unfold to_str. destruct (v <? 0) eqn:E; [reflexivity|lia]. Qed.

(* ---------- growing form (width = -1) ---------- *)
Definition ndigits (bits v : Z) : Z := Z.of_nat (ndig (S (Z.to_nat (Z.log2 (Z.abs v)))) bits v).

Lemma ndigits_spec bits v : 1 <= bits -> 0 <= v ->
  0 <= ndigits bits v /\ v < 2 ^ (bits * ndigits bits v) /\
  (0 < ndigits bits v -> 2 ^ (bits * (ndigits bits v - 1)) <= v).
Proof.
  intros Hb Hv. unfold ndigits.
  destruct (ndig_spec bits Hb _ v (conj Hv (loop_fuel_enough v Hv))) as [A B].
  split; [lia|]. split; [exact A|]. intros H. apply B. lia.
Qed.

Lemma to_str_grow_ok bits be mw v : 1 <= bits <= 8 -> 0 <= v ->
  let n := ndigits bits v in
  let bs := endian be (ljust0 (le_digits (Z.to_nat n) bits v) mw) in
  to_str v bits be (-1) mw = Ok bs /\
  zlen bs = Z.max mw n /\
  Forall (fun b => 0 <= b < 2 ^ bits) bs /\
  has_valid_padding_bytes bits bs = Ok true /\
  bpi_of_bytes bits be bs = Ok v.
Proof.
  intros Hb Hv n bs. destruct (ndigits_spec bits v ltac:(lia) Hv) as (N0 & N1 & N2). fold n in N0, N1, N2.
  assert (Hn : Z.to_nat n = ndig (S (Z.to_nat (Z.log2 (Z.abs v)))) bits v) by (unfold n, ndigits; lia).
  assert (HB : 0 < 2 ^ bits) by (apply pow2_pos; lia).
  assert (HF : Forall (fun b => 0 <= b < 2 ^ bits) bs).
  { subst bs. apply Forall_endian. unfold ljust0. apply Forall_app. split; [apply le_digits_bound; lia|].
    unfold zeros. apply Forall_forall. intros x Hx. apply repeat_spec in Hx. subst x. lia. }
  split; [|split; [|split; [|split]]].
  - unfold to_str. destruct (v <? 0) eqn:E0; [lia|]. destruct (bits <? 0) eqn:E1; [lia|].
    change (-1 =? -1) with true. cbn [negb]. unfold loop_fuel.
    rewrite grow_loop_spec by (first [lia | split; [lia|apply loop_fuel_enough; lia]]).
    cbn [rmap rbind app]. rewrite <- Hn. reflexivity.
  - subst bs. rewrite zlen_endian. unfold ljust0. rewrite zlen_app, le_digits_length.
    rewrite Z2Nat.id by lia. destruct (Z_le_gt_dec (mw - n) 0).
    + rewrite zeros_neg by lia. change (zlen (@nil Z)) with 0. lia.
    + rewrite zlen_zeros by lia. lia.
  - exact HF.
  - apply hvp_bytes_digits; [lia|assumption].
  - subst bs. rewrite bpi_of_bytes_endian by lia. f_equal. unfold ljust0.
    rewrite le_val_app, le_val_zeros by lia. rewrite le_val_digits_small; [lia|lia|].
    rewrite Z2Nat.id by lia. lia.
Qed.

(* ---------- BitPaddedInt.__new__, int branch ---------- *)
Lemma bpi_of_int_as_bytes bits n v : 0 <= bits <= 8 -> 0 <= v < 256 ^ Z.of_nat n ->
  bpi_of_int bits v = bpi_of_bytes bits true (be_encode n v).
Proof.
  intros Hb Hv. unfold bpi_of_int, bpi_of_bytes. destruct (bits <? 0) eqn:E; [lia|].
  destruct (v <? 0) eqn:E2; [lia|]. unfold be_encode. rewrite rev_involutive. unfold loop_fuel.
  apply bpi_int_loop_spec; [apply mask_lt_256; assumption| |lia].
  split; [lia|]. apply loop_fuel_enough. lia.
Qed.
Lemma bpi_of_int_rejects_negative bits v : v < 0 -> bpi_of_int bits v = Raise EValue.
Proof.
  intros H. unfold bpi_of_int. destruct (bits <? 0); [reflexivity|].
  destruct (v <? 0) eqn:E; [reflexivity|lia].
Qed.
(* the decoded value as a sum: digits of v in base 256, each masked to `bits` bits, re-weighted *)
Lemma bpi_of_int_value bits n v : 0 <= bits <= 8 -> 0 <= v < 256 ^ Z.of_nat n ->
  bpi_of_int bits v = Ok (le_val bits (le_encode n v)).
Proof.
  intros Hb Hv. rewrite (bpi_of_int_as_bytes bits n v Hb Hv). rewrite bpi_of_bytes_be by lia.
  unfold be_encode. rewrite rev_involutive. reflexivity.
Qed.
(* a syncsafe-encoded number read back as a plain int is re-decoded to the same value:
   BitPaddedInt(int.from_bytes(to_str(v, bits, width=n), 'big'), bits) = v *)
Lemma be_decode_acc_spec l acc : be_decode_acc acc l = acc * 256 ^ zlen l + le_decode (rev l).
Proof.
  revert acc; induction l as [|b l IH]; intros acc; cbn [be_decode_acc rev].
  - change (zlen (@nil Z)) with 0. rewrite ?Z.pow_0_r. cbn [le_decode]. lia.
  - rewrite IH, zlen_cons. pose proof (zlen_nonneg l).
    replace (1 + zlen l) with (Z.succ (zlen l)) by lia. rewrite Z.pow_succ_r by lia.
    assert (H1 : forall a x, le_decode (a ++ [x]) = le_decode a + 256 ^ zlen a * x).
    { induction a as [|y a IHa]; intros x; cbn [app le_decode].
      - change (zlen (@nil Z)) with 0. rewrite ?Z.pow_0_r. cbn [le_decode]. lia.
      - rewrite IHa, zlen_cons. pose proof (zlen_nonneg a).
        replace (1 + zlen a) with (Z.succ (zlen a)) by lia. rewrite Z.pow_succ_r by lia. ring. }
    rewrite H1, zlen_rev. ring.
Qed.
Lemma le_encode_decode l : Forall (fun b => 0 <= b < 256) l -> le_encode (length l) (le_decode l) = l.
Proof.
  induction 1 as [|b l Hb Hl IH]; cbn [length le_encode le_decode]; [reflexivity|].
  replace ((b + 256 * le_decode l) mod 256) with b.
  2:{ replace (b + 256 * le_decode l) with (b + le_decode l * 256) by ring.
      rewrite Z.mod_add by lia. symmetry. apply Z.mod_small. lia. }
  replace ((b + 256 * le_decode l) / 256) with (le_decode l).
  2:{ replace (b + 256 * le_decode l) with (b + le_decode l * 256) by ring.
      rewrite Z.div_add by lia. rewrite (Z.div_small b 256) by lia. lia. }
  rewrite IH. reflexivity.
Qed.
Lemma le_decode_bound l : Forall (fun b => 0 <= b < 256) l -> 0 <= le_decode l < 256 ^ zlen l.
Proof.
  induction 1 as [|b l Hb Hl IH]; cbn [le_decode].
  - change (zlen (@nil Z)) with 0. rewrite ?Z.pow_0_r. cbn [le_decode]. lia.
  - rewrite zlen_cons. pose proof (zlen_nonneg l).
    replace (1 + zlen l) with (Z.succ (zlen l)) by lia. rewrite Z.pow_succ_r by lia. lia.
Qed.
Lemma bpi_of_int_of_be_bytes bits l : 0 <= bits <= 8 -> Forall (fun b => 0 <= b < 256) l ->
  bpi_of_int bits (be_decode l) = bpi_of_bytes bits true l.
Proof.
  intros Hb Hl. unfold be_decode. rewrite be_decode_acc_spec. rewrite Z.mul_0_l, Z.add_0_l.
  assert (Hr : Forall (fun b => 0 <= b < 256) (rev l)) by (apply Forall_rev; assumption).
  pose proof (le_decode_bound (rev l) Hr) as Hbd. rewrite zlen_rev in Hbd.
  rewrite (bpi_of_int_as_bytes bits (length l)); [|assumption|exact Hbd].
  unfold be_encode. rewrite <- (rev_length l). rewrite le_encode_decode by assumption.
  rewrite rev_involutive. reflexivity.
Qed.
