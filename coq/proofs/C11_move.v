From Coq Require Import ZArith List Bool Lia.
Import ListNotations.
Require Import Base.Py Base.ZList Base.FileModel Gen.Gen_util Proofs.FileLemmas.
Open Scope Z_scope.

(* one chunk copy: seek; read; seek; write *)
Section Chunk.
Variables (real : bool) (part : Z).
Notation cf := (benign real part).
Definition chunk (srcp dstp t : Z) : M unit :=
  (f_seek srcp 0) ;; (buf <- (f_read t) ;; ((f_seek dstp 0) ;; (f_write buf))).

Lemma chunk_spec d p srcp dstp t :
  0 <= srcp -> 0 <= dstp -> 0 <= t -> srcp + t <= zlen d -> dstp + t <= zlen d ->
  exists d' p', chunk srcp dstp t (mkF d p cf) = (Ok tt, mkF d' p' cf) /\ zlen d' = zlen d /\
    forall i, 0 <= i < zlen d -> znth i d' = if (dstp <=? i) && (i <? dstp + t) then znth (i - dstp + srcp) d else znth i d.
Proof.
  intros Hs Hd Ht Hsl Hdl.
  unfold chunk. rewrite step_seek_abs by lia. unfold bind at 1. rewrite run_read by lia.
  rewrite step_seek_abs by lia. rewrite run_write.
  set (buf := ztake t (zdrop srcp d)).
  assert (Hb : zlen buf = t). { unfold buf. rewrite zlen_ztake, zlen_zdrop by lia. lia. }
  eexists; eexists; split; [reflexivity|]. fold buf.
  rewrite write_at_inside by lia. rewrite Hb. split.
  - rewrite !zlen_app, zlen_ztake, zlen_zdrop by lia. lia.
  - intros i Hi. rewrite znth_app by lia. rewrite zlen_ztake by lia.
    replace (Z.min dstp (zlen d)) with dstp by lia.
    destruct (i <? dstp) eqn:E5.
    + rewrite znth_ztake by lia. replace (dstp <=? i) with false by lia. reflexivity.
    + rewrite znth_app by lia. rewrite Hb. destruct (i - dstp <? t) eqn:E6.
      * replace (dstp <=? i) with true by lia. replace (i <? dstp + t) with true by lia. cbn [andb].
        unfold buf. rewrite znth_ztake by lia. rewrite znth_zdrop by lia. f_equal; lia.
      * replace (i <? dstp + t) with false by lia. rewrite andb_false_r.
        rewrite znth_zdrop by lia. f_equal; lia.
Qed.

(* CPS form matching the generated code *)
Lemma chunk_cps {A} (k : M A) d p srcp dstp t :
  0 <= srcp -> 0 <= dstp -> 0 <= t -> srcp + t <= zlen d -> dstp + t <= zlen d ->
  exists d' p', ((f_seek srcp 0) ;; (buf <- (f_read t) ;; ((f_seek dstp 0) ;; ((f_write buf) ;; k)))) (mkF d p cf)
                 = k (mkF d' p' cf) /\ zlen d' = zlen d /\
    forall i, 0 <= i < zlen d -> znth i d' = if (dstp <=? i) && (i <? dstp + t) then znth (i - dstp + srcp) d else znth i d.
Proof.
  intros Hs Hd Ht Hsl Hdl.
  destruct (chunk_spec d p srcp dstp t Hs Hd Ht Hsl Hdl) as (d' & p' & E & Hl & Hn).
  exists d', p'. split; [|split; assumption].
  unfold chunk in E. unfold bind in *.
  destruct (f_seek srcp 0 (mkF d p cf)) as [[[]|e] s1]; [|discriminate].
  destruct (f_read t s1) as [[buf|e] s2]; [|discriminate].
  destruct (f_seek dstp 0 s2) as [[[]|e] s3]; [|discriminate].
  destruct (f_write buf s3) as [[[]|e] s4]; [|discriminate].
  inversion E; subst. reflexivity.
Qed.

Section Forward.
Variable BUF : Z.
Hypothesis HBUF : 1 <= BUF.
Variables (f : list Z) (dest src count : Z).
Hypothesis Hd : 0 <= dest. Hypothesis Hsd : dest < src. Hypothesis Hc : 0 <= count.
Hypothesis Hfit : src + count <= zlen f.

Definition InvF (d : list Z) (m : Z) : Prop :=
  zlen d = zlen f /\
  forall i, 0 <= i < zlen f ->
    znth i d = if (dest <=? i) && (i <? dest + m) then znth (i - dest + src) f else znth i f.

Lemma loop1_spec : forall fuel m d p,
  0 <= m <= count -> (Z.to_nat (count - m) < fuel)%nat -> InvF d m ->
  exists d' p', move_bytes_loop1 BUF count dest src fuel m (mkF d p cf) = (Ok count, mkF d' p' cf) /\ InvF d' count.
Proof.
  induction fuel as [|fuel IH]; intros m d p Hm Hf [Hl Hn]; [lia|].
  cbn [move_bytes_loop1]. destruct (count - m =? 0) eqn:E; cbn [negb].
  - assert (m = count) by lia. subst m. exists d, p. split; [reflexivity| split; assumption].
  - set (t := Z.min BUF (count - m)).
    assert (Ht : 0 < t <= count - m) by (unfold t; lia).
    destruct (chunk_cps (move_bytes_loop1 BUF count dest src fuel (m + t)) d p (src + m) (dest + m) t)
      as (d1 & p1 & E1 & Hl1 & Hn1); try lia.
    cbv zeta. fold t. rewrite E1.
    apply IH; [lia|lia|]. split; [lia|].
    intros i Hi. rewrite Hn1 by lia.
    destruct ((dest + m <=? i) && (i <? dest + m + t)) eqn:E2.
    + rewrite Hn by lia.
      replace ((dest <=? i - (dest + m) + (src + m)) && (i - (dest + m) + (src + m) <? dest + m)) with false by lia.
      replace ((dest <=? i) && (i <? dest + (m + t))) with true by lia. f_equal; lia.
    + rewrite Hn by lia.
      destruct ((dest <=? i) && (i <? dest + m)) eqn:E3.
      * replace ((dest <=? i) && (i <? dest + (m + t))) with true by lia. reflexivity.
      * replace ((dest <=? i) && (i <? dest + (m + t))) with false by lia. reflexivity.
Qed.
End Forward.
End Chunk.
Print Assumptions loop1_spec.
