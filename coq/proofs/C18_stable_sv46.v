(* C18: Musepack SV4-SV6 streams carry no magic; they are recognised by the extension alone. *)
From Coq Require Import ZArith List Bool Lia.
Import ListNotations.
Require Import Base.Py Model.ScorePrims Gen.Gen_scores Model.Score Proofs.C18_prims.
Open Scope Z_scope.

Lemma nkm_mem : forall h a, no_known_magic h = true ->
  existsb (list_eqb a) (flat_map prefixes_of options) = true -> starts_with a h = false.
Proof.
  intros h a H E. apply existsb_exists in E. destruct E as (x & Hin & Hx). apply list_eqb_eq in Hx. subst x.
  apply in_flat_map in Hin. destruct Hin as (c & Hc & Hp).
  unfold no_known_magic in H. rewrite forallb_forall in H. specialize (H c Hc).
  rewrite forallb_forall in H. specialize (H a Hp). apply negb_true_iff in H. exact H.
Qed.

Ltac nkm_facts H :=
  lazymatch type of H with
  | no_known_magic ?h = true =>
      repeat match goal with
             | |- context [starts_with ?a h] => rewrite (nkm_mem h a H (eq_refl true))
             end
  end.

Lemma stable_Musepack_sv46 : forall fname header trailer,
  named_as C_Musepack fname -> no_known_magic header = true -> no_foreign_marker C_Musepack header = true ->
  picks C_Musepack fname header trailer.
Proof.
  intros fname header trailer (ext & Hin & Hew) Hmagic Hnfm. cbn [usual_exts In] in Hin.
  unfold picks. marker_facts Hnfm. destruct Hin as [<-|[]].
  destruct trailer as [footer|]; simp_scores ltac:(idtac; nkm_facts Hmagic; ew_facts Hew); finish.
Qed.
