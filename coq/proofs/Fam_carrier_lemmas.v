(* ID3._prepare_data as modelled in Model.Fam_carrier: the tag it returns is header + frame data + exactly the
   padding the callback returned, the callback sees (available - needed, trailing size), and the result is one
   well-formed ID3v2 tag under the strict header reader (syncsafe size round trip from the C14 theorems). *)
From Coq Require Import ZArith List Bool Lia.
Import ListNotations.
Require Import Base.Py Base.ZList Gen.Gen_tags Model.Id3Util Model.Fam_carrier
  Proofs.C14_tostr Proofs.Fam_iff_codec Proofs.Fam_iff_chunks.
Open Scope Z_scope.

Lemma to_str_syncsafe v bs : to_str v 7 true 4 4 = Ok bs ->
  0 <= v < 2 ^ 28 /\ zlen bs = 4 /\ Forall (fun b => 0 <= b < 2 ^ 7) bs /\ bpi_of_bytes 7 true bs = Ok v.
Proof.
  intros Hs. destruct (Z.lt_ge_cases v 0) as [Hn|Hn].
  { rewrite to_str_rejects_negative in Hs by exact Hn. discriminate. }
  destruct (Z.lt_ge_cases v (2 ^ (7 * 4))) as [Hw|Hw].
  - destruct (to_str_fixed_ok 7 true 4 4 v ltac:(lia) ltac:(lia) ltac:(lia)) as (A & B & C & _ & E).
    rewrite A in Hs. inversion Hs; subst bs. repeat split; try assumption; lia.
  - rewrite to_str_rejects_wide in Hs by lia. discriminate.
Qed.

Theorem id3_prepare_spec fd ver cb avail trailing tag : id3_prepare fd ver cb avail trailing = Ok tag ->
  let p := cb (avail - (zlen fd + 10)) trailing in
  0 <= p /\ zlen tag = zlen fd + 10 + p /\
  (exists sz, zlen sz = 4 /\ tag = ID3_MAGIC ++ [ver; 0; 0] ++ sz ++ fd ++ zeros p) /\
  id3_tag_exact tag = true.
Proof.
  unfold id3_prepare, pad_info, _get_padding. cbn [fst snd]. intros Hp. cbv zeta in *.
  set (p := cb (avail - (zlen fd + 10)) trailing) in *.
  destruct (p <? 0) eqn:E; [discriminate|]. apply Z.ltb_ge in E.
  destruct (to_str (zlen fd + 10 + p - 10) 7 true 4 4) as [sz|e] eqn:Ts; cbn [rbind] in Hp; [|discriminate].
  inversion Hp; subst tag. clear Hp. destruct (to_str_syncsafe _ _ Ts) as (Hv & Lsz & Fsz & Bsz).
  pose proof (zlen_nonneg fd) as Hfd.
  assert (Lt : zlen (ID3_MAGIC ++ [ver; 0; 0] ++ sz ++ fd ++ zeros p) = zlen fd + 10 + p).
  { rewrite !zlen_app, Lsz, zlen_zeros by lia. unfold ID3_MAGIC. unfold zlen at 1 2. cbn [length]. lia. }
  split; [exact E|]. split; [exact Lt|]. split; [exists sz; split; [exact Lsz | reflexivity]|].
  change (73 :: 68 :: 51 :: ver :: 0 :: 0 :: sz ++ fd ++ zeros p) with (ID3_MAGIC ++ [ver; 0; 0] ++ sz ++ fd ++ zeros p).
  unfold id3_tag_exact, id3_tag_extent. rewrite Lt. bset (zlen fd + 10 + p <? 10) false.
  rewrite ztake_app_len by reflexivity. rewrite list_eqb_refl. cbn [negb].
  assert (Es : zslice 6 10 (ID3_MAGIC ++ [ver; 0; 0] ++ sz ++ fd ++ zeros p) = sz).
  { replace (ID3_MAGIC ++ [ver; 0; 0] ++ sz ++ fd ++ zeros p) with ((ID3_MAGIC ++ [ver; 0; 0]) ++ sz ++ fd ++ zeros p)
      by (rewrite <- app_assoc; reflexivity).
    apply zslice_mid; [reflexivity|]. rewrite Lsz. reflexivity. }
  rewrite Es.
  assert (Hall : forallb (fun b => (0 <=? b) && (b <? 128)) sz = true).
  { apply forallb_forall. intros b Hb. rewrite Forall_forall in Fsz. specialize (Fsz b Hb).
    change (2 ^ 7) with 128 in Fsz. apply andb_true_iff. split; [apply Z.leb_le | apply Z.ltb_lt]; lia. }
  rewrite Hall, Bsz. cbn [negb]. apply Z.eqb_eq. lia.
Qed.

(* the callback's view, as an equation: returning info.padding (when non-negative) gives a tag of the old size *)
Corollary id3_prepare_keep fd ver cb avail trailing tag : id3_prepare fd ver cb avail trailing = Ok tag ->
  cb (avail - (zlen fd + 10)) trailing = avail - (zlen fd + 10) -> zlen tag = avail.
Proof. intros Hp Hk. destruct (id3_prepare_spec _ _ _ _ _ _ Hp) as (_ & L & _). cbv zeta in L. rewrite Hk in L. lia. Qed.
