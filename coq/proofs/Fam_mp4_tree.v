(* The MP4 atom tree: induction principle, unfolding lemmas for the nested fixpoints, what the strict rules
   (mp4_forest_ok) imply: bounds, nesting, the ordered segment list (container headers and leaves partition the file),
   and the atom count bound used for the parser's fuel. *)
From Coq Require Import ZArith List Bool Lia.
Import ListNotations.
Require Import Base.Py Base.ZList Model.Splice Model.Fam_mp4 Proofs.Fam_mp4_bytes.
Open Scope Z_scope.

(* ------------------------------------------------------------------ induction principle *)
Section AtomInd.
  Variable P : mp4_atom -> Prop.
  Hypothesis Hleaf : forall n o l h, P (MAtom n o l h None).
  Hypothesis Hnode : forall n o l h ks, Forall P ks -> P (MAtom n o l h (Some ks)).
  Fixpoint mp4_atom_ind' (a : mp4_atom) : P a :=
    match a with
    | MAtom n o l h None => Hleaf n o l h
    | MAtom n o l h (Some ks) =>
      Hnode n o l h ks
        ((fix go (l0 : list mp4_atom) : Forall P l0 :=
            match l0 with
            | [] => Forall_nil P
            | k :: r => Forall_cons k (mp4_atom_ind' k) (go r)
            end) ks)
    end.
End AtomInd.

(* ------------------------------------------------------------------ unfolding the nested fixpoints *)
Lemma atom_ok_node f top n o l h ks :
  mp4_atom_ok f top (MAtom n o l h (Some ks)) =
  mp4_header_ok f top n o l h && (mp4_is_container n && mp4_forest_ok f false ks (o + h + mp4_skip n) (o + l)).
Proof.
  cbn [mp4_atom_ok]. f_equal. f_equal. generalize (o + h + mp4_skip n).
  induction ks as [|k r IH]; intros p; [reflexivity|].
  cbn [mp4_forest_ok]. rewrite <- IH. reflexivity.
Qed.
Lemma atom_ok_leaf f top n o l h :
  mp4_atom_ok f top (MAtom n o l h None) = mp4_header_ok f top n o l h && negb (mp4_is_container n).
Proof. reflexivity. Qed.

Lemma flat_atom_node n o l h ks :
  mp4_flat_atom (MAtom n o l h (Some ks)) = MAtom n o l h (Some ks) :: mp4_flat ks.
Proof.
  reflexivity.
Qed.
Lemma flat_atom_leaf n o l h : mp4_flat_atom (MAtom n o l h None) = [MAtom n o l h None].
Proof. reflexivity. Qed.
Lemma flat_cons k r : mp4_flat (k :: r) = mp4_flat_atom k ++ mp4_flat r.
Proof. reflexivity. Qed.
Lemma flat_app a b : mp4_flat (a ++ b) = mp4_flat a ++ mp4_flat b.
Proof. unfold mp4_flat. apply flat_map_app. Qed.
Lemma flat_atom_head a : exists r, mp4_flat_atom a = a :: r.
Proof. destruct a as [n o l h [ks|]]; eexists; [apply flat_atom_node|apply flat_atom_leaf]. Qed.
Lemma in_flat_self a ks : In a ks -> In a (mp4_flat ks).
Proof.
  intros H. unfold mp4_flat. apply in_flat_map. exists a. split; [assumption|].
  destruct (flat_atom_head a) as [r ->]. left; reflexivity.
Qed.
Lemma in_flat_kids a ks x : In a ks -> ma_kids a = Some x -> forall y, In y (mp4_flat x) -> In y (mp4_flat ks).
Proof.
  intros Ha Hk y Hy. unfold mp4_flat at 1. apply in_flat_map. exists a. split; [assumption|].
  destruct a as [n o l h [k0|]]; cbn in Hk; [|discriminate]. inversion Hk; subst.
  rewrite flat_atom_node. right. exact Hy.
Qed.

Definition findall_step (n : list Z) (c : mp4_atom) : list mp4_atom :=
  (if list_eqb (ma_name c) n then [c] else []) ++ mp4_findall_atom n c.
Lemma findall_node nm n o l h ks :
  mp4_findall_atom nm (MAtom n o l h (Some ks)) = flat_map (findall_step nm) ks.
Proof.
  cbn [mp4_findall_atom]. induction ks as [|k r IH]; [reflexivity|].
  cbn [flat_map]. unfold findall_step at 1. rewrite <- app_assoc. rewrite <- IH. reflexivity.
Qed.
Lemma findall_leaf nm n o l h : mp4_findall_atom nm (MAtom n o l h None) = [].
Proof. reflexivity. Qed.

(* everything findall returns is a proper descendant with that name *)
Lemma findall_in_flat nm a : forall x, In x (mp4_findall_atom nm a) ->
  ma_name x = nm /\ exists ks, ma_kids a = Some ks /\ In x (mp4_flat ks).
Proof.
  induction a as [n o l h|n o l h ks IH] using mp4_atom_ind'; intros x Hx.
  - rewrite findall_leaf in Hx. destruct Hx.
  - rewrite findall_node in Hx. apply in_flat_map in Hx. destruct Hx as (c & Hc & Hx).
    unfold findall_step in Hx. apply in_app_or in Hx. destruct Hx as [Hx|Hx].
    + destruct (list_eqb (ma_name c) nm) eqn:E; [|destruct Hx]. destruct Hx as [<-|[]].
      apply list_eqb_spec in E. split; [assumption|]. exists ks. split; [reflexivity|]. apply in_flat_self; assumption.
    + rewrite Forall_forall in IH. destruct (IH c Hc x Hx) as (Hn & ks' & Hk & Hin).
      split; [assumption|]. exists ks. split; [reflexivity|]. eapply in_flat_kids; eassumption.
Qed.

(* ------------------------------------------------------------------ header facts *)
Lemma header_ok_facts f top n o l h :
  mp4_header_ok f top n o l h = true ->
  0 <= o /\ o + 8 <= zlen f /\ o + l <= zlen f /\ 8 <= l /\ (h = 8 \/ h = 16) /\ h <= l /\
  mp4_rd f (o + 4) 4 = n.
Proof.
  unfold mp4_header_ok. intros H.
  apply andb_true_iff in H. destruct H as [H HE].
  apply andb_true_iff in H. destruct H as [H HD].
  apply andb_true_iff in H. destruct H as [H HC].
  apply andb_true_iff in H. destruct H as [HA HB].
  apply Z.leb_le in HA. apply Z.eqb_eq in HB. apply list_eqb_spec in HC. apply Z.leb_le in HD.
  assert (Hfit : o + 8 <= zlen f) by (apply zlen_rd_full; lia).
  rewrite zdrop_rd in HC by lia. replace (8 - 4) with 4 in HC by lia.
  assert (Hforms : 8 <= l /\ (h = 8 \/ h = 16) /\ h <= l).
  { apply orb_true_iff in HE. destruct HE as [HE|HE]; [apply orb_true_iff in HE; destruct HE as [HE|HE]|].
    - apply andb_true_iff in HE. destruct HE as [HE H3]. apply andb_true_iff in HE. destruct HE as [H1 H2]. lia.
    - apply andb_true_iff in HE. destruct HE as [HE H5]. apply andb_true_iff in HE. destruct HE as [HE H4].
      apply andb_true_iff in HE. destruct HE as [HE H3]. apply andb_true_iff in HE. destruct HE as [H1 H2]. lia.
    - apply andb_true_iff in HE. destruct HE as [HE H4]. apply andb_true_iff in HE. destruct HE as [HE H3].
      apply andb_true_iff in HE. destruct HE as [H1 H2]. lia. }
  repeat split; try assumption; try lia.
Qed.

Lemma atom_ok_header f top a : mp4_atom_ok f top a = true ->
  mp4_header_ok f top (ma_name a) (ma_off a) (ma_len a) (ma_hdr a) = true.
Proof.
  destruct a as [n o l h [ks|]]; [rewrite atom_ok_node|rewrite atom_ok_leaf]; intros H;
    apply andb_true_iff in H; destruct H as [H _]; exact H.
Qed.
Lemma atom_ok_kids f top a ks : mp4_atom_ok f top a = true -> ma_kids a = Some ks ->
  mp4_is_container (ma_name a) = true /\
  mp4_forest_ok f false ks (ma_off a + ma_hdr a + mp4_skip (ma_name a)) (ma_off a + ma_len a) = true.
Proof.
  destruct a as [n o l h [k0|]]; cbn [ma_kids]; intros H E; [|discriminate]. inversion E; subst.
  rewrite atom_ok_node in H. apply andb_true_iff in H. destruct H as [_ H].
  apply andb_true_iff in H. exact H.
Qed.
Lemma atom_ok_leaf_name f top a : mp4_atom_ok f top a = true -> ma_kids a = None -> mp4_is_container (ma_name a) = false.
Proof.
  destruct a as [n o l h [k0|]]; cbn [ma_kids]; intros H E; [discriminate|].
  rewrite atom_ok_leaf in H. apply andb_true_iff in H. destruct H as [_ H]. apply negb_true_iff in H. exact H.
Qed.
Lemma atom_ok_kids_iff f top a : mp4_atom_ok f top a = true ->
  (mp4_is_container (ma_name a) = true <-> exists ks, ma_kids a = Some ks).
Proof.
  intros H. destruct (ma_kids a) as [ks|] eqn:E.
  - split; [intros _; eauto|intros _]. eapply atom_ok_kids; eassumption.
  - pose proof (atom_ok_leaf_name _ _ _ H E) as Hn. split; [congruence|intros (ks & Hk); discriminate].
Qed.

Lemma forest_ok_cons f top k r p e :
  mp4_forest_ok f top (k :: r) p e = true ->
  ma_off k = p /\ mp4_atom_ok f top k = true /\ mp4_forest_ok f top r (p + ma_len k) e = true.
Proof.
  cbn [mp4_forest_ok]. intros H. apply andb_true_iff in H. destruct H as [H H3].
  apply andb_true_iff in H. destruct H as [H1 H2]. apply Z.eqb_eq in H1. auto.
Qed.
Lemma forest_ok_nil f top p e : mp4_forest_ok f top [] p e = true -> p = e.
Proof. cbn. apply Z.eqb_eq. Qed.
Lemma forest_ok_intro f top k r p e :
  ma_off k = p -> mp4_atom_ok f top k = true -> mp4_forest_ok f top r (p + ma_len k) e = true ->
  mp4_forest_ok f top (k :: r) p e = true.
Proof. intros H1 H2 H3. cbn [mp4_forest_ok]. rewrite H2, H3. apply Z.eqb_eq in H1. rewrite H1. reflexivity. Qed.

Lemma atom_ok_len f top a : mp4_atom_ok f top a = true ->
  0 <= ma_off a /\ ma_off a + 8 <= zlen f /\ ma_off a + ma_len a <= zlen f /\ 8 <= ma_len a /\
  (ma_hdr a = 8 \/ ma_hdr a = 16) /\ ma_hdr a <= ma_len a.
Proof.
  intros H. apply atom_ok_header in H. apply header_ok_facts in H. tauto.
Qed.

Lemma forest_ok_le f top ks : forall p e, mp4_forest_ok f top ks p e = true -> p <= e.
Proof.
  induction ks as [|k r IH]; intros p e H.
  - apply forest_ok_nil in H. lia.
  - apply forest_ok_cons in H. destruct H as (H1 & H2 & H3). apply IH in H3.
    apply atom_ok_len in H2. lia.
Qed.

(* the forest splits at any point of the list: tiling is a chain *)
Lemma forest_ok_app f top a b : forall p e,
  mp4_forest_ok f top (a ++ b) p e = true ->
  exists m, mp4_forest_ok f top a p m = true /\ mp4_forest_ok f top b m e = true.
Proof.
  induction a as [|k r IH]; intros p e H.
  - exists p. split; [cbn; apply Z.eqb_refl|exact H].
  - cbn [app] in H. apply forest_ok_cons in H. destruct H as (H1 & H2 & H3).
    destruct (IH _ _ H3) as (m & Ha & Hb). exists m. split; [|exact Hb].
    apply forest_ok_intro; assumption.
Qed.
Lemma forest_ok_app_intro f top a b p m e :
  mp4_forest_ok f top a p m = true -> mp4_forest_ok f top b m e = true ->
  mp4_forest_ok f top (a ++ b) p e = true.
Proof.
  revert p. induction a as [|k r IH]; intros p Ha Hb.
  - apply forest_ok_nil in Ha. subst. exact Hb.
  - apply forest_ok_cons in Ha. destruct Ha as (H1 & H2 & H3). cbn [app].
    apply forest_ok_intro; auto.
Qed.

(* every atom of the forest lies inside [p, e) *)
Definition within (p e : Z) (a : mp4_atom) : Prop := p <= ma_off a /\ ma_off a + ma_len a <= e.
Lemma within_weaken p e p' e' a : within p e a -> p' <= p -> e <= e' -> within p' e' a.
Proof. unfold within; lia. Qed.

Lemma atom_within f : forall a top, mp4_atom_ok f top a = true ->
  Forall (within (ma_off a) (ma_off a + ma_len a)) (mp4_flat_atom a).
Proof.
  induction a as [n o l h|n o l h ks IH] using mp4_atom_ind'; intros top H.
  - rewrite flat_atom_leaf. constructor; [|constructor]. unfold within; cbn. apply atom_ok_len in H. cbn in H. lia.
  - rewrite flat_atom_node. pose proof (atom_ok_len _ _ _ H) as Hl. cbn in Hl.
    constructor. { unfold within; cbn. lia. }
    destruct (atom_ok_kids _ _ _ ks H eq_refl) as (_ & Hk). cbn [ma_off ma_len ma_hdr ma_name] in *.
    assert (Hs : 0 <= mp4_skip n) by (unfold mp4_skip; destruct (list_eqb n N_meta); lia).
    assert (Hgen : forall p, o + h + mp4_skip n <= p -> mp4_forest_ok f false ks p (o + l) = true ->
                   Forall (within o (o + l)) (mp4_flat ks)).
    { clear H Hk. induction ks as [|k r IHr]; intros p Hp Hf; [constructor|].
      apply forest_ok_cons in Hf. destruct Hf as (H1 & H2 & H3).
      inversion IH as [|? ? Hk0 Hr0]; subst. rewrite flat_cons. apply Forall_app. split.
      - pose proof (Hk0 _ H2) as Hw. pose proof (forest_ok_le _ _ _ _ _ H3) as Hle.
        eapply Forall_impl; [|exact Hw]. intros a Ha. eapply within_weaken; [exact Ha|lia|lia].
      - apply (IHr Hr0 (ma_off k + ma_len k)); [|exact H3].
        apply atom_ok_len in H2. lia. }
    apply (Hgen _ (Z.le_refl _) Hk).
Qed.

Lemma forest_within f top ks : forall p e, mp4_forest_ok f top ks p e = true -> Forall (within p e) (mp4_flat ks).
Proof.
  induction ks as [|k r IH]; intros p e H; [constructor|].
  apply forest_ok_cons in H. destruct H as (H1 & H2 & H3).
  rewrite flat_cons. apply Forall_app. split.
  - pose proof (atom_within f k top H2) as Hw. pose proof (forest_ok_le _ _ _ _ _ H3) as Hle.
    eapply Forall_impl; [|exact Hw]. intros a Ha. eapply within_weaken; [exact Ha|lia|lia].
  - pose proof (IH _ _ H3) as Hw. apply atom_ok_len in H2.
    eapply Forall_impl; [|exact Hw]. intros a Ha. eapply within_weaken; [exact Ha|lia|lia].
Qed.

(* every atom in the flattening satisfies the strict rules itself *)
Lemma atom_flat_ok f : forall a top, mp4_atom_ok f top a = true ->
  Forall (fun x => x = a \/ mp4_atom_ok f false x = true) (mp4_flat_atom a).
Proof.
  induction a as [n o l h|n o l h ks IH] using mp4_atom_ind'; intros top H.
  - rewrite flat_atom_leaf. constructor; [left; reflexivity|constructor].
  - rewrite flat_atom_node. constructor; [left; reflexivity|].
    destruct (atom_ok_kids _ _ _ ks H eq_refl) as (_ & Hk). cbn [ma_off ma_len ma_hdr ma_name] in Hk.
    assert (Hgen : forall p, mp4_forest_ok f false ks p (o + l) = true ->
              Forall (fun x => mp4_atom_ok f false x = true) (mp4_flat ks)).
    { clear H Hk. induction ks as [|k r IHr]; intros p Hf; [constructor|].
      apply forest_ok_cons in Hf. destruct Hf as (H1 & H2 & H3).
      inversion IH as [|? ? Hk0 Hr0]; subst. rewrite flat_cons. apply Forall_app. split.
      + eapply Forall_impl; [|exact (Hk0 _ H2)]. intros x [->|Hx]; assumption.
      + eapply IHr; eassumption. }
    eapply Forall_impl; [|exact (Hgen _ Hk)]. intros x Hx. right. exact Hx.
Qed.
Lemma forest_flat_ok f top ks : forall p e, mp4_forest_ok f top ks p e = true ->
  Forall (fun x => mp4_atom_ok f top x = true \/ mp4_atom_ok f false x = true) (mp4_flat ks).
Proof.
  induction ks as [|k r IH]; intros p e H; [constructor|].
  apply forest_ok_cons in H. destruct H as (H1 & H2 & H3). rewrite flat_cons. apply Forall_app. split.
  - eapply Forall_impl; [|exact (atom_flat_ok f k top H2)]. intros x [->|Hx]; [left|right]; assumption.
  - eapply IH; eassumption.
Qed.

(* ------------------------------------------------------------------ segments: container headers and leaves partition the file *)
Definition seg := (Z * Z * mp4_atom)%type.
Definition s_lo (s : seg) : Z := fst (fst s).
Definition s_hi (s : seg) : Z := snd (fst s).
Definition s_at (s : seg) : mp4_atom := snd s.
Definition seg_of (a : mp4_atom) : seg :=
  match ma_kids a with
  | None => (ma_off a, ma_off a + ma_len a, a)
  | Some _ => (ma_off a, ma_off a + ma_hdr a + mp4_skip (ma_name a), a)
  end.
Definition segs (ks : list mp4_atom) : list seg := map seg_of (mp4_flat ks).

Fixpoint ordered (l : list seg) : Prop :=
  match l with
  | [] => True
  | s :: r => Forall (fun t => s_hi s <= s_lo t) r /\ ordered r
  end.
Definition seg_in (p e : Z) (s : seg) : Prop := p <= s_lo s /\ s_lo s < s_hi s /\ s_hi s <= e.

Lemma ordered_app a b : ordered a -> ordered b ->
  (forall s t, In s a -> In t b -> s_hi s <= s_lo t) -> ordered (a ++ b).
Proof.
  induction a as [|x r IH]; intros Ha Hb Hab; [exact Hb|].
  destruct Ha as [Hx Hr]. cbn [app ordered]. split.
  - apply Forall_app. split; [exact Hx|]. apply Forall_forall. intros t Ht. apply Hab; [left; reflexivity|exact Ht].
  - apply IH; auto. intros s t Hs Ht. apply Hab; [right; exact Hs|exact Ht].
Qed.
Lemma ordered_in l : ordered l -> forall s t, In s l -> In t l -> s = t \/ s_hi s <= s_lo t \/ s_hi t <= s_lo s.
Proof.
  induction l as [|x r IH]; intros Ho s t Hs Ht; [destruct Hs|].
  destruct Ho as [Hx Hr]. rewrite Forall_forall in Hx.
  destruct Hs as [<-|Hs], Ht as [<-|Ht]; auto.
Qed.

Lemma skip_nonneg n : 0 <= mp4_skip n <= 4.
Proof. unfold mp4_skip. destruct (list_eqb n N_meta); lia. Qed.

Lemma segs_atom_ok f : forall a top, mp4_atom_ok f top a = true ->
  ordered (map seg_of (mp4_flat_atom a)) /\
  Forall (seg_in (ma_off a) (ma_off a + ma_len a)) (map seg_of (mp4_flat_atom a)).
Proof.
  induction a as [n o l h|n o l h ks IH] using mp4_atom_ind'; intros top H.
  - rewrite flat_atom_leaf. cbn [map]. apply atom_ok_len in H. cbn [ma_off ma_len ma_hdr] in H.
    split; [cbn; auto|]. constructor; [|constructor]. unfold seg_in, seg_of, s_lo, s_hi; cbn. lia.
  - rewrite flat_atom_node. cbn [map]. pose proof (atom_ok_len _ _ _ H) as Hl. cbn [ma_off ma_len ma_hdr] in Hl.
    destruct (atom_ok_kids _ _ _ ks H eq_refl) as (_ & Hk). cbn [ma_off ma_len ma_hdr ma_name] in *.
    pose proof (skip_nonneg n) as Hs. pose proof (forest_ok_le _ _ _ _ _ Hk) as Hle.
    assert (Hgen : forall p, mp4_forest_ok f false ks p (o + l) = true ->
              ordered (map seg_of (mp4_flat ks)) /\ Forall (seg_in p (o + l)) (map seg_of (mp4_flat ks))).
    { clear H Hk Hle. induction ks as [|k r IHr]; intros p Hf; [split; [exact I|constructor]|].
      apply forest_ok_cons in Hf. destruct Hf as (H1 & H2 & H3).
      inversion IH as [|? ? Hk0 Hr0]; subst. rewrite flat_cons, map_app.
      destruct (Hk0 _ H2) as (Ho1 & Hi1). destruct (IHr Hr0 _ H3) as (Ho2 & Hi2).
      pose proof (forest_ok_le _ _ _ _ _ H3) as Hle. pose proof (atom_ok_len _ _ _ H2) as Hlk.
      split.
      - apply ordered_app; auto. intros s t Hs0 Ht0.
        rewrite Forall_forall in Hi1, Hi2. specialize (Hi1 _ Hs0). specialize (Hi2 _ Ht0).
        unfold seg_in in *. lia.
      - apply Forall_app. split.
        + eapply Forall_impl; [|exact Hi1]. unfold seg_in. intros; lia.
        + eapply Forall_impl; [|exact Hi2]. unfold seg_in. intros; lia. }
    destruct (Hgen _ Hk) as (Ho & Hi). split.
    + cbn [ordered]. split; [|exact Ho]. eapply Forall_impl; [|exact Hi].
      unfold seg_in, seg_of, s_hi, s_lo. cbn. intros; lia.
    + constructor.
      * unfold seg_in, seg_of, s_hi, s_lo. cbn. lia.
      * eapply Forall_impl; [|exact Hi]. unfold seg_in. intros; lia.
Qed.

Lemma segs_ok f top ks : forall p e, mp4_forest_ok f top ks p e = true ->
  ordered (segs ks) /\ Forall (seg_in p e) (segs ks).
Proof.
  unfold segs. induction ks as [|k r IH]; intros p e H; [split; [exact I|constructor]|].
  apply forest_ok_cons in H. destruct H as (H1 & H2 & H3). rewrite flat_cons, map_app.
  destruct (segs_atom_ok f k top H2) as (Ho1 & Hi1). destruct (IH _ _ H3) as (Ho2 & Hi2).
  pose proof (forest_ok_le _ _ _ _ _ H3) as Hle. pose proof (atom_ok_len _ _ _ H2) as Hlk.
  split.
  - apply ordered_app; auto. intros s t Hs0 Ht0.
    rewrite Forall_forall in Hi1, Hi2. specialize (Hi1 _ Hs0). specialize (Hi2 _ Ht0). unfold seg_in in *. lia.
  - apply Forall_app. split.
    + eapply Forall_impl; [|exact Hi1]. unfold seg_in. intros; lia.
    + eapply Forall_impl; [|exact Hi2]. unfold seg_in. intros; lia.
Qed.

(* two atoms of a well-formed forest: the same atom, or their segments are disjoint *)
Lemma segs_disjoint f top ks p e x y :
  mp4_forest_ok f top ks p e = true -> In x (mp4_flat ks) -> In y (mp4_flat ks) ->
  x = y \/ s_hi (seg_of x) <= s_lo (seg_of y) \/ s_hi (seg_of y) <= s_lo (seg_of x).
Proof.
  intros H Hx Hy. destruct (segs_ok _ _ _ _ _ H) as (Ho & _).
  destruct (ordered_in _ Ho (seg_of x) (seg_of y)) as [E|E].
  - apply in_map; assumption.
  - apply in_map; assumption.
  - left. assert (s_at (seg_of x) = s_at (seg_of y)) by (rewrite E; reflexivity).
    unfold seg_of, s_at in H0. destruct (ma_kids x), (ma_kids y); cbn in H0; exact H0.
  - right. exact E.
Qed.

(* ------------------------------------------------------------------ atom count (fuel of the parser) *)
Fixpoint cnt_atom (a : mp4_atom) : nat :=
  S (match a with
     | MAtom _ _ _ _ None => O
     | MAtom _ _ _ _ (Some ks) =>
       (fix go (l : list mp4_atom) : nat := match l with [] => O | c :: r => (cnt_atom c + go r)%nat end) ks
     end).
Fixpoint cnt_forest (l : list mp4_atom) : nat :=
  match l with [] => O | c :: r => (cnt_atom c + cnt_forest r)%nat end.
Lemma cnt_node n o l h ks : cnt_atom (MAtom n o l h (Some ks)) = S (cnt_forest ks).
Proof.
  reflexivity.
Qed.
Lemma cnt_pos a : (1 <= cnt_atom a)%nat.
Proof. destruct a; cbn [cnt_atom]; lia. Qed.

Lemma cnt_atom_bound f : forall a top, mp4_atom_ok f top a = true -> 8 * Z.of_nat (cnt_atom a) <= ma_len a.
Proof.
  induction a as [n o l h|n o l h ks IH] using mp4_atom_ind'; intros top H.
  - apply atom_ok_len in H. cbn in *. lia.
  - rewrite cnt_node. pose proof (atom_ok_len _ _ _ H) as Hl. cbn [ma_off ma_len ma_hdr] in Hl.
    destruct (atom_ok_kids _ _ _ ks H eq_refl) as (_ & Hk). cbn [ma_off ma_len ma_hdr ma_name] in *.
    pose proof (skip_nonneg n) as Hs.
    assert (Hgen : forall p, mp4_forest_ok f false ks p (o + l) = true -> 8 * Z.of_nat (cnt_forest ks) <= o + l - p).
    { clear H Hk. induction ks as [|k r IHr]; intros p Hf.
      - apply forest_ok_nil in Hf. cbn. lia.
      - apply forest_ok_cons in Hf. destruct Hf as (H1 & H2 & H3).
        inversion IH as [|? ? Hk0 Hr0]; subst. specialize (Hk0 _ H2). specialize (IHr Hr0 _ H3).
        cbn [cnt_forest]. lia. }
    specialize (Hgen _ Hk). lia.
Qed.
Lemma cnt_forest_bound f top ks : forall p e, mp4_forest_ok f top ks p e = true -> 8 * Z.of_nat (cnt_forest ks) <= e - p.
Proof.
  induction ks as [|k r IH]; intros p e H.
  - apply forest_ok_nil in H. cbn. lia.
  - apply forest_ok_cons in H. destruct H as (H1 & H2 & H3).
    pose proof (cnt_atom_bound f k top H2). specialize (IH _ _ H3). cbn [cnt_forest]. lia.
Qed.

(* ------------------------------------------------------------------ nesting depth *)
Lemma height_node n o l h ks : mp4_height (MAtom n o l h (Some ks)) = 1 + mp4_forest_height ks.
Proof. reflexivity. Qed.
Lemma height_leaf n o l h : mp4_height (MAtom n o l h None) = 1.
Proof. reflexivity. Qed.
Lemma height_pos a : 1 <= mp4_height a.
Proof.
  induction a as [n o l h|n o l h ks IH] using mp4_atom_ind'; [rewrite height_leaf; lia|].
  rewrite height_node. assert (0 <= mp4_forest_height ks); [|lia].
  clear IH. induction ks as [|k r IHr]; cbn [mp4_forest_height]; lia.
Qed.
Lemma forest_height_nonneg l : 0 <= mp4_forest_height l.
Proof. induction l as [|k r IH]; cbn [mp4_forest_height]; lia. Qed.
Lemma forest_height_app a b : mp4_forest_height (a ++ b) = Z.max (mp4_forest_height a) (mp4_forest_height b).
Proof.
  induction a as [|k r IH]; cbn [app mp4_forest_height]; [pose proof (forest_height_nonneg b); lia|]. rewrite IH. lia.
Qed.
Lemma forest_height_cons k r : mp4_forest_height (k :: r) = Z.max (mp4_height k) (mp4_forest_height r).
Proof. reflexivity. Qed.
Lemma height_kids a ks : ma_kids a = Some ks -> mp4_height a = 1 + mp4_forest_height ks.
Proof. destruct a as [n o l h [k|]]; cbn [ma_kids]; intros E; [inversion E; subst; apply height_node|discriminate]. Qed.
Lemma add_max_le k a b c : k + Z.max a b <= c <-> k + a <= c /\ k + b <= c.
Proof. lia. Qed.
