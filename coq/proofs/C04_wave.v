(* Proofs.C04_wave -- totality of the WAVE.load mirror (Model.Parse_wave); the walk argument is that of
   Proofs.C04_aiff (a parsed chunk starts where the walk sought to, its header lies inside the data). *)
From Coq Require Import ZArith List Bool Lia.
Import ListNotations.
Require Import Base.Py Base.ZList Model.Parse_base Model.Parse_aiff Model.Parse_wave Proofs.C04_lib Proofs.C04_aiff.
Open Scope Z_scope.

Definition rchunk_ok (d : list Z) (p : Z) (c : option (iff_chunk * list Z)) : Prop :=
  match c with None => True | Some (ch, _) => chunk_ok d p ch end.

Lemma riff_parse_spec d p : bytes_ok d -> 0 <= p ->
  pspec riff_parse d p (fun c p' => 0 <= p' /\ rchunk_ok d p c).
Proof.
  intros Hd Hp. unfold riff_parse. pose proof (zlen_nonneg d).
  pstep. pstep.
  destruct (zlen r <? 8) eqn:E8; [pstep; split; [lia|exact I]|]. apply Z.ltb_ge in E8.
  destruct (zlen r =? 8) eqn:E8'; cbn [negb]; [|apply Z.eqb_neq in E8'; lia]. apply Z.eqb_eq in E8'.
  cbv zeta.
  pose proof (le_decode_bound (zslice 4 8 r) (bytes_ok_zslice _ _ _ (bytes_ok_rd _ _ _ Hd))) as Hds.
  set (ds := le_decode (zslice 4 8 r)) in *.
  destruct (iff_ascii (zslice 0 4 r)); cbn [negb]; [|pstep; split; [lia|exact I]].
  destruct (iff_valid_id (iff_rstrip (zslice 0 4 r))); cbn [negb]; [|pstep; split; [lia|exact I]].
  pstep. pstep. rewrite iff_size_even. cbn [Z.eqb negb].
  assert (Hok : chunk_ok d p (iff_rstrip (zslice 0 4 r), ds, p + zlen r)).
  { unfold chunk_ok. cbn [fst snd]. lia. }
  destruct (list_eqb (iff_rstrip (zslice 0 4 r)) riff_LIST || list_eqb (iff_rstrip (zslice 0 4 r)) riff_RIFF).
  - destruct (ds <? 4); [pstep; split; [lia|exact I]|].
    pstep. pstep. destruct (iff_ascii r0); cbn [negb]; [|praiseM].
    pstep. split; [lia|exact Hok].
  - pstep. split; [lia|exact Hok].
Qed.

Lemma riff_subchunks_spec d end_ : bytes_ok d -> forall fuel next p,
  0 <= next -> 0 <= p -> 1 <= Z.of_nat fuel -> zlen d + 2 - next <= Z.of_nat fuel ->
  pspec (riff_subchunks fuel next end_) d p (fun l p' => 0 <= p' /\ chunks_in d l).
Proof.
  intros Hd. induction fuel as [|f IH]; intros next p Hn Hp Hf1 Hf; [lia|].
  cbn [riff_subchunks]. pose proof (zlen_nonneg d).
  destruct (next <? end_); cbn [negb]; [|pstep; split; [lia|constructor]].
  pstep. eapply pspecE_post; [apply seek_try_spec; assumption|].
  intros b p1 [Hp1 Hb]. cbv beta.
  destruct b; cbn [negb]; [|pstep; split; [lia|constructor]].
  specialize (Hb eq_refl). subst p1.
  pstep. eapply pspecE_post; [apply riff_parse_spec; assumption|].
  intros [[[[id ds] doff] name]|] p2 [Hp2 Hc]; cbv beta iota; [|pstep; split; [lia|constructor]].
  destruct Hc as (Hds & Hdoff & Hle). cbn [fst snd] in Hds, Hdoff, Hle.
  pose proof (Z.mod_pos_bound ds 2 ltac:(lia)).
  pstep. eapply pspecE_post.
  - apply IH; unfold iff_chunk_end; lia.
  - intros rest p3 [Hp3 Hall]. cbv beta. pstep. split; [lia|]. constructor; [cbn [snd]; lia|exact Hall].
Qed.

Lemma riff_rename_in d l : chunks_in d l -> chunks_in d (riff_rename l).
Proof.
  unfold chunks_in. induction 1 as [|c t Hc Ht IH]; cbn [riff_rename]; [constructor|].
  destruct (list_eqb (fst (fst c)) riff_ID3); constructor; auto.
Qed.

Definition found_ok (d : list Z) (c : option iff_chunk) : Prop :=
  match c with None => True | Some ch => 0 <= snd ch <= zlen d end.

Lemma riff_getitem_spec d root subs id p : bytes_ok d -> chunk_ok d 0 root -> chunks_in d subs -> 0 <= p ->
  pspec (riff_getitem (lin_fuel 1 1 d) root subs id) d p
        (fun r p' => 0 <= p' /\ found_ok d (fst r) /\ chunks_in d (snd r)).
Proof.
  intros Hd Hroot Hsubs Hp. unfold riff_getitem. pose proof (zlen_nonneg d).
  pstep. apply pspecE_post with (Q := fun l p' => 0 <= p' /\ chunks_in d l).
  - unfold riff_subchunks_cached. destruct subs as [|c t]; [|pstep; split; [lia|exact Hsubs]].
    destruct root as [[rid ds] doff]. destruct Hroot as (Hds & Hdoff & Hle). cbn [fst snd] in *.
    apply riff_subchunks_spec; first [assumption | unfold lin_fuel; lia].
  - intros l p' [Hp' Hall]. cbv beta. pstep. cbn [fst snd]. split; [lia|split; [|exact Hall]].
    unfold found_ok. destruct (iff_find id l) as [c|] eqn:Ef; [|exact I].
    apply iff_find_In in Ef. unfold chunks_in in Hall. rewrite Forall_forall in Hall. exact (Hall c Ef).
Qed.

Definition wfile_ok (d : list Z) (f : option (iff_chunk * list iff_chunk)) : Prop :=
  match f with None => True | Some (root, subs) => chunk_ok d 0 root /\ chunks_in d subs end.

Lemma wave_file_spec d p : bytes_ok d ->
  pspec (wave_file (lin_fuel 1 1 d)) d p (fun f p' => 0 <= p' /\ wfile_ok d f).
Proof.
  intros Hd. unfold wave_file. pstep. pstep. pstep.
  eapply pspecE_post; [apply riff_parse_spec; [assumption|lia]|].
  intros [[root name]|] p1 [Hp1 Hc]; cbv beta iota; [|pstep; split; [lia|exact I]].
  cbn [rchunk_ok] in Hc.
  destruct (list_eqb (fst (fst root)) riff_RIFF); cbn [negb]; [|pstep; split; [lia|exact I]].
  destruct (list_eqb name riff_WAVE); cbn [negb]; [|praiseM].
  pstep. eapply pspecE_post; [apply riff_getitem_spec; first [assumption | constructor]|].
  intros [c subs] p2 (Hp2 & Hc2 & Hs2). cbn [fst snd] in Hc2, Hs2. cbv beta iota.
  destruct c as [c|]; [|pstep; split; [lia|split; assumption]].
  pstep. eapply pspecE_post; [apply riff_getitem_spec; assumption|].
  intros [c' subs'] p3 (Hp3 & Hc3 & Hs3). cbn [fst snd] in Hc3, Hs3. cbv beta iota.
  pstep. split; [lia|split; [assumption|apply riff_rename_in; assumption]].
Qed.

Lemma p_read_any_pos n d p :
  pspecE (fun e => e = EMutagen \/ is_eoverflow e = true) (p_read n) d p (fun r p' => r = rd n p d /\ p' = p + zlen r).
Proof. unfold pspecE, p_read. destruct (in_ssize n); cbn [negb]; [split; reflexivity|right; reflexivity]. Qed.

Lemma wave_info_spec d p : c04_input d -> 0 <= p ->
  pspec (wave_info (lin_fuel 1 1 d)) d p (fun _ p' => 0 <= p').
Proof.
  intros [Hd Hlen] Hp. unfold wave_info. unfold c04_two62 in *. apply pspec_convert_io. pose proof (zlen_nonneg d).
  pstep. eapply pspecE_post; [apply wave_file_spec; assumption|].
  intros [[root subs]|] p1 [Hp1 Hf]; cbv beta iota; [|praiseM].
  destruct Hf as [Hroot Hsubs].
  pstep. eapply pspecE_post; [apply riff_getitem_spec; assumption|].
  intros [c subs1] p2 (Hp2 & Hc & Hs1). cbn [fst snd] in Hc, Hs1. cbv beta iota.
  destruct c as [[[id ds] doff]|]; [|praiseM].
  cbn [found_ok snd] in Hc. pstep. pstep. pstep.
  eapply pspecE_post; [apply pspec_catchM; apply p_read_any_pos|].
  intros data p3 [-> Hp3]. cbv beta.
  destruct (zlen (rd ds doff d) <? 16) eqn:E16; [praiseM|]. apply Z.ltb_ge in E16.
  cbv zeta. set (data := rd ds doff d) in *.
  assert (Hs : zlen (zslice 0 16 data) = 16) by (rewrite zlen_zslice; lia).
  rewrite Hs. cbn [Z.eqb Pos.eqb negb].
  pstep. apply pspecE_post with (Q := fun _ p' => 0 <= p').
  - destruct (0 <? le_decode (zslice 12 14 (zslice 0 16 data))) eqn:Eb; [|pstep; lia].
    apply Z.ltb_lt in Eb.
    pstep. eapply pspecE_post; [apply riff_getitem_spec; first [assumption | lia]|].
    intros [c' subs2] p4 (Hp4 & _ & _). cbv beta iota.
    destruct c' as [[[id' ds'] doff']|]; [|pstep; lia].
    destruct (le_decode (zslice 12 14 (zslice 0 16 data)) =? 0) eqn:Ez; [apply Z.eqb_eq in Ez; lia|]. pstep. lia.
  - intros dsz p4 Hp4. cbv beta.
    pstep. apply pspecE_post with (Q := fun _ p' => 0 <= p').
    + destruct (0 <? le_decode (zslice 4 8 (zslice 0 16 data))) eqn:Er; [|pstep; lia]. apply Z.ltb_lt in Er.
      destruct (le_decode (zslice 4 8 (zslice 0 16 data)) =? 0) eqn:Ez; [apply Z.eqb_eq in Ez; lia|]. pstep. lia.
    + intros _u p5 Hp5. cbv beta. pstep. lia.
Qed.

Lemma wave_pre_load_header_spec d p : c04_input d -> 0 <= p ->
  pspec (wave_pre_load_header (lin_fuel 1 1 d)) d p (fun _ _ => True).
Proof.
  intros [Hd Hlen] Hp. unfold wave_pre_load_header. unfold c04_two62 in *.
  pstep. eapply pspecE_post; [apply wave_file_spec; assumption|].
  intros [[root subs]|] p1 [Hp1 Hf]; cbv beta iota; [|pstep; exact I].
  destruct Hf as [Hroot Hsubs].
  pstep. eapply pspecE_post; [apply riff_getitem_spec; assumption|].
  intros [c subs1] p2 (Hp2 & Hc & _). cbn [fst] in Hc. cbv beta iota.
  destruct c as [[[id ds] doff]|]; [|pstep; exact I].
  cbn [found_ok snd] in Hc. pstep. pstep. pstep. exact I.
Qed.

Theorem wave_total d : c04_input d -> total (wave_load d).
Proof.
  intros Hin. unfold wave_load. eapply total_prun with (Q := fun _ _ => True).
  unfold wave_init. apply pspec_convert_io.
  pstep. eapply pspecE_post; [apply wave_info_spec; [assumption|lia]|].
  intros info p1 Hp1. cbv beta.
  pstep. pstep. pstep.
  eapply pspecE_post; [apply wave_pre_load_header_spec; [assumption|lia]|].
  intros loc p2 _. cbv beta. pstep. exact I.
Qed.
