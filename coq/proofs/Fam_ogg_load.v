(* Ogg family: the independent reader on the saved file (C01 / C08 / C09 at file level).
   Alignment of the two views of the file -- mutagen's page search and the independent reader's "second packet of
   the first stream with the codec's identification header" -- is an explicit hypothesis (ogg_aligned). *)
From Coq Require Import ZArith List Bool Lia.
Import ListNotations.
Require Import Base.Py Base.ZList Gen.Gen_tags Model.Crc Model.Ogg Model.Fam_flac Model.Fam_ogg.
Require Import Proofs.C15_page Proofs.C15_file Proofs.C15_replace Proofs.Fam_ogg_scan Proofs.Fam_ogg_locate Proofs.Fam_ogg_stream
  Proofs.Fam_ogg_inject Proofs.Fam_ogg_thms Proofs.Fam_ogg_final Proofs.Fam_ogg_packets Proofs.Fam_ogg_c02 Proofs.Fam_ogg_c01.
Open Scope Z_scope.

(* the comment packet starts on a page boundary, the edited stream is the one the independent reader looks at, and
   exactly one packet (the identification header) precedes the comment packet in it *)
Definition ogg_aligned (c : ogg_codec) (pages : list page) (k : ogg_cut) : Prop :=
  continued (cut_old0 k) = false /\ ogg_f_tagged c pages = Some (cut_s k) /\
  zlen (ogg_f_unpage (filter (is_serial (cut_s k)) (cut_before k))) = 1.

Lemma find_app_in {A} (P : A -> bool) a b : (exists x, In x a /\ P x = true) -> find P (a ++ b) = find P a.
Proof.
  intros (x & Hx & Px). induction a as [|y a IH]; [contradiction|]. cbn [app find]. destruct (P y) eqn:E; [reflexivity|].
  apply IH. destruct Hx as [->|Hx]; [rewrite Px in E; discriminate|exact Hx].
Qed.
Lemma find_ext_in {A} (P Q : A -> bool) a : (forall x, In x a -> P x = Q x) -> find P a = find Q a.
Proof.
  induction a as [|y a IH]; intros H; [reflexivity|]. cbn [find]. rewrite (H y (or_introl eq_refl)).
  destruct (Q y); [reflexivity|]. apply IH. intros x Hx. apply H. right. exact Hx.
Qed.
Lemma find_some_in {A} (P : A -> bool) a x : find P a = Some x -> In x a /\ P x = true.
Proof. apply find_some. Qed.

Lemma is_tagged_serial c pages p q : p_serial p = p_serial q -> ogg_f_is_tagged c pages p = ogg_f_is_tagged c pages q.
Proof. unfold ogg_f_is_tagged. intros ->. reflexivity. Qed.

Theorem save_obj_load f c t pad cb f' pages :
  ogg_parse f = Ok pages -> ogg_f_streams_ok pages = true ->
  ogg_save_obj f c t pad cb = Ok f' ->
  exists olds news k,
    cut_ok c t pad cb pages olds news k /\ ogg_f_inject c t pad cb f = Ok (olds, news) /\
    (ogg_aligned c pages k -> forall m, ogg_f_decode c (cut_d k) = Ok m -> ogg_load f' c = Ok m).
Proof.
  intros Hp Hs H.
  destruct (save_obj_packets f c t pad cb f' pages Hp Hs H) as (olds & news & k & K & P' & O & Pk & Inj).
  exists olds, news, k. split; [exact K|]. split; [exact Inj|]. intros (Hc & Ht & H1) m Hm.
  destruct (Pk Hc) as (post & E1 & E2). set (s := cut_s k) in *.
  destruct (ogg_f_unpage (filter (is_serial s) (cut_before k))) as [|x [|y pre']] eqn:Epre.
  { rewrite zlen_nil in H1. lia. }
  2:{ rewrite !zlen_cons in H1. pose proof (zlen_nonneg pre'). lia. }
  cbn [app] in E1, E2.
  unfold ogg_load. rewrite P'. unfold ogg_f_load_pages.
  pose proof K as (Ep & _).
  (* the predicate "belongs to a tagged stream" is the same before and after *)
  assert (Tg : forall q, ogg_f_is_tagged c (cut_result k news) q = ogg_f_is_tagged c pages q).
  { intros q. unfold ogg_f_is_tagged. destruct (p_serial q =? s) eqn:Es.
    - apply Z.eqb_eq in Es. rewrite Es, E1, E2. reflexivity.
    - apply Z.eqb_neq in Es. unfold ogg_f_stream_packets. rewrite !ogg_is_serial_eq.
      rewrite (filter_other s (p_serial q) _ Es), O, <- (filter_other s (p_serial q) _ Es). reflexivity. }
  (* a page of s lies in front of the old pages *)
  assert (HA : exists a, In a (cut_before k) /\ p_serial a = s).
  { destruct (filter (is_serial s) (cut_before k)) as [|a r] eqn:EA; [discriminate|].
    assert (In a (filter (is_serial s) (cut_before k))) by (rewrite EA; left; reflexivity).
    apply filter_In in H0 as [H0 H2]. exists a. split; [exact H0|]. apply Z.eqb_eq. exact H2. }
  destruct HA as (a & Ha & Sa).
  unfold ogg_f_tagged in Ht. destruct (find (ogg_f_is_tagged c pages) pages) as [ps|] eqn:Fd; [|discriminate].
  inversion Ht as [Sp]. destruct (find_some_in _ _ _ Fd) as (_ & Tp).
  assert (Ta : ogg_f_is_tagged c pages a = true) by (rewrite (is_tagged_serial c pages a ps); [exact Tp|rewrite Sa, Sp; reflexivity]).
  assert (Fd' : find (ogg_f_is_tagged c (cut_result k news)) (cut_result k news) = find (ogg_f_is_tagged c pages) pages).
  { set (Pn := ogg_f_is_tagged c (cut_result k news)) in *. set (Po := ogg_f_is_tagged c pages) in *.
    unfold cut_result. rewrite Ep.
    rewrite find_app_in by (exists a; split; [exact Ha|rewrite Tg; exact Ta]).
    rewrite find_app_in by (exists a; split; [exact Ha|exact Ta]).
    apply find_ext_in. intros q _. apply Tg. }
  unfold ogg_f_tagged. rewrite Fd', Fd, Sp. fold s. rewrite E2. exact Hm.
Qed.

(* what ogg_open can return as the tail to be preserved *)
Lemma open_pad f c v pad : ogg_open f c = Ok (v, pad) -> pad = [] \/ exists b r, pad = b :: r /\ ogg_f_odd b = true.
Proof.
  unfold ogg_open. destruct (ogg_f_scan (S (length f)) f 0) as [all eof].
  destruct (ogg_f_open_pages c all eof) as [pg|e]; [|discriminate].
  destruct (to_packets false (map snd pg)) as [[|p0 r0]|e]; try discriminate.
  destruct (vc_extent (zdrop (ogg_f_striplen c) p0)) as [n|e]; [|discriminate].
  destruct c.
  - destruct (zdrop n (zdrop (ogg_f_striplen OVorbis) p0)) as [|b r]; [discriminate|].
    destruct (ogg_f_odd b); [|discriminate]. intros E. inversion E. left. reflexivity.
  - destruct (zdrop n (zdrop (ogg_f_striplen OOpus) p0)) as [|b r] eqn:Er.
    + intros E. inversion E. left. reflexivity.
    + destruct (ogg_f_odd b) eqn:Ob; intros E; inversion E; [right; exists b, r; auto|left; reflexivity].
  - intros E. inversion E. left. reflexivity.
  - intros E. inversion E. left. reflexivity.
  - intros E. inversion E. left. reflexivity.
Qed.

(* C01 (+ C09: the measured padding) for save through a freshly loaded object *)
Theorem save_load f c t cb f' pages :
  ogg_parse f = Ok pages -> ogg_f_streams_ok pages = true ->
  ogg_save f c t cb = Ok f' ->
  exists olds news k pad,
    cut_ok c t pad cb pages olds news k /\
    (ogg_aligned c pages k ->
     (c = OFlac -> exists h r, cut_p0 k = h :: r /\ h mod 128 = 4) ->
     ogg_load f' c =
     Ok (t, match c with
            | OFlac => -1
            | _ => match c, pad with
                   | OOpus, _ :: _ => -1
                   | _, _ => Z.max 0 (_get_padding cb (zlen (cut_p0 k) - zlen (ogg_vdata c t)) (zlen f - zlen (cut_p0 k))) end
            end)).
Proof.
  intros Hp Hs H. unfold ogg_save in H. destruct (ogg_open f c) as [[v pad]|e] eqn:Op; [|discriminate].
  destruct (save_obj_load f c t pad cb f' pages Hp Hs H) as (olds & news & k & K & _ & L).
  exists olds, news, k, pad. split; [exact K|]. intros Al Hfl.
  pose proof K as (_ & _ & _ & _ & _ & _ & _ & N & _).
  apply parse_iff in Hp as (Ef & _). rewrite <- Ef in N.
  apply (L Al). apply (new_packet_decode _ _ _ _ _ _ _ N); [intros _; exact (open_pad _ _ _ _ Op)|exact Hfl].
Qed.

(* C08: after delete the independent reader finds the vendor string, no comments and no padding *)
Theorem delete_load f c f' pages :
  ogg_parse f = Ok pages -> ogg_f_streams_ok pages = true ->
  ogg_delete f c = Ok f' ->
  exists olds news k vendor pad,
    ogg_open f c = Ok (vendor, pad) /\
    cut_ok c (mkVC vendor []) pad (Some (fun _ _ => 0)) pages olds news k /\
    (ogg_aligned c pages k ->
     (c = OFlac -> exists h r, cut_p0 k = h :: r /\ h mod 128 = 4) ->
     ogg_load f' c = Ok (mkVC vendor [], match c with
                                         | OFlac => -1
                                         | _ => match c, pad with OOpus, _ :: _ => -1 | _, _ => 0 end end)).
Proof.
  intros Hp Hs H. unfold ogg_delete, ogg_delete_obj in H. destruct (ogg_open f c) as [[v pad]|e] eqn:Op; [|discriminate].
  destruct (save_obj_load f c _ pad _ f' pages Hp Hs H) as (olds & news & k & K & _ & L).
  exists olds, news, k, v, pad. split; [reflexivity|]. split; [exact K|]. intros Al Hfl.
  pose proof K as (_ & _ & _ & _ & _ & _ & _ & N & _).
  apply (L Al). apply (delete_packet_decode _ _ _ _ _ _ N); [intros _; exact (open_pad _ _ _ _ Op)|exact Hfl].
Qed.
