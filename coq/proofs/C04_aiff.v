(* Proofs.C04_aiff -- totality of the AIFF.load mirror (Model.Parse_aiff).
   The chunk walk: a parsed chunk starts where the walk sought to (offset = next_offset) and its header lies
   inside the data, so next_offset grows by at least 8 per round and len + 1 rounds of fuel are never used up. *)
From Coq Require Import ZArith List Bool Lia.
Import ListNotations.
Require Import Base.Py Base.ZList Model.Parse_base Model.Parse_aiff Proofs.C04_lib.
Open Scope Z_scope.

Lemma iff_size_even ds : (8 + ds + ds mod 2) mod 2 = 0.
Proof.
  pose proof (Z.div_mod ds 2 ltac:(lia)).
  replace (8 + ds + ds mod 2) with ((4 + ds / 2 + ds mod 2) * 2) by lia. apply Z.mod_mul. lia.
Qed.

(* what the walk knows about a parsed chunk: read at position p, its 8 header bytes were all there *)
Definition chunk_ok (d : list Z) (p : Z) (c : iff_chunk) : Prop :=
  0 <= snd (fst c) /\ snd c = p + 8 /\ snd c <= zlen d.
Definition ochunk_ok (d : list Z) (p : Z) (c : option iff_chunk) : Prop :=
  match c with None => True | Some ch => chunk_ok d p ch end.

Lemma aiff_parse_spec d p : bytes_ok d -> 0 <= p ->
  pspec aiff_parse d p (fun c p' => 0 <= p' /\ ochunk_ok d p c).
Proof.
  intros Hd Hp. unfold aiff_parse. pose proof (zlen_nonneg d).
  pstep. pstep.
  destruct (zlen r <? 8) eqn:E8; [pstep; split; [lia|exact I]|]. apply Z.ltb_ge in E8.
  destruct (zlen r =? 8) eqn:E8'; cbn [negb]; [|apply Z.eqb_neq in E8'; lia]. apply Z.eqb_eq in E8'.
  cbv zeta.
  pose proof (be_decode_bound (zslice 4 8 r) (bytes_ok_zslice _ _ _ (bytes_ok_rd _ _ _ Hd))) as Hds.
  set (ds := be_decode (zslice 4 8 r)) in *.
  destruct (iff_ascii (zslice 0 4 r)); cbn [negb]; [|pstep; split; [lia|exact I]].
  destruct (iff_valid_id (iff_rstrip (zslice 0 4 r))); cbn [negb]; [|pstep; split; [lia|exact I]].
  pstep. pstep. rewrite iff_size_even. cbn [Z.eqb negb].
  assert (Hok : chunk_ok d p (iff_rstrip (zslice 0 4 r), ds, p + zlen r)).
  { unfold chunk_ok. cbn [fst snd]. lia. }
  destruct (list_eqb (iff_rstrip (zslice 0 4 r)) aiff_FORM).
  - destruct (ds <? 4); [pstep; split; [lia|exact I]|].
    pstep. pstep. destruct (iff_ascii r0); cbn [negb]; [|praiseM].
    pstep. split; [lia|exact Hok].
  - pstep. split; [lia|exact Hok].
Qed.

Lemma seek_try_spec off d p : 0 <= off -> 0 <= p ->
  pspec (pcatch (p_seek off 0 ;;~ pret true) is_eoverflow (fun _ => pret false)) d p
        (fun b p' => 0 <= p' /\ (b = true -> p' = off)).
Proof.
  intros Ho Hp. unfold pspecE, pcatch, pbind, p_seek, pret.
  destruct (in_ssize off); cbn [negb].
  - replace (0 =? 0) with true by reflexivity. destruct (off <? 0) eqn:E; [lia|]. split; [lia|reflexivity].
  - cbn. split; [lia|discriminate].
Qed.

Definition chunks_in (d : list Z) (l : list iff_chunk) : Prop := Forall (fun c => 0 <= snd c <= zlen d) l.

Lemma aiff_subchunks_spec d end_ : bytes_ok d -> forall fuel next p,
  0 <= next -> 0 <= p -> 1 <= Z.of_nat fuel -> zlen d + 2 - next <= Z.of_nat fuel ->
  pspec (aiff_subchunks fuel next end_) d p (fun l p' => 0 <= p' /\ chunks_in d l).
Proof.
  intros Hd. induction fuel as [|f IH]; intros next p Hn Hp Hf1 Hf; [lia|].
  cbn [aiff_subchunks]. pose proof (zlen_nonneg d).
  destruct (next <? end_); cbn [negb]; [|pstep; split; [lia|constructor]].
  pstep. eapply pspecE_post; [apply seek_try_spec; assumption|].
  intros b p1 [Hp1 Hb]. cbv beta.
  destruct b; cbn [negb]; [|pstep; split; [lia|constructor]].
  specialize (Hb eq_refl). subst p1.
  pstep. eapply pspecE_post; [apply aiff_parse_spec; assumption|].
  intros [[[id ds] doff]|] p2 [Hp2 Hc]; cbv beta iota; [|pstep; split; [lia|constructor]].
  destruct Hc as (Hds & Hdoff & Hle). cbn [fst snd] in Hds, Hdoff, Hle.
  pose proof (Z.mod_pos_bound ds 2 ltac:(lia)).
  pstep. eapply pspecE_post.
  - apply IH; unfold iff_chunk_end; lia.
  - intros rest p3 [Hp3 Hall]. cbv beta. pstep. split; [lia|]. constructor; [cbn [snd]; lia|exact Hall].
Qed.

Lemma iff_find_In id l c : iff_find id l = Some c -> In c l.
Proof.
  induction l as [|x t IH]; cbn [iff_find]; [discriminate|].
  destruct (list_eqb (fst (fst x)) id); [intros [= <-]; left; reflexivity|intro H; right; auto].
Qed.

Lemma aiff_file_spec d p : bytes_ok d -> pspec aiff_file d p (fun f p' => 0 <= p' /\ ochunk_ok d 0 f).
Proof.
  intros Hd. unfold aiff_file. pstep. pstep. pstep.
  eapply pspecE_post; [apply aiff_parse_spec; [assumption|lia]|].
  intros [ch|] p' [Hp' Hc]; cbv beta iota; [|pstep; split; [lia|exact I]].
  destruct (list_eqb (fst (fst ch)) aiff_FORM); cbn [negb]; pstep; (split; [lia|]); [exact Hc|exact I].
Qed.

Lemma aiff_getitem_spec d root id p : bytes_ok d -> chunk_ok d 0 root -> 0 <= p ->
  pspec (aiff_getitem (lin_fuel 1 1 d) root id) d p
        (fun c p' => 0 <= p' /\ match c with None => True | Some ch => 0 <= snd ch <= zlen d end).
Proof.
  intros Hd Hroot Hp. destruct root as [[rid ds] doff]. destruct Hroot as (Hds & Hdoff & Hle). cbn [fst snd] in *.
  unfold aiff_getitem. pose proof (zlen_nonneg d).
  pstep. eapply pspecE_post.
  - apply aiff_subchunks_spec; first [assumption | unfold lin_fuel; lia].
  - intros subs p' [Hp' Hall]. cbv beta. pstep. split; [lia|].
    destruct (iff_find id subs) as [c|] eqn:Ef; [|exact I].
    apply iff_find_In in Ef. unfold chunks_in in Hall. rewrite Forall_forall in Hall. exact (Hall c Ef).
Qed.

Lemma aiff_pre_load_header_spec d p : c04_input d -> 0 <= p ->
  pspec (aiff_pre_load_header (lin_fuel 1 1 d)) d p (fun _ p' => 0 <= p').
Proof.
  intros [Hd Hlen] Hp. unfold aiff_pre_load_header. unfold c04_two62 in *.
  pstep. eapply pspecE_post; [apply aiff_file_spec; assumption|].
  intros [root|] p1 [Hp1 Hroot]; cbv beta iota; [|pstep; lia].
  pstep. eapply pspecE_post; [apply aiff_getitem_spec; assumption|].
  intros [[[id ds] doff]|] p2 [Hp2 Hc]; cbv beta iota; [|pstep; lia].
  cbn [snd] in Hc. pstep. pstep. pstep. lia.
Qed.

(* read(n) for any n: the bytes, or OverflowError *)
Lemma p_read_any n d p :
  pspecE (fun e => e = EMutagen \/ is_eoverflow e = true) (p_read n) d p (fun r p' => r = rd n p d).
Proof. unfold pspecE, p_read. destruct (in_ssize n); cbn [negb]; [reflexivity|right; reflexivity]. Qed.

Lemma aiff_read_float_cases data : zlen data = 10 ->
  match aiff_read_float_int data with Ok _ => True | Raise e => e = EOverflow end.
Proof.
  intro H. unfold aiff_read_float_int. rewrite H. cbn [Z.eqb negb Pos.eqb]. cbv zeta.
  repeat match goal with |- context [if ?b then _ else _] => destruct b end; auto.
Qed.

Lemma aiff_info_spec d p : c04_input d -> 0 <= p ->
  pspec (aiff_info (lin_fuel 1 1 d)) d p (fun _ _ => True).
Proof.
  intros [Hd Hlen] Hp. unfold aiff_info. unfold c04_two62 in *. apply pspec_convert_io.
  pstep. eapply pspecE_post; [apply aiff_file_spec; assumption|].
  intros [root|] p1 [Hp1 Hroot]; cbv beta iota; [|praiseM].
  pstep. eapply pspecE_post; [apply aiff_getitem_spec; assumption|].
  intros [[[id ds] doff]|] p2 [Hp2 Hc]; cbv beta iota; [|praiseM].
  cbn [snd] in Hc. pstep. pstep. pstep.
  eapply pspecE_post; [apply pspec_catchM; apply p_read_any|].
  intros data p3 ->. cbv beta.
  destruct (zlen (rd ds doff d) <? 18) eqn:E18; [praiseM|]. apply Z.ltb_ge in E18.
  cbv zeta. set (data := rd ds doff d) in *.
  assert (Hs : zlen (zslice 0 18 data) = 18) by (rewrite zlen_zslice; lia).
  rewrite Hs. cbn [Z.eqb Pos.eqb negb].
  pstep. eapply pspecE_post with (Q := fun _ _ => True).
  - apply pspec_catchM.
    pose proof (aiff_read_float_cases (zslice 8 18 (zslice 0 18 data))) as Hf.
    apply pspecE_lift. destruct (aiff_read_float_int (zslice 8 18 (zslice 0 18 data))) as [v|e].
    + exact I.
    + right. rewrite Hf; [reflexivity|]. rewrite zlen_zslice; lia.
  - intros sr p4 _. cbv beta. destruct (sr <? 0); [praiseM|]. pstep. exact I.
Qed.

Theorem aiff_total d : c04_input d -> total (aiff_load d).
Proof.
  intros Hin. unfold aiff_load. eapply total_prun with (Q := fun _ _ => True).
  unfold aiff_init. apply pspec_convert_io.
  pstep. eapply pspecE_post; [apply aiff_pre_load_header_spec; [assumption|lia]|].
  intros loc p1 Hp1. cbv beta.
  pstep. pstep. pstep.
  eapply pspecE_post; [apply aiff_info_spec; [assumption|lia]|].
  intros info p2 _. cbv beta. pstep. exact I.
Qed.
