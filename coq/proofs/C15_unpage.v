(* C15: to_packets as a pure fold (`racc`) over the reversed page list, and how the elementary
   edits of the from_packets loop act on it *)
From Coq Require Import ZArith List Bool Lia.
Import ListNotations.
Require Import Base.Py Base.ZList Model.Crc Model.Ogg Proofs.C15_lacing.
Open Scope Z_scope.

Ltac fields := cbn [p_version p_flags p_position p_serial p_sequence p_complete p_packets
                    set_flags set_position set_serial set_sequence set_complete set_packets add_to_last] in *.

(* ---- app_last ------------------------------------------------------------------------------ *)
Lemma app_last_cons x r d : r <> [] -> app_last (x :: r) d = x :: app_last r d.
Proof. destruct r; [contradiction|reflexivity]. Qed.
Lemma app_last_snoc a l d : app_last (a ++ [l]) d = a ++ [l ++ d].
Proof.
  induction a as [|x a IH]; [reflexivity|]. cbn [app].
  rewrite app_last_cons by (destruct a; discriminate). rewrite IH. reflexivity.
Qed.
Lemma app_last_nonempty pk d : app_last pk d <> [].
Proof. destruct pk as [|x [|y r]]; cbn [app_last]; discriminate. Qed.
Lemma app_last_app x y d : y <> [] -> app_last (x ++ y) d = x ++ app_last y d.
Proof.
  intros Hy. destruct (snoc_cases y) as [->|(a & l & ->)]; [contradiction|].
  rewrite app_assoc, !app_last_snoc, app_assoc. reflexivity.
Qed.
Lemma app_last_twice pk d1 d2 : app_last (app_last pk d1) d2 = app_last pk (d1 ++ d2).
Proof.
  destruct (snoc_cases pk) as [->|(a & l & ->)]; [reflexivity|].
  rewrite !app_last_snoc, app_assoc. reflexivity.
Qed.
Lemma app_last_nil pk : pk <> [] -> app_last pk [] = pk.
Proof.
  intros H. destruct (snoc_cases pk) as [->|(a & l & ->)]; [contradiction|].
  rewrite app_last_snoc, app_nil_r. reflexivity.
Qed.
Lemma zlen_app_last pk d : zlen (app_last pk d) = Z.max 1 (zlen pk).
Proof.
  destruct (snoc_cases pk) as [->|(a & l & ->)]; [reflexivity|].
  rewrite app_last_snoc, !zlen_app. cbn. pose proof (zlen_nonneg a). lia.
Qed.
Lemma last_app_last pk d : pk <> [] -> last (app_last pk d) [] = last pk [] ++ d.
Proof.
  intros H. destruct (snoc_cases pk) as [->|(a & l & ->)]; [contradiction|].
  rewrite app_last_snoc, !last_last. reflexivity.
Qed.
Lemma data_len_app_last pk d : data_len (app_last pk d) = data_len pk + zlen d.
Proof.
  destruct (snoc_cases pk) as [->|(a & l & ->)]; [cbn; lia|].
  rewrite app_last_snoc, !data_len_app. cbn [data_len fold_right]. rewrite zlen_app. lia.
Qed.
Lemma hd_app_last pk d : pk <> [] -> zlen (hd [] pk) <> 0 -> zlen (hd [] (app_last pk d)) <> 0.
Proof.
  intros H Hn. destruct pk as [|x [|y r]]; [contradiction| |]; cbn [app_last hd] in *.
  - rewrite zlen_app. pose proof (zlen_nonneg x). pose proof (zlen_nonneg d). lia.
  - exact Hn.
Qed.

(* ---- the pure reassembly -------------------------------------------------------------------- *)
Definition unpage_step (acc : list (list Z)) (p : page) : list (list Z) :=
  match p_packets p with
  | [] => acc
  | f :: others => (if continued p then app_last acc f else acc ++ [f]) ++ others
  end.
(* pages newest first *)
Definition racc (prs : list page) : list (list Z) := fold_right (fun p acc => unpage_step acc p) [] prs.

Lemma racc_cons p prs : racc (p :: prs) = unpage_step (racc prs) p.
Proof. reflexivity. Qed.

Lemma unpage_step_nonempty acc p : p_packets p <> [] -> unpage_step acc p <> [].
Proof.
  unfold unpage_step. destruct (p_packets p) as [|f o]; [contradiction|]. intros _.
  destruct (continued p).
  - pose proof (app_last_nonempty acc f). destruct (app_last acc f); [contradiction|discriminate].
  - destruct acc; discriminate.
Qed.
Lemma zlen_unpage_step acc p : Z.max (zlen acc) (zlen (p_packets p)) <= zlen (unpage_step acc p).
Proof.
  unfold unpage_step. destruct (p_packets p) as [|f o]; [rewrite zlen_nil; pose proof (zlen_nonneg acc); lia|].
  rewrite zlen_app, zlen_cons. pose proof (zlen_nonneg o). pose proof (zlen_nonneg acc). destruct (continued p).
  - rewrite zlen_app_last. lia.
  - rewrite zlen_app, zlen_cons, zlen_nil. lia.
Qed.
Lemma racc_bounds_pages prs : Forall (fun p => zlen (p_packets p) <= zlen (racc prs)) prs.
Proof.
  induction prs as [|p prs IH]; [constructor|]. rewrite racc_cons. constructor.
  - pose proof (zlen_unpage_step (racc prs) p). lia.
  - eapply Forall_impl; [|exact IH]. cbn beta. intros q Hq.
    pose proof (zlen_unpage_step (racc prs) p). lia.
Qed.

(* the same test on a page that differs only in fields the reassembly ignores *)
Lemma unpage_step_ext acc p q : p_packets p = p_packets q -> continued p = continued q ->
  unpage_step acc p = unpage_step acc q.
Proof. unfold unpage_step. intros -> ->. reflexivity. Qed.

(* page.packets[-1] += d *)
Lemma unpage_add_to_last acc cur d : p_packets cur <> [] ->
  unpage_step acc (add_to_last cur d) = app_last (unpage_step acc cur) d.
Proof.
  intros Hne. unfold unpage_step, add_to_last. fields.
  change (continued (set_packets cur (app_last (p_packets cur) d))) with (continued cur).
  destruct (p_packets cur) as [|f o]; [contradiction|].
  destruct o as [|g o'].
  - cbn [app_last]. rewrite !app_nil_r. destruct (continued cur).
    + rewrite app_last_twice. reflexivity.
    + rewrite app_last_snoc. reflexivity.
  - cbn [app_last]. assert (Hg : g :: o' <> []) by discriminate.
    rewrite (app_last_app _ (g :: o') d Hg). reflexivity.
Qed.

(* page.packets.append(b"") *)
Lemma unpage_start_packet acc cur : (p_packets cur = [] -> continued cur = false) ->
  unpage_step acc (set_packets cur (p_packets cur ++ [[]])) = unpage_step acc cur ++ [[]].
Proof.
  intros H. unfold unpage_step. fields.
  change (continued (set_packets cur (p_packets cur ++ [[]]))) with (continued cur).
  destruct (p_packets cur) as [|f o].
  - rewrite (H eq_refl). cbn [app]. rewrite app_nil_r. reflexivity.
  - cbn [app]. rewrite app_assoc. reflexivity.
Qed.

(* ---- tp_loop on a coherent page list is the pure reassembly ---------------------------------- *)
Lemma tp_loop_app serial st l1 l2 :
  tp_loop serial st (l1 ++ l2) =
  match tp_loop serial st l1 with Ok st' => tp_loop serial st' l2 | Raise e => Raise e end.
Proof.
  revert st; induction l1 as [|p l1 IH]; intros st; [reflexivity|].
  cbn [app tp_loop]. destruct (tp_step serial st p); [apply IH|reflexivity].
Qed.

(* newest first: serial, consecutive sequence numbers from seq0, a continued page has something to continue *)
Fixpoint tp_ok (serial seq0 : Z) (prs : list page) : Prop :=
  match prs with
  | [] => True
  | p :: r => tp_ok serial seq0 r /\ p_serial p = serial /\ p_sequence p = seq0 + zlen r /\
              (continued p = true -> racc r <> [])
  end.

Lemma tp_step_ok serial sequence acc p : p_serial p = serial -> p_sequence p = sequence ->
  (continued p = true -> acc <> []) ->
  tp_step serial (sequence, acc) p = Ok (sequence + 1, unpage_step acc p).
Proof.
  intros <- <- Hc. unfold tp_step, unpage_step. rewrite !Z.eqb_refl. cbn [negb].
  destruct (p_packets p) as [|f o]; [reflexivity|].
  destruct (continued p); [|reflexivity].
  destruct acc; [exfalso; apply Hc; reflexivity|reflexivity].
Qed.

Lemma tp_loop_racc serial seq0 prs : tp_ok serial seq0 prs ->
  tp_loop serial (seq0, []) (rev prs) = Ok (seq0 + zlen prs, racc prs).
Proof.
  induction prs as [|p prs IH]; intros H.
  - cbn. f_equal. f_equal. lia.
  - destruct H as (H1 & H2 & H3 & H4). cbn [rev]. rewrite tp_loop_app, (IH H1). cbn [tp_loop].
    rewrite (tp_step_ok serial (seq0 + zlen prs) (racc prs) p H2 H3 H4).
    rewrite zlen_cons, racc_cons. f_equal. f_equal. lia.
Qed.
