(* C06: conversion wrappers and fault-safety of the regenerated resize family *)
From Coq Require Import ZArith List Bool Lia.
Import ListNotations.
Require Import Base.Py Base.ZList Base.FileModel Gen.Gen_util Model.IOWrap.
Open Scope Z_scope.

Definition outcome {A} (r : result A * fstate) : option exc :=
  match fst r with Ok _ => None | Raise e => Some e end.

(* ---- the wrappers ---- *)
Lemma convert_error_io {A} (m : M A) s e : fst (m s) = Raise (EIO e) -> fst (convert_error m s) = Raise EMutagen.
Proof.
  unfold convert_error, try_catch. destruct (m s) as [[a|x] s']; cbn; intros H; [discriminate|].
  inversion H; subst. reflexivity.
Qed.
Lemma convert_error_never_io {A} (m : M A) s e : fst (convert_error m s) <> Raise (EIO e).
Proof.
  unfold convert_error, try_catch. destruct (m s) as [[a|x] s']; cbn; [discriminate|].
  destruct (is_eio x) eqn:E; cbn; [discriminate|]. intros H; inversion H; subst. discriminate.
Qed.
Lemma convert_error_ok {A} (m : M A) s a : fst (m s) = Ok a -> convert_error m s = m s.
Proof. unfold convert_error, try_catch. destruct (m s) as [[x|x] s']; cbn; intros H; [reflexivity|discriminate]. Qed.
Lemma convert_error_other {A} (m : M A) s x : fst (m s) = Raise x -> is_eio x = false -> convert_error m s = m s.
Proof.
  unfold convert_error, try_catch. destruct (m s) as [[a|y] s']; cbn; intros H E; [discriminate|].
  inversion H; subst. rewrite E. reflexivity.
Qed.
(* the file content a failed call leaves behind is untouched by the conversion *)
Lemma convert_error_state {A} (m : M A) s : fdata (snd (convert_error m s)) = fdata (snd (m s)).
Proof.
  unfold convert_error, try_catch. destruct (m s) as [[a|x] s']; cbn; [reflexivity|].
  destruct (is_eio x); reflexivity.
Qed.

Lemma caller_object_stays_open ft has c :
  ft = FTFileObj \/ ft = FTFileThing -> closed_after ft has c = c.
Proof. intros [->| ->]; reflexivity. Qed.
Lemma own_file_closed ft has c :
  ft = FTStrPath \/ ft = FTBytesPath \/ ft = FTPathLike -> closed_after ft has c = true.
Proof. intros [->|[->| ->]]; reflexivity. Qed.

(* ---- fault-safety: whatever the file object does (scheduled fault, short reads, capacity limit,
   either seek flavour), the resize family ends in Ok, an I/O error or ValueError -- nothing else,
   and never runs out of fuel ---- *)
Definition allowed (e : exc) : bool := is_eio e || exc_eqb e EValue.
Definition safe {A} (m : M A) : Prop :=
  forall s, match fst (m s) with Ok _ => True | Raise e => allowed e = true end.

Lemma safe_ret {A} (a : A) : safe (ret a). Proof. intros s; exact I. Qed.
Lemma safe_raise_value {A} : safe (@raise A EValue). Proof. intros s; reflexivity. Qed.
Lemma safe_raise_io {A} n : safe (@raise A (EIO n)). Proof. intros s; reflexivity. Qed.
Lemma safe_bind {A B} (m : M A) (k : A -> M B) : safe m -> (forall a, safe (k a)) -> safe (bind m k).
Proof.
  intros Hm Hk s. unfold bind. specialize (Hm s). destruct (m s) as [[a|e] s']; cbn in *; [apply Hk|exact Hm].
Qed.
Lemma safe_bind_raise {A B} e (k : A -> M B) : allowed e = true -> safe (bind (raise e) k).
Proof. intros H s. cbn. exact H. Qed.
Lemma safe_if {A} (c : bool) (m1 m2 : M A) : safe m1 -> safe m2 -> safe (if c then m1 else m2).
Proof. destruct c; auto. Qed.
Lemma safe_tick : safe tick.
Proof.
  intros s. unfold tick. destruct (c_fault (fcfg_of s)) as [k|]; [|exact I].
  destruct (k <=? 0); cbn; [reflexivity|exact I].
Qed.
Lemma safe_seek o w : safe (f_seek o w).
Proof.
  unfold f_seek. apply safe_bind; [apply safe_tick|]. intros _ s.
  destruct (w =? 0); [destruct (o <? 0)|].
  - unfold neg_seek. destruct (c_real (fcfg_of s)); reflexivity.
  - exact I.
  - destruct (_ <? 0); [destruct (c_real (fcfg_of s))|]; cbn; auto.
Qed.
Lemma safe_tell : safe f_tell.
Proof. unfold f_tell. apply safe_bind; [apply safe_tick|]. intros _ s. exact I. Qed.
Lemma safe_read n : safe (f_read n).
Proof. unfold f_read. apply safe_bind; [apply safe_tick|]. intros _ s. cbn. destruct (c_short (fcfg_of s)); exact I. Qed.
Lemma safe_write bs : safe (f_write bs).
Proof.
  unfold f_write. apply safe_bind; [apply safe_tick|]. intros _ s. cbn.
  destruct (c_cap (fcfg_of s)) as [cap|]; [|exact I]. destruct (_ <=? cap); cbn; [exact I|reflexivity].
Qed.
Lemma safe_truncate n : safe (f_truncate n).
Proof.
  unfold f_truncate. apply safe_bind; [apply safe_tick|]. intros _ s. cbn.
  destruct (n <? 0); [destruct (c_real (fcfg_of s)); reflexivity|]. destruct (_ <? n); exact I.
Qed.
Lemma safe_flush : safe f_flush. Proof. apply safe_tick. Qed.
Lemma safe_try_io {A} (m : M A) (h : Z -> M A) : safe m -> (forall e, safe (h e)) -> safe (try_io m h).
Proof.
  intros Hm Hh s. unfold try_io. specialize (Hm s). destruct (m s) as [[a|e] s']; cbn in *; [exact I|].
  destruct e; try exact Hm. apply Hh.
Qed.

Section Safe.
Variable BUF : Z.
Hypothesis HBUF : 1 <= BUF.

Lemma safe_grow_loop : forall fuel diff, 0 <= diff -> (Z.to_nat diff < fuel)%nat -> safe (resize_file_loop1 BUF fuel diff).
Proof.
  induction fuel as [|fuel IH]; intros diff Hd Hf; [lia|].
  cbn [resize_file_loop1]. destruct (diff =? 0) eqn:E; cbn [negb]; [apply safe_ret|].
  cbv zeta. apply safe_bind; [apply safe_write|]. intros _. apply IH; lia.
Qed.

Lemma safe_resize_file diff : safe (resize_file BUF diff).
Proof.
  unfold resize_file. apply safe_bind; [apply safe_seek|]. intros _.
  apply safe_bind; [apply safe_tell|]. intros filesize.
  apply safe_bind; [|intros _; apply safe_ret].
  apply safe_if.
  - apply safe_bind; [apply safe_if; [apply safe_raise_value|apply safe_ret]|]. intros _.
    apply safe_bind; [apply safe_truncate|]. intros _. apply safe_ret.
  - apply safe_bind; [|intros _; apply safe_ret].
    destruct (diff >? 0) eqn:E; [|apply safe_ret].
    apply safe_bind; [|intros _; apply safe_ret].
    apply safe_try_io.
    + apply safe_bind; [apply safe_grow_loop; lia|]. intros _.
      apply safe_bind; [apply safe_flush|]. intros _. apply safe_ret.
    + intros e. apply safe_bind.
      * apply safe_if; [|apply safe_ret]. apply safe_bind; [apply safe_truncate|]. intros _. apply safe_ret.
      * intros _. apply safe_raise_io.
Qed.

Lemma safe_loop1 count dest src : forall fuel moved, 0 <= count - moved -> (Z.to_nat (count - moved) < fuel)%nat ->
  safe (move_bytes_loop1 BUF count dest src fuel moved).
Proof.
  induction fuel as [|fuel IH]; intros moved Hd Hf; [lia|].
  cbn [move_bytes_loop1]. destruct (count - moved =? 0) eqn:E; cbn [negb]; [apply safe_ret|].
  cbv zeta. apply safe_bind; [apply safe_seek|]. intros _.
  apply safe_bind; [apply safe_read|]. intros buf.
  apply safe_bind; [apply safe_seek|]. intros _.
  apply safe_bind; [apply safe_write|]. intros _. apply IH; lia.
Qed.
Lemma safe_loop2 dest src : forall fuel count, 0 <= count -> (Z.to_nat count < fuel)%nat ->
  safe (move_bytes_loop2 BUF dest src fuel count).
Proof.
  induction fuel as [|fuel IH]; intros count Hd Hf; [lia|].
  cbn [move_bytes_loop2]. destruct (count =? 0) eqn:E; cbn [negb]; [apply safe_ret|].
  cbv zeta. apply safe_bind; [apply safe_seek|]. intros _.
  apply safe_bind; [apply safe_read|]. intros buf.
  apply safe_bind; [apply safe_seek|]. intros _.
  apply safe_bind; [apply safe_write|]. intros _. apply IH; lia.
Qed.

Lemma safe_move_bytes dest src count : safe (move_bytes BUF dest src count).
Proof.
  unfold move_bytes.
  destruct ((dest <? 0) || (src <? 0) || (count <? 0)) eqn:G.
  { apply safe_bind_raise. reflexivity. }
  apply safe_bind; [apply safe_ret|]. intros _.
  apply safe_bind; [apply safe_seek|]. intros _.
  apply safe_bind; [apply safe_tell|]. intros filesize.
  apply safe_bind; [apply safe_if; [apply safe_raise_value|apply safe_ret]|]. intros _.
  apply safe_bind; [|intros _; apply safe_ret].
  apply safe_if.
  - cbv zeta. apply safe_bind; [apply safe_loop1; lia|]. intros _.
    apply safe_bind; [apply safe_flush|]. intros _. apply safe_ret.
  - apply safe_bind; [apply safe_loop2; lia|]. intros _.
    apply safe_bind; [apply safe_flush|]. intros _. apply safe_ret.
Qed.

Lemma safe_insert_bytes size offset : safe (insert_bytes BUF size offset).
Proof.
  unfold insert_bytes.
  apply safe_bind; [apply safe_if; [apply safe_raise_value|apply safe_ret]|]. intros _.
  apply safe_bind; [apply safe_seek|]. intros _.
  apply safe_bind; [apply safe_tell|]. intros filesize. cbv zeta.
  apply safe_bind; [apply safe_if; [apply safe_raise_value|apply safe_ret]|]. intros _.
  apply safe_bind; [apply safe_resize_file|]. intros _.
  apply safe_bind; [apply safe_move_bytes|]. intros _. apply safe_ret.
Qed.
Lemma safe_delete_bytes size offset : safe (delete_bytes BUF size offset).
Proof.
  unfold delete_bytes.
  apply safe_bind; [apply safe_if; [apply safe_raise_value|apply safe_ret]|]. intros _.
  apply safe_bind; [apply safe_seek|]. intros _.
  apply safe_bind; [apply safe_tell|]. intros filesize. cbv zeta.
  apply safe_bind; [apply safe_if; [apply safe_raise_value|apply safe_ret]|]. intros _.
  apply safe_bind; [apply safe_move_bytes|]. intros _.
  apply safe_bind; [apply safe_resize_file|]. intros _. apply safe_ret.
Qed.
Lemma safe_resize_bytes old new off : safe (resize_bytes BUF old new off).
Proof.
  unfold resize_bytes.
  apply safe_bind; [apply safe_if; [apply safe_raise_value|apply safe_ret]|]. intros _.
  apply safe_bind; [|intros _; apply safe_ret].
  apply safe_if.
  - cbv zeta. apply safe_bind; [apply safe_delete_bytes|]. intros _. apply safe_ret.
  - apply safe_bind; [|intros _; apply safe_ret].
    apply safe_if; [|apply safe_ret].
    cbv zeta. apply safe_bind; [apply safe_insert_bytes|]. intros _. apply safe_ret.
Qed.
End Safe.

(* through the public wrapper only MutagenError or ValueError (bad arguments) can leave *)
Lemma entry_safe {A} (m : M A) s : safe m ->
  match fst (entry m s) with Ok _ => True | Raise e => e = EMutagen \/ e = EValue end.
Proof.
  intros Hm. unfold entry, convert_error, try_catch. specialize (Hm s).
  destruct (m s) as [[a|e] s']; cbn in *; [exact I|].
  destruct (is_eio e) eqn:E; cbn; [left; reflexivity|].
  unfold allowed in Hm. rewrite E in Hm. cbn in Hm. right. destruct e; try discriminate; reflexivity.
Qed.
