(* C09: the default padding policy and callback dispatch, proved about the code regenerated from
   mutagen/_tags.py (Gen.Gen_tags).  Stated at property strength: exact thresholds are not exposed. *)
From Coq Require Import ZArith Bool Lia.
Require Import Gen.Gen_tags.
Open Scope Z_scope.
Ltac Zify.zify_post_hook ::= Z.to_euclidean_division_equations.

Ltac unfold_policy := unfold get_default_padding; cbv zeta.
(* case analysis on whatever comparisons the regenerated code contains (no literal thresholds here) *)
Ltac split_ifs := repeat match goal with |- context [if ?c then _ else _] => destruct c eqn:? end.

Lemma default_nonneg p s : 0 <= s -> 0 <= get_default_padding p s.
Proof.
  intros Hs. unfold_policy.
  split_ifs; lia.
Qed.

Lemma default_keeps_moderate p s : 0 <= s -> 0 <= p <= 1024 -> get_default_padding p s = p.
Proof.
  intros Hs Hp. unfold_policy.
  split_ifs; lia.
Qed.

Lemma default_idempotent p s : 0 <= s -> get_default_padding (get_default_padding p s) s = get_default_padding p s.
Proof.
  intros Hs. unfold_policy. split_ifs; lia.
Qed.

(* not enough room: the policy asks for new padding, at least 1 KiB *)
Lemma default_negative_adds p s : 0 <= s -> p < 0 -> 1024 <= get_default_padding p s.
Proof.
  intros Hs Hp. unfold_policy. split_ifs; lia.
Qed.

(* the result never exceeds what is already there unless room has to be made *)
Lemma default_never_grows_fitting p s : 0 <= s -> 0 <= p -> get_default_padding p s <= p.
Proof.
  intros Hs Hp. unfold_policy.
  split_ifs; lia.
Qed.

Lemma no_callback_is_default p s :
  _get_padding None p s = _get_padding (Some get_default_padding) p s.
Proof. reflexivity. Qed.

Lemma callback_obeyed f p s : _get_padding (Some f) p s = f p s.
Proof. reflexivity. Qed.
