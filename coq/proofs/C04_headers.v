(* Proofs.C04_headers -- totality of the fixed-size header reader mirrors. *)
From Coq Require Import ZArith List Bool Lia.
Import ListNotations.
Require Import Base.Py Base.ZList Model.Parse_base Model.Parse_headers Proofs.C04_lib.
Open Scope Z_scope.

Ltac punpack := apply pspecE_unpack_le; [rewrite zlen_zslice; lia|cbv beta].

Theorem trueaudio_total d : total (trueaudio_load d).
Proof.
  unfold trueaudio_load. eapply total_prun with (Q := fun _ _ => True).
  unfold tta_init. apply pspec_convert_io. pose proof (zlen_nonneg d).
  pstep. pstep. pstep. pstep.
  destruct (zlen r =? 18) eqn:E; cbn [negb orb]; [|praiseM]. apply Z.eqb_eq in E.
  destruct (starts_with tta_TTA r); cbn [negb]; [|praiseM].
  pstep. punpack. pstep. punpack. pstep. exact I.
Qed.

Theorem monkeysaudio_total d : total (monkeysaudio_load d).
Proof.
  unfold monkeysaudio_load. eapply total_prun with (Q := fun _ _ => True).
  unfold mac_init. apply pspec_convert_io. pose proof (zlen_nonneg d).
  pstep. pstep.
  destruct (zlen r =? 76) eqn:E; cbn [negb orb]; [|praiseM]. apply Z.eqb_eq in E.
  destruct (starts_with mac_MAC r); cbn [negb]; [|praiseM].
  pstep. punpack.
  pstep. apply pspecE_post with (Q := fun _ _ => True).
  { destruct (3980 <=? le_decode (zslice 4 6 r)).
    - cbv zeta. rewrite (zlen_zslice 56 76 r) by lia.
      replace (Z.min (76 - 56) (Z.max 0 (zlen r - 56)) =? 20) with true by (symmetry; apply Z.eqb_eq; lia).
      cbn [negb]. pstep. exact I.
    - pstep. punpack. cbv zeta. rewrite (zlen_zslice 10 16 r) by lia.
      replace (Z.min (16 - 10) (Z.max 0 (zlen r - 10)) =? 6) with true by (symmetry; apply Z.eqb_eq; lia).
      cbn [negb]. rewrite (zlen_zslice 24 32 r) by lia.
      replace (Z.min (32 - 24) (Z.max 0 (zlen r - 24)) =? 8) with true by (symmetry; apply Z.eqb_eq; lia).
      cbn [negb]. pstep.
      destruct (starts_with mac_WAVEfmt (zdrop 48 r)); [punpack|pstep]; pstep; exact I. }
  intros [[[[[bpf ffb] tf] bits] ch] rate] p _. cbv beta.
  pstep. apply pspecE_post with (Q := fun _ _ => True).
  { destruct (rate =? 0) eqn:Er; cbn [negb andb]; [pstep; exact I|].
    destruct (0 <? tf); pstep; exact I. }
  intros; pstep; exact I.
Qed.

Theorem optimfrog_total d : c04_input d -> total (optimfrog_load d).
Proof.
  intros [Hb _]. unfold optimfrog_load. eapply total_prun with (Q := fun _ _ => True).
  unfold ofr_init. apply pspec_convert_io. pose proof (zlen_nonneg d).
  pstep. pstep.
  destruct (zlen r =? 76) eqn:E; cbn [negb orb]; [|praiseM]. apply Z.eqb_eq in E.
  destruct (starts_with ofr_OFR r); cbn [negb]; [|praiseM].
  pstep. punpack. pstep; [praiseM|].
  cbv zeta. rewrite (zlen_zslice 8 20 r) by lia.
  replace (Z.min (20 - 8) (Z.max 0 (zlen r - 8)) =? 12) with true by (symmetry; apply Z.eqb_eq; lia).
  cbn [negb].
  assert (Hrb : bytes_ok (zslice 8 20 r)) by (apply bytes_ok_zslice, bytes_ok_rd; exact Hb).
  pose proof (bytes_ok_znth _ 7 Hrb) as H7.
  pose proof (le_decode_bound _ (bytes_ok_zslice 8 12 _ Hrb)) as Hrate.
  set (rate := le_decode (zslice 8 12 (zslice 8 20 r))) in *.
  pstep. apply pspecE_post with (Q := fun _ _ => True).
  { destruct (rate =? 0) eqn:Er; cbn [negb]; [pstep; exact I|]. apply Z.eqb_neq in Er.
    destruct ((znth 7 (zslice 8 20 r) + 1) * rate =? 0) eqn:Em; [apply Z.eqb_eq in Em; nia|pstep; exact I]. }
  intros _ p _. cbv beta.
  pstep. apply pspecE_post with (Q := fun _ _ => True).
  { destruct (15 <=? le_decode (zslice 4 8 r)); [punpack; exact I|pstep; exact I]. }
  intros; pstep; exact I.
Qed.
