(* C13: size fields -- v2.3 frames carry plain big-endian 32-bit sizes, v2.4 frames and every tag header
   syncsafe ones; a reader using the version's format gets the frames back (they tile the tag).
   Uses the C14 theorems about BitPaddedInt.to_str. *)
From Coq Require Import ZArith List Bool Lia.
Import ListNotations.
Require Import Base.Py Base.ZList Model.Id3Util Model.Id3Conv Proofs.C14_digits Proofs.C14_tostr.
Open Scope Z_scope.

Lemma le_val8_decode l : Forall (fun b => 0 <= b < 256) l -> le_val 8 l = le_decode l.
Proof.
  induction 1 as [|b r Hb Hr IH]; cbn [le_val le_decode]; [reflexivity|].
  change (2 ^ 8) with 256. rewrite Z.mod_small by lia. rewrite IH. reflexivity.
Qed.
Lemma be_decode_le l : be_decode l = le_decode (rev l).
Proof. unfold be_decode. rewrite be_decode_acc_spec. lia. Qed.

(* the 4-byte size field written for bits = 8 (v2.3) and bits = 7 (v2.4, tag header) *)
Lemma size_field_plain n : 0 <= n < 2 ^ 32 ->
  exists sz, to_str n 8 true 4 4 = Ok sz /\ zlen sz = 4 /\ Forall (fun b => 0 <= b < 256) sz /\ be_decode sz = n.
Proof.
  intro H. destruct (to_str_fixed_ok 8 true 4 4 n ltac:(lia) ltac:(lia) ltac:(change (8 * 4) with 32; exact H))
    as (A & B & C & _ & E).
  remember (endian true (le_digits (Z.to_nat 4) 8 n)) as bs eqn:Ebs. clear Ebs.
  change (2 ^ 8) with 256 in C.
  exists bs. split; [exact A|]. split; [exact B|]. split; [exact C|].
  rewrite bpi_of_bytes_be in E by lia. assert (E' : le_val 8 (rev bs) = n) by congruence.
  rewrite be_decode_le. rewrite <- le_val8_decode; [exact E' |].
  apply Forall_rev. exact C.
Qed.
Lemma size_field_syncsafe n : 0 <= n < 2 ^ 28 ->
  exists sz, to_str n 7 true 4 4 = Ok sz /\ zlen sz = 4 /\ Forall (fun b => 0 <= b < 128) sz /\
             bpi_of_bytes 7 true sz = Ok n.
Proof.
  intro H. destruct (to_str_fixed_ok 7 true 4 4 n ltac:(lia) ltac:(lia) ltac:(change (7 * 4) with 28; exact H))
    as (A & B & C & _ & E).
  remember (endian true (le_digits (Z.to_nat 4) 7 n)) as bs eqn:Ebs. clear Ebs.
  change (2 ^ 7) with 128 in C.
  exists bs. split; [exact A|]. split; [exact B|]. split; [exact C | exact E].
Qed.

Theorem frame_bytes_v23 id payload : zlen payload < 2 ^ 32 ->
  exists sz, conv_frame_bytes 3 id payload = Ok (id ++ sz ++ [0;0] ++ payload) /\
    zlen sz = 4 /\ Forall (fun b => 0 <= b < 256) sz /\ be_decode sz = zlen payload.
Proof.
  intro H. pose proof (zlen_nonneg payload).
  destruct (size_field_plain (zlen payload) ltac:(lia)) as (sz & A & B & C & D).
  exists sz. unfold conv_frame_bytes. cbn [Z.eqb Pos.eqb]. rewrite A. cbn [rbind]. repeat split; assumption.
Qed.
Theorem frame_bytes_v24 id payload : zlen payload < 2 ^ 28 ->
  exists sz, conv_frame_bytes 4 id payload = Ok (id ++ sz ++ [0;0] ++ payload) /\
    zlen sz = 4 /\ Forall (fun b => 0 <= b < 128) sz /\ bpi_of_bytes 7 true sz = Ok (zlen payload).
Proof.
  intro H. pose proof (zlen_nonneg payload).
  destruct (size_field_syncsafe (zlen payload) ltac:(lia)) as (sz & A & B & C & D).
  exists sz. unfold conv_frame_bytes. cbn [Z.eqb Pos.eqb]. rewrite A. cbn [rbind]. repeat split; assumption.
Qed.
Theorem frame_bytes_other_version v id payload : v <> 3 -> v <> 4 -> conv_frame_bytes v id payload = Raise EValue.
Proof.
  intros A B. unfold conv_frame_bytes.
  destruct (v =? 4) eqn:E4; [apply Z.eqb_eq in E4; contradiction|].
  destruct (v =? 3) eqn:E3; [apply Z.eqb_eq in E3; contradiction | reflexivity].
Qed.

Theorem tag_bytes_header v framedata padding : 0 <= padding -> zlen framedata + padding < 2 ^ 28 ->
  exists sz, conv_tag_bytes v framedata padding = Ok ([73;68;51;v;0;0] ++ sz ++ framedata ++ zeros padding) /\
    zlen sz = 4 /\ Forall (fun b => 0 <= b < 128) sz /\ bpi_of_bytes 7 true sz = Ok (zlen framedata + padding) /\
    zlen ([73;68;51;v;0;0] ++ sz ++ framedata ++ zeros padding) = 10 + (zlen framedata + padding).
Proof.
  intros Hp H. pose proof (zlen_nonneg framedata).
  destruct (size_field_syncsafe (zlen framedata + padding) ltac:(lia)) as (sz & A & B & C & D).
  exists sz. unfold conv_tag_bytes. rewrite A. cbn [rbind]. repeat split; try assumption.
  rewrite !zlen_app, B, zlen_zeros by lia. change (zlen [73;68;51;v;0;0]) with 6. lia.
Qed.

(* ---------------------------------------------------------------- the frames tile the tag *)
Definition frame_ok (v : Z) (x : list Z * list Z) : Prop :=
  zlen (fst x) = 4 /\ (forall b r, fst x = b :: r -> b <> 0) /\ zlen (snd x) < (if v =? 4 then 2 ^ 28 else 2 ^ 32).

Fixpoint frames_bytes (v : Z) (fr : list (list Z * list Z)) : result (list Z) :=
  match fr with
  | [] => Ok []
  | (id, p) :: r => rbind (conv_frame_bytes v id p) (fun b => rbind (frames_bytes v r) (fun br => Ok (b ++ br)))
  end.

Lemma walk_padding fuel v pad : conv_walk (S fuel) v (zeros pad) = Some [].
Proof.
  unfold zeros. destruct (Z.to_nat pad); cbn [repeat conv_walk]; reflexivity.
Qed.

Lemma bpi7_loop sz n : bpi_of_bytes 7 true sz = Ok n -> bpi_bytes_loop (rev sz) 127 7 0 0 = n.
Proof. unfold bpi_of_bytes. cbn [Z.ltb Z.compare]. intro H. inversion H. reflexivity. Qed.

Lemma forallb_lt128 sz : Forall (fun b => 0 <= b < 128) sz -> forallb (fun x => x <? 128) sz = true.
Proof. intro H. apply forallb_forall. intros x Hx. rewrite Forall_forall in H. apply Z.ltb_lt. apply H. exact Hx. Qed.

Lemma walk_step fuel v id sz p rest n : (v = 3 \/ v = 4) -> zlen id = 4 -> (forall b r, id = b :: r -> b <> 0) -> zlen sz = 4 ->
  zlen p = n ->
  (if v =? 4 then bpi_bytes_loop (rev sz) 127 7 0 0 else be_decode sz) = n ->
  (v = 4 -> forallb (fun x => x <? 128) sz = true) ->
  conv_walk (S fuel) v ((id ++ sz ++ [0;0] ++ p) ++ rest) =
  match conv_walk fuel v rest with Some r => Some ((id, p) :: r) | None => None end.
Proof.
  intros Hv Li Hid Ls Lp Hn Hs.
  pose proof (zlen_nonneg p). pose proof (zlen_nonneg rest).
  set (data := (id ++ sz ++ [0;0] ++ p) ++ rest).
  assert (Ld : zlen data = 10 + n + zlen rest).
  { unfold data. rewrite !zlen_app, Li, Ls, Lp. change (zlen [0;0]) with 2. lia. }
  destruct id as [|b id']; [cbn in Li; lia|].
  assert (Hb : b <> 0) by (eapply Hid; reflexivity).
  cbn [conv_walk]. change ((b :: id') ++ sz ++ [0;0] ++ p) with (b :: (id' ++ sz ++ [0;0] ++ p)).
  cbn [app]. replace (b =? 0) with false by (symmetry; apply Z.eqb_neq; exact Hb).
  fold data.
  change (b :: (id' ++ sz ++ [0; 0] ++ p) ++ rest) with data.
  replace (zlen data <? 10) with false by (symmetry; apply Z.ltb_ge; lia).
  assert (E4 : zslice 4 8 data = sz).
  { unfold zslice, data. rewrite <- !app_assoc. rewrite zdrop_app_r by lia. rewrite Li. replace (4 - 4) with 0 by lia.
    rewrite zdrop_0. rewrite ztake_app_l by lia. apply ztake_all. lia. }
  rewrite E4. rewrite Hn.
  replace ((v =? 4) && negb (forallb (fun x => x <? 128) sz)) with false.
  2:{ destruct Hv as [-> | ->]; [reflexivity|]. rewrite Hs by reflexivity. reflexivity. }
  replace (zlen data <? 10 + n) with false by (symmetry; apply Z.ltb_ge; lia).
  assert (E0 : ztake 4 data = b :: id').
  { unfold data. rewrite <- !app_assoc. rewrite ztake_app_l by lia. apply ztake_all. lia. }
  assert (Lh : zlen ((b :: id') ++ sz ++ [0;0]) = 10).
  { rewrite !zlen_app, Li, Ls. reflexivity. }
  assert (Ed : data = ((b :: id') ++ sz ++ [0;0]) ++ p ++ rest).
  { unfold data. rewrite <- !app_assoc. reflexivity. }
  assert (E1 : zdrop (10 + n) data = rest).
  { rewrite Ed. rewrite zdrop_app_r by lia. rewrite Lh. replace (10 + n - 10) with (zlen p) by lia. apply zdrop_app_exact. }
  assert (E2 : zslice 10 (10 + n) data = p).
  { unfold zslice. rewrite Ed. rewrite zdrop_app_r by lia. rewrite Lh. replace (10 - 10) with 0 by lia. rewrite zdrop_0.
    replace (10 + n - 10) with (zlen p) by lia. apply ztake_app_exact. }
  rewrite E0, E1, E2. unfold data. cbn [app].
  replace (b =? 0) with false by (symmetry; apply Z.eqb_neq; exact Hb). reflexivity.
Qed.

Theorem walk_recovers_frames v fr pad : (v = 3 \/ v = 4) -> Forall (frame_ok v) fr ->
  exists data, frames_bytes v fr = Ok data /\
    conv_walk (S (length fr)) v (data ++ zeros pad) = Some fr.
Proof.
  intros Hv H. induction H as [|[id p] r Hx Hr IH].
  - exists []. split; [reflexivity|]. apply walk_padding.
  - destruct IH as (dr & Er & Wr). destruct Hx as (Li & Hid & Lp). cbn [fst snd] in *.
    cbn [frames_bytes]. rewrite Er.
    destruct Hv as [-> | ->]; cbn [Z.eqb Pos.eqb] in Lp.
    + destruct (frame_bytes_v23 id p Lp) as (sz & A & B & C & D). rewrite A. cbn [rbind].
      eexists. split; [reflexivity|]. rewrite <- app_assoc. cbn [length].
      rewrite (walk_step (S (length r)) 3 id sz p (dr ++ zeros pad) (zlen p)); try assumption; try reflexivity; try (left; reflexivity).
      * rewrite Wr. reflexivity.
      * discriminate.
    + destruct (frame_bytes_v24 id p Lp) as (sz & A & B & C & D). rewrite A. cbn [rbind].
      eexists. split; [reflexivity|]. rewrite <- app_assoc. cbn [length].
      rewrite (walk_step (S (length r)) 4 id sz p (dr ++ zeros pad) (zlen p)); try assumption; try reflexivity; try (right; reflexivity).
      * rewrite Wr. reflexivity.
      * cbn [Z.eqb Pos.eqb]. apply bpi7_loop. exact D.
      * intros _. apply forallb_lt128. exact C.
Qed.
