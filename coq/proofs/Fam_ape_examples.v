(* APEv2 family: concrete files (vm_compute).  Satisfiability of the hypotheses of the theorems, the documented
   exception of C02 (a trailing ID3v1 / Lyrics3v2 block is replaced by save), and the inputs outside ape_wf on
   which the unconditional statements FAIL for the faithful model of mutagen's code (…_refuted). *)
From Coq Require Import ZArith List Bool Lia.
Import ListNotations.
Require Import Base.Py Base.ZList Base.FileModel Gen.Gen_util Model.Sort Model.Splice Model.Fam_ape
  Proofs.FileLemmas Proofs.C11_bytes Proofs.C11_rejects.
Open Scope Z_scope.

Definition audio : list Z := [1; 2; 3; 4; 5; 250; 251; 252; 253].
Definition it_title : item := mkItem [84; 105; 116; 108; 101] 0 [120; 195; 164].            (* Title = "xä" *)
Definition it_cover : item := mkItem [67; 111; 118; 101; 114] 1 [0; 255; 65; 80; 69].       (* Cover = binary *)
Definition it_url : item := mkItem [85; 114; 108] 2 [104; 116; 116; 112].                   (* Url = external *)
Definition id3v1 : list Z := TAG3 ++ zeros 125.
(* Lyrics3v2: LYRICSBEGIN + fields + 6-digit size of that + LYRICS200 *)
Definition lyrics3 : list Z := LYRICSBEGIN ++ [73; 78; 68; 48; 48; 48; 48; 50; 48; 48] ++ [48; 48; 48; 48; 50; 49] ++ LYRICS200.

Definition tagged := audio ++ ape_render_tag [it_title; it_cover; it_url].

Example wf_plain : ape_wf audio = true. Proof. vm_compute. reflexivity. Qed.
Example wf_tagged_ex : ape_wf tagged = true. Proof. vm_compute. reflexivity. Qed.
Example wf_with_id3v1 : ape_wf (tagged ++ id3v1) = true. Proof. vm_compute. reflexivity. Qed.
Example wf_with_lyrics3 : ape_wf (tagged ++ lyrics3 ++ id3v1) = true. Proof. vm_compute. reflexivity. Qed.
Example wf_headerless : ape_wf (ape_build audio 1000 false [it_title; it_url] []) = true.
Proof. vm_compute. reflexivity. Qed.
Example valid_items_ex : forallb item_valid [it_title; it_cover; it_url] = true /\ tag_fits [it_title; it_cover; it_url] = true.
Proof. vm_compute. split; reflexivity. Qed.
(* items are written sorted by (length, bytes) of the rendered item, not in insertion order *)
Example load_sorted : ape_load tagged = Ok (Some [it_url; it_title; it_cover]).
Proof. vm_compute. reflexivity. Qed.
Example empty_reads_as_none : ape_load (audio ++ ape_render_tag []) = Ok None /\ ape_mut_load false (audio ++ ape_render_tag []) = Ok None.
Proof. vm_compute. split; reflexivity. Qed.

(* the documented exception of C02: save replaces a trailing ID3v1 (and Lyrics3v2) block *)
Example save_drops_id3v1 :
  ape_save false (tagged ++ id3v1) [it_url] = Ok (audio ++ ape_render_tag [it_url]) /\
  ape_save true (tagged ++ lyrics3 ++ id3v1) [it_url] = Ok (audio ++ ape_render_tag [it_url]).
Proof. vm_compute. split; reflexivity. Qed.
(* delete keeps it *)
Example delete_keeps_id3v1 :
  ape_delete false (tagged ++ id3v1) = Ok (audio ++ id3v1) /\
  ape_delete true (tagged ++ lyrics3 ++ id3v1) = Ok (audio ++ lyrics3 ++ id3v1).
Proof. vm_compute. split; reflexivity. Qed.
(* a file with an ID3v1 tag but no APEv2 tag: the new tag goes AFTER the ID3v1 tag *)
Example save_after_id3v1 : ape_save false (audio ++ id3v1) [it_url] = Ok (audio ++ id3v1 ++ ape_render_tag [it_url]).
Proof. vm_compute. reflexivity. Qed.
(* a body that ends like an ID3v1 tag ('TAG' + 125 bytes) is harmless for a freshly appended tag *)
Example body_ending_like_id3v1 :
  ape_wf ((audio ++ id3v1) ++ ape_render_tag [it_title]) = true /\
  ape_delete false ((audio ++ id3v1) ++ ape_render_tag [it_title]) = Ok (audio ++ id3v1).
Proof. vm_compute. split; reflexivity. Qed.

(* ---- outside ape_wf ---- *)
(* two stacked tags: the strict reader accepts the file (the first tag is "audio"), but it is not ape_wf, and
   delete twice is not delete once *)
Definition stacked := tagged ++ ape_render_tag [it_url].
Theorem delete_twice_refuted : exists f s,
  ape_parse f = Ok s /\ ape_wf f = false /\
  exists f1 f2, ape_delete false f = Ok f1 /\ ape_delete false f1 = Ok f2 /\ f2 <> f1.
Proof.
  exists stacked. eexists. split; [vm_compute; reflexivity|]. split; [vm_compute; reflexivity|].
  eexists _, _. split; [vm_compute; reflexivity|]. split; [vm_compute; reflexivity|]. discriminate.
Qed.
(* a stray APETAGEX preamble 24 bytes before the tag (broken PyMusepack writer): mutagen extends the tag start
   backwards, so save and delete eat 24 bytes the strict reader counts as audio *)
Definition pymusepack := audio ++ APETAGEX ++ zeros 16 ++ ape_render_tag [it_title].
Theorem stray_preamble_refuted : exists f s f',
  ape_parse f = Ok s /\ ape_wf f = false /\ ape_save false f [] = Ok f' /\ ztake (zlen (pbody s)) f' <> pbody s.
Proof.
  exists pymusepack. eexists _, _. split; [vm_compute; reflexivity|]. split; [vm_compute; reflexivity|].
  split; [vm_compute; reflexivity|]. vm_compute. discriminate.
Qed.
(* module-level delete on an EMPTY tag: the tag reads as "no tag", the function returns without touching the
   file, and the 64 bytes of header + footer stay (the method removes them) *)
Definition emptytag := audio ++ ape_render_tag [].
Theorem moddelete_empty_refuted : exists f,
  ape_wf f = true /\ ape_moddelete false f = Ok f /\ has_marker f = true /\ ape_delete false f = Ok audio.
Proof. exists emptytag. vm_compute. repeat split; reflexivity. Qed.
(* regression (fixed in /repo: the PyMusepack loop runs only while start >= 24): 8 bytes "APETAGEX" before the
   tag are kept through a BytesIO exactly as through a real file -- the relative seek no longer clamps to 0 *)
Example short_body_flavours_agree :
  ape_delete true (APETAGEX ++ ape_render_tag [it_title]) = Ok APETAGEX /\
  ape_delete false (APETAGEX ++ ape_render_tag [it_title]) = Ok APETAGEX /\
  ape_wf (APETAGEX ++ ape_render_tag [it_title]) = false.
Proof. vm_compute. repeat split; reflexivity. Qed.
(* a header-less tag whose first item bytes complete a fake marker at offset 0: found at its real start *)
Example headerless_short_body :
  ape_wf (ape_build [1; 2; 3] 1000 false [it_title] []) = true /\
  ape_delete false (ape_build [1; 2; 3] 1000 false [it_title] []) = Ok [1; 2; 3] /\
  ape_delete true (ape_build [1; 2; 3] 1000 false [it_title] []) = Ok [1; 2; 3].
Proof. vm_compute. repeat split; reflexivity. Qed.
(* a tag at the START of the file (header first, no footer at EOF) is cut out and the new tag is appended *)
Theorem at_start_moved : ape_save false (ape_render_tag [it_title] ++ audio) [it_url] = Ok (audio ++ ape_render_tag [it_url]).
Proof. vm_compute. reflexivity. Qed.
(* regression (fixed in /repo: size < 0 after excluding the footer raises APEBadItemError): a footer whose size
   field is 0 is rejected with a MutagenError by both flavours (was: ValueError from read(-32) on a real file,
   silently accepted on a BytesIO) *)
Example tiny_footer_rejected :
  ape_delete true (APETAGEX ++ zeros 24) = Raise EMutagen /\ ape_delete false (APETAGEX ++ zeros 24) = Raise EMutagen /\
  ape_save true (APETAGEX ++ zeros 24) [] = Raise EMutagen /\ ape_moddelete false (APETAGEX ++ zeros 24) = Raise EMutagen.
Proof. vm_compute. repeat split; reflexivity. Qed.

(* ------------------------------------------------------------------ tie to the regenerated delete_bytes (C11) *)
Theorem del_region_prog real part BUF f p size offset : 1 <= BUF ->
  let r := delete_bytes BUF size offset (mkF f p (benign real part)) in
  match del_region f size offset with
  | Ok g => fst r = Ok tt /\ fdata (snd r) = g
  | Raise e => fst r = Raise e /\ fdata (snd r) = f
  end.
Proof.
  intros HB. cbv zeta. unfold del_region.
  destruct ((size <? 0) || (offset <? 0)) eqn:C1.
  { apply delete_bytes_rejects. lia. }
  destruct (zlen f - offset - size <? 0) eqn:C2.
  { apply delete_bytes_rejects. lia. }
  destruct (delete_bytes_spec real part BUF HB f p size offset) as (A & B & _); try lia.
  split; [exact A|exact B].
Qed.
