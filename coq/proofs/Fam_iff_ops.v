(* IFF family: what save and delete do to a well-formed file, at the level of the parsed structure.
     iff_save (iff_render s) tag  = Ok (iff_render (save_struct s tag))      unless a size leaves its field width
     iff_delete (iff_render s)    = Ok (iff_render (delete_struct s))
   save = resize of the first ID3 chunk (splice of its payload + pad byte, patch of its size field and of the
   root's) or, without one, append of an empty chunk (+ root size patch) followed by the same resize;
   delete = splice of the whole chunk to nothing + root size patch. *)
From Coq Require Import ZArith List Bool Lia.
Import ListNotations.
Require Import Base.Py Base.ZList Model.Splice Model.Fam_iff
  Proofs.Fam_iff_codec Proofs.Fam_iff_chunks Proofs.Fam_iff_walk.
Open Scope Z_scope.

Lemma splice_mid (a x b y : list Z) off old : off = zlen a -> old = zlen x ->
  splice (a ++ x ++ b) off old y = a ++ y ++ b.
Proof.
  intros -> ->. unfold splice. rewrite ztake_app_exact.
  replace (a ++ x ++ b) with ((a ++ x) ++ b) by (rewrite <- app_assoc; reflexivity).
  rewrite zdrop_app_len by (rewrite zlen_app; reflexivity). reflexivity.
Qed.
Lemma patch_mid (a x b y : list Z) p : p = zlen a -> zlen x = zlen y ->
  patch (a ++ x ++ b) p y = a ++ y ++ b.
Proof.
  intros -> Hl. unfold patch. rewrite ztake_app_exact.
  replace (a ++ x ++ b) with ((a ++ x) ++ b) by (rewrite <- app_assoc; reflexivity).
  rewrite zdrop_app_len by (rewrite zlen_app; lia). reflexivity.
Qed.

Section Fl.
Variable fl : flavour.
Hypothesis Hfl : fl_ok fl = true.
Notation HS := (hsize fl).
Notation W := (Z.of_nat (fl_w fl)).

Definition with_tag (c : chunk) (tag : list Z) : chunk := mkChunk (cid c) tag (zeros (zlen tag mod 2)).
Definition new_chunk : chunk := mkChunk (fl_new fl) [] [].

Definition save_struct (s : iff_struct) (tag : list Z) : iff_struct :=
  match split_id3 fl (s_chunks s) with
  | Some (pre, c, post) => mkIff (s_name s) (pre ++ with_tag c tag :: post)
  | None => mkIff (s_name s) (s_chunks s ++ [with_tag new_chunk tag])
  end.
Definition delete_struct (s : iff_struct) : iff_struct :=
  match split_id3 fl (s_chunks s) with
  | Some (pre, _, post) => mkIff (s_name s) (pre ++ post)
  | None => s
  end.

Lemma forallb_app_iff {A} (p : A -> bool) a b : forallb p (a ++ b) = true <-> forallb p a = true /\ forallb p b = true.
Proof. rewrite forallb_app, andb_true_iff. tauto. Qed.

Lemma chunks_ok_mid pre c post : forallb (chunk_ok fl) (pre ++ c :: post) = true <->
  forallb (chunk_ok fl) pre = true /\ chunk_ok fl c = true /\ forallb (chunk_ok fl) post = true.
Proof. rewrite forallb_app_iff. cbn [forallb]. rewrite andb_true_iff. tauto. Qed.

Lemma render_mid pre c post :
  render_chunks fl (pre ++ c :: post) = render_chunks fl pre ++ render_chunk fl c ++ render_chunks fl post.
Proof. rewrite render_chunks_app. reflexivity. Qed.

Lemma zlen_render_mid pre c post : chunk_ok fl c = true ->
  zlen (render_chunks fl (pre ++ c :: post)) = zlen (render_chunks fl pre) + csize fl c + zlen (render_chunks fl post).
Proof.
  intros Hc. destruct (chunk_ok_inv fl c Hc) as (A & _).
  rewrite render_mid, !zlen_app, render_chunk_zlen by exact A. lia.
Qed.

Lemma with_tag_ok c tag : chunk_ok fl c = true -> is_cont fl (cid c) = false -> fits fl (zlen tag) = true ->
  chunk_ok fl (with_tag c tag) = true.
Proof.
  intros Hc Hn Hf. destruct (chunk_ok_inv fl c Hc) as (_ & B & _).
  apply chunk_ok_intro; cbn [with_tag cid cdata cpad]; try assumption.
  - rewrite zlen_zeros; [reflexivity|]. apply mod2_range.
  - unfold cont_ok, with_tag. cbn [cid cdata]. rewrite Hn. reflexivity.
Qed.
Lemma csize_with_tag c tag : csize fl (with_tag c tag) = HS + zlen tag + zlen tag mod 2.
Proof. unfold csize. cbn [with_tag cdata cpad]. rewrite zlen_zeros by apply mod2_range. reflexivity. Qed.

Lemma fits_0 : fits fl 0 = true.
Proof. apply fits_iff. split; [lia|]. apply Z.pow_pos_nonneg; lia. Qed.
Lemma new_chunk_ok : chunk_ok fl new_chunk = true.
Proof.
  apply chunk_ok_intro; cbn [new_chunk cid cdata cpad].
  - apply fl_new_sid; exact Hfl.
  - change (zlen (@nil Z)) with 0. exact fits_0.
  - reflexivity.
  - unfold cont_ok, new_chunk. cbn [cid cdata]. rewrite (id3_not_cont fl Hfl _ (fl_new_id3 fl Hfl)). reflexivity.
Qed.
Lemma fits_mono a b : 0 <= a <= b -> fits fl b = true -> fits fl a = true.
Proof. intros Hab Hb. apply fits_iff in Hb. apply fits_iff. lia. Qed.

(* ------------------------------------------------------------------ resize + write of one child chunk *)
Lemma resize_write_render name pre c post tag :
  struct_ok fl (mkIff name (pre ++ c :: post)) = true -> is_cont fl (cid c) = false ->
  let s := mkIff name (pre ++ c :: post) in
  let s' := mkIff name (pre ++ with_tag c tag :: post) in
  resize_write fl (iff_render fl s) (4 + zlen (render_chunks fl (s_chunks s)))
               (mkCe (HS + 4 + zlen (render_chunks fl pre)) (cid c) (zlen (cdata c))) tag =
  if fits fl (zlen tag) && fits fl (4 + zlen (render_chunks fl (s_chunks s'))) then Ok (iff_render fl s') else Raise EStruct.
Proof.
  intros Hs Hnc s s'.
  destruct (struct_ok_inv fl s Hs) as (Hn & Hcs & Hfit). cbn [s s_name s_chunks] in Hn, Hcs, Hfit.
  apply chunks_ok_mid in Hcs as (Hpre & Hc & Hpost).
  destruct (chunk_ok_inv fl c Hc) as (A & B & C & D & E).
  pose proof (name_ok_len fl _ Hn) as Ln. pose proof (sid_ok_len _ (fl_root_sid fl Hfl)) as Lr.
  pose proof (fl_w_pos fl Hfl) as Hw. pose proof (hsize_eq fl) as HH.
  set (n := zlen (cdata c)) in *. pose proof (zlen_nonneg (cdata c)) as Hn0. fold n in Hn0.
  pose proof (mod2_range n) as Hm. pose proof (mod2_range (zlen tag)) as Hmt. pose proof (zlen_nonneg tag) as Ht0.
  set (P := render_chunks fl pre) in *. set (Q := render_chunks fl post) in *.
  pose proof (zlen_nonneg P) as HP. pose proof (zlen_nonneg Q) as HQ.
  assert (LX : zlen (render_chunks fl (pre ++ c :: post)) = zlen P + csize fl c + zlen Q) by (apply zlen_render_mid; exact Hc).
  assert (LX' : zlen (render_chunks fl (pre ++ with_tag c tag :: post)) = zlen P + csize fl (with_tag c tag) + zlen Q).
  { rewrite render_mid, !zlen_app. rewrite render_chunk_zlen by exact A. fold P Q. lia. }
  rewrite csize_with_tag in LX'. assert (Cs : csize fl c = HS + n + n mod 2) by (unfold csize; fold n; lia).
  cbn [s s' s_chunks]. set (X := zlen (render_chunks fl (pre ++ c :: post))) in *.
  set (X' := zlen (render_chunks fl (pre ++ with_tag c tag :: post))) in *.
  set (f := iff_render fl s).
  set (A0 := fl_root fl ++ enc fl (4 + X) ++ name ++ P ++ cid c ++ enc fl n).
  assert (Ef : f = A0 ++ (cdata c ++ cpad c) ++ Q).
  { unfold f, iff_render, A0. cbn [s s_name s_chunks]. fold X. rewrite Ln, render_mid. fold P Q. unfold render_chunk. fold n.
    rewrite <- !app_assoc. reflexivity. }
  assert (LA0 : zlen A0 = HS + 4 + zlen P + HS).
  { unfold A0. rewrite !zlen_app, !enc_zlen, Lr, Ln, A. lia. }
  assert (Lf : zlen f = HS + 4 + X). { unfold f. rewrite iff_render_zlen by assumption. reflexivity. }
  unfold resize_write. cbn [ce_off ce_ds]. unfold ce_size. cbn [ce_ds]. fold n.
  bset (Z.min (n + n mod 2) (zlen f - (HS + 4 + zlen P + HS))) (n + n mod 2).
  rewrite Ef. rewrite splice_mid by (rewrite ?zlen_app; lia).
  destruct (fits fl (zlen tag)) eqn:F1; cbn [negb andb]; [|reflexivity].
  replace (4 + X + (HS + zlen tag + zlen tag mod 2 - (HS + n + n mod 2))) with (4 + X') by lia.
  bset (4 + X' <? 0) false.
  destruct (fits fl (4 + X')) eqn:F2; cbn [negb]; [|reflexivity].
  f_equal.
  set (T := tag ++ zeros (zlen tag mod 2)).
  set (A1 := fl_root fl ++ enc fl (4 + X) ++ name ++ P ++ cid c).
  replace (A0 ++ T ++ Q) with (A1 ++ enc fl n ++ T ++ Q) by (unfold A0, A1; rewrite <- !app_assoc; reflexivity).
  rewrite (patch_mid A1 (enc fl n) (T ++ Q) (enc fl (zlen tag)))
    by (rewrite ?enc_zlen; try reflexivity; unfold A1; rewrite !zlen_app, !enc_zlen, Lr, Ln, A; lia).
  unfold A1. rewrite <- !app_assoc.
  rewrite (patch_mid (fl_root fl) (enc fl (4 + X)) _ (enc fl (4 + X'))) by (rewrite ?enc_zlen; lia).
  unfold iff_render. cbn [s' s_name s_chunks]. fold X'. rewrite Ln, render_mid. fold P Q.
  unfold render_chunk. cbn [with_tag cid cdata cpad]. unfold T. rewrite <- !app_assoc. reflexivity.
Qed.

(* ------------------------------------------------------------------ the target of a save *)
Lemma root_and_chunks s : struct_ok fl s = true ->
  mut_root fl (iff_render fl s) = Ok (4 + zlen (render_chunks fl (s_chunks s))) /\
  mut_chunks fl (iff_render fl s) (4 + zlen (render_chunks fl (s_chunks s))) = Ok (entries fl (HS + 4) (s_chunks s)).
Proof. intros Hs. split; [apply mut_root_render | apply mut_chunks_render]; assumption. Qed.

Lemma insert_new_render s : struct_ok fl s = true ->
  let X := zlen (render_chunks fl (s_chunks s)) in
  let s1 := mkIff (s_name s) (s_chunks s ++ [new_chunk]) in
  insert_new fl (iff_render fl s) (4 + X) =
  if fits fl (4 + X + HS) then Ok (iff_render fl s1, 4 + X + HS, mkCe (HS + 4 + X) (fl_new fl) 0) else Raise EStruct.
Proof.
  intros Hs X s1. destruct (struct_ok_inv fl s Hs) as (Hn & Hcs & Hfit).
  pose proof (name_ok_len fl _ Hn) as Ln. pose proof (sid_ok_len _ (fl_root_sid fl Hfl)) as Lr.
  pose proof (fl_w_pos fl Hfl) as Hw. pose proof (hsize_eq fl) as HH.
  pose proof (iff_render_zlen fl Hfl s Hs) as Lf. fold X in Lf. pose proof (zlen_nonneg (render_chunks fl (s_chunks s))) as HX.
  fold X in HX. pose proof (mod2_range (4 + X)) as Hm.
  set (f := iff_render fl s) in *.
  unfold insert_new. bset (Z.min (4 + X + (4 + X) mod 2) (zlen f - HS)) (4 + X).
  replace (HS + (4 + X)) with (zlen f) by lia.
  destruct (fits fl (4 + X + HS)) eqn:F; cbn [negb]; [|reflexivity].
  replace (zlen f) with (HS + 4 + X) at 2 by lia. f_equal. f_equal. f_equal.
  replace f with (f ++ [] ++ []) at 1 by (rewrite !app_nil_r; reflexivity).
  rewrite splice_mid by reflexivity. rewrite app_nil_r.
  unfold f, iff_render. rewrite <- !app_assoc. fold X.
  rewrite (patch_mid (fl_root fl) (enc fl (zlen (s_name s) + X)) _ (enc fl (4 + X + HS))) by (rewrite ?enc_zlen; lia).
  cbn [s1 s_name s_chunks]. rewrite render_chunks_app. cbn [render_chunks]. unfold render_chunk. cbn [new_chunk cid cdata cpad].
  change (zlen (@nil Z)) with 0. rewrite !app_nil_r, Ln. rewrite zlen_app. fold X. rewrite zlen_app, enc_zlen, (sid_ok_len _ (fl_new_sid fl Hfl)).
  rewrite <- ?app_assoc. f_equal. f_equal. f_equal. lia.
Qed.

Lemma struct_ok_intro name cs : name_ok fl name = true -> forallb (chunk_ok fl) cs = true ->
  fits fl (4 + zlen (render_chunks fl cs)) = true -> struct_ok fl (mkIff name cs) = true.
Proof. intros A B C. unfold struct_ok. cbn [s_name s_chunks]. rewrite A, B, C. reflexivity. Qed.

Lemma render_new_chunk_zlen : zlen (render_chunk fl new_chunk) = HS.
Proof.
  rewrite render_chunk_zlen by (cbn [new_chunk cid]; apply sid_ok_len; apply fl_new_sid; exact Hfl).
  unfold csize. cbn [new_chunk cdata cpad]. change (zlen (@nil Z)) with 0. lia.
Qed.

(* ------------------------------------------------------------------ save *)
Theorem iff_save_render s tag : struct_ok fl s = true ->
  iff_save fl (iff_render fl s) tag =
  if fits fl (zlen tag) && fits fl (4 + zlen (render_chunks fl (s_chunks (save_struct s tag))))
  then Ok (iff_render fl (save_struct s tag)) else Raise EStruct.
Proof.
  intros Hs. destruct (root_and_chunks s Hs) as [R1 R2].
  destruct (struct_ok_inv fl s Hs) as (Hn & Hcs & Hfit).
  unfold iff_save, iff_target. rewrite R1. cbn [rbind]. rewrite R2. cbn [rbind].
  rewrite find_entries by assumption. unfold save_struct.
  destruct (split_id3 fl (s_chunks s)) as [[[pre c] post]|] eqn:Sp.
  - destruct (split_id3_some fl _ _ _ _ Sp) as (Ecs & Hid & _). cbn [rbind].
    destruct s as [name cs]. cbn [s_name s_chunks] in *. subst cs.
    apply (resize_write_render name pre c post tag Hs). apply id3_not_cont; assumption.
  - destruct s as [name cs]. cbn [s_name s_chunks] in *.
    pose proof (insert_new_render (mkIff name cs) Hs) as Hi. cbn [s_name s_chunks] in Hi. rewrite Hi. clear Hi.
    set (X := zlen (render_chunks fl cs)) in *. pose proof (zlen_nonneg (render_chunks fl cs)) as HX. fold X in HX.
    pose proof (fl_w_pos fl Hfl) as Hw. pose proof (hsize_eq fl) as HH.
    pose proof (mod2_range (zlen tag)) as Hmt. pose proof (zlen_nonneg tag) as Ht0.
    assert (LX1 : zlen (render_chunks fl (cs ++ [new_chunk])) = X + HS).
    { rewrite render_chunks_app, zlen_app. cbn [render_chunks]. rewrite app_nil_r, render_new_chunk_zlen. reflexivity. }
    assert (LX2 : zlen (render_chunks fl (cs ++ [with_tag new_chunk tag])) = X + (HS + zlen tag + zlen tag mod 2)).
    { rewrite render_chunks_app, zlen_app. cbn [render_chunks]. rewrite app_nil_r.
      rewrite render_chunk_zlen by (cbn [with_tag new_chunk cid]; apply sid_ok_len; apply fl_new_sid; exact Hfl).
      rewrite csize_with_tag. reflexivity. }
    destruct (fits fl (4 + X + HS)) eqn:F0.
    + cbn [rbind].
      assert (Hs1 : struct_ok fl (mkIff name (cs ++ [new_chunk])) = true).
      { apply struct_ok_intro; [exact Hn | | rewrite LX1; replace (4 + (X + HS)) with (4 + X + HS) by lia; exact F0].
        apply forallb_app_iff. split; [exact Hcs|]. cbn [forallb]. rewrite new_chunk_ok. reflexivity. }
      pose proof (resize_write_render name cs new_chunk [] tag Hs1) as Hr. cbv zeta in Hr. cbn [s_chunks] in Hr.
      rewrite LX1 in Hr. cbn [new_chunk cid cdata] in Hr. change (zlen (@nil Z)) with 0 in Hr.
      fold X in Hr. replace (4 + (X + HS)) with (4 + X + HS) in Hr by lia.
      replace (HS + 4 + X) with (HS + 4 + X) by lia. rewrite Hr; [reflexivity|].
      apply (id3_not_cont fl Hfl). apply fl_new_id3; exact Hfl.
    + cbn [rbind]. destruct (fits fl (zlen tag)) eqn:F1; cbn [andb]; [|reflexivity].
      rewrite LX2. destruct (fits fl (4 + (X + (HS + zlen tag + zlen tag mod 2)))) eqn:F2; [|reflexivity].
      exfalso. assert (fits fl (4 + X + HS) = true) by (apply (fits_mono _ (4 + (X + (HS + zlen tag + zlen tag mod 2)))); [lia | exact F2]).
      congruence.
Qed.

Lemma save_struct_ok s tag : struct_ok fl s = true -> fits fl (zlen tag) = true ->
  fits fl (4 + zlen (render_chunks fl (s_chunks (save_struct s tag)))) = true ->
  struct_ok fl (save_struct s tag) = true.
Proof.
  intros Hs F1 F2. destruct (struct_ok_inv fl s Hs) as (Hn & Hcs & Hfit).
  unfold save_struct in *. destruct (split_id3 fl (s_chunks s)) as [[[pre c] post]|] eqn:Sp.
  - destruct (split_id3_some fl _ _ _ _ Sp) as (Ecs & Hid & _). rewrite Ecs in Hcs.
    apply chunks_ok_mid in Hcs as (A & B & C).
    apply struct_ok_intro; [exact Hn | | exact F2]. apply chunks_ok_mid. repeat split; try assumption.
    apply with_tag_ok; try assumption. apply id3_not_cont; assumption.
  - apply struct_ok_intro; [exact Hn | | exact F2]. apply forallb_app_iff. split; [exact Hcs|].
    cbn [forallb]. rewrite with_tag_ok; [reflexivity | exact new_chunk_ok | | exact F1].
    apply (id3_not_cont fl Hfl). apply fl_new_id3; exact Hfl.
Qed.

(* one step, packaged: a successful save of a well-formed file *)
Theorem iff_save_wf_struct s tag f' : struct_ok fl s = true -> iff_save fl (iff_render fl s) tag = Ok f' ->
  f' = iff_render fl (save_struct s tag) /\ struct_ok fl (save_struct s tag) = true.
Proof.
  intros Hs Hsv. rewrite iff_save_render in Hsv by exact Hs.
  destruct (fits fl (zlen tag)) eqn:F1; cbn [andb] in Hsv; [|discriminate].
  destruct (fits fl (4 + zlen (render_chunks fl (s_chunks (save_struct s tag))))) eqn:F2; [|discriminate].
  inversion Hsv; subst. split; [reflexivity|]. apply save_struct_ok; assumption.
Qed.

(* ------------------------------------------------------------------ delete *)
Lemma delete_struct_ok s : struct_ok fl s = true -> struct_ok fl (delete_struct s) = true.
Proof.
  intros Hs. destruct (struct_ok_inv fl s Hs) as (Hn & Hcs & Hfit). unfold delete_struct.
  destruct (split_id3 fl (s_chunks s)) as [[[pre c] post]|] eqn:Sp; [|exact Hs].
  destruct (split_id3_some fl _ _ _ _ Sp) as (Ecs & Hid & _). rewrite Ecs in Hcs, Hfit.
  apply chunks_ok_mid in Hcs as (A & B & C).
  apply struct_ok_intro; [exact Hn | apply forallb_app_iff; split; assumption |].
  rewrite zlen_render_mid in Hfit by exact B. rewrite render_chunks_app, zlen_app.
  destruct (csize_pos fl Hfl c B) as [Hp _].
  pose proof (zlen_nonneg (render_chunks fl pre)). pose proof (zlen_nonneg (render_chunks fl post)).
  apply (fits_mono _ (4 + (zlen (render_chunks fl pre) + csize fl c + zlen (render_chunks fl post)))); [lia | exact Hfit].
Qed.

Theorem iff_delete_render s : struct_ok fl s = true ->
  iff_delete fl (iff_render fl s) = Ok (iff_render fl (delete_struct s)).
Proof.
  intros Hs. destruct (root_and_chunks s Hs) as [R1 R2].
  pose proof (delete_struct_ok s Hs) as Hd.
  destruct (struct_ok_inv fl s Hs) as (Hn & Hcs & Hfit).
  unfold iff_delete. rewrite R1. cbn [rbind]. rewrite R2. cbn [rbind].
  rewrite find_entries by assumption. unfold delete_struct in *.
  destruct (split_id3 fl (s_chunks s)) as [[[pre c] post]|] eqn:Sp; [|reflexivity].
  destruct (split_id3_some fl _ _ _ _ Sp) as (Ecs & Hid & _).
  destruct s as [name cs]. cbn [s_name s_chunks] in *. subst cs.
  apply chunks_ok_mid in Hcs as (Hpre & Hc & Hpost).
  destruct (chunk_ok_inv fl c Hc) as (A & B & C & D & E).
  pose proof (name_ok_len fl _ Hn) as Ln. pose proof (sid_ok_len _ (fl_root_sid fl Hfl)) as Lr.
  pose proof (fl_w_pos fl Hfl) as Hw. pose proof (hsize_eq fl) as HH.
  set (P := render_chunks fl pre) in *. set (Q := render_chunks fl post) in *.
  pose proof (zlen_nonneg P) as HP. pose proof (zlen_nonneg Q) as HQ.
  destruct (csize_pos fl Hfl c Hc) as [Hp Hsz].
  assert (LX : zlen (render_chunks fl (pre ++ c :: post)) = zlen P + csize fl c + zlen Q) by (apply zlen_render_mid; exact Hc).
  assert (LX' : zlen (render_chunks fl (pre ++ post)) = zlen P + zlen Q) by (rewrite render_chunks_app, zlen_app; reflexivity).
  set (X := zlen (render_chunks fl (pre ++ c :: post))) in *.
  pose proof (iff_render_zlen fl Hfl _ Hs) as Lf. cbn [s_chunks] in Lf. fold X in Lf.
  set (f := iff_render fl (mkIff name (pre ++ c :: post))) in *.
  unfold ce_size. cbn [ce_off ce_ds]. rewrite <- Hsz.
  bset (zlen f <? HS + 4 + zlen P + csize fl c) false.
  destruct (struct_ok_inv fl _ Hd) as (_ & _ & Hfit'). cbn [s_chunks] in Hfit'. rewrite LX' in Hfit'.
  replace (4 + X - csize fl c) with (4 + (zlen P + zlen Q)) by lia. bset (4 + (zlen P + zlen Q) <? 0) false.
  rewrite Hfit'. cbn [negb]. f_equal.
  set (A0 := fl_root fl ++ enc fl (4 + X) ++ name ++ P).
  assert (Ef : f = A0 ++ render_chunk fl c ++ Q).
  { unfold f, iff_render, A0. cbn [s_name s_chunks]. fold X. rewrite Ln, render_mid. fold P Q. rewrite <- !app_assoc. reflexivity. }
  rewrite Ef. rewrite splice_mid
    by (rewrite ?render_chunk_zlen by exact A; try reflexivity; unfold A0; rewrite !zlen_app, enc_zlen, Lr, Ln; lia).
  unfold A0. cbn [app]. rewrite <- !app_assoc.
  rewrite (patch_mid (fl_root fl) (enc fl (4 + X)) _ (enc fl (4 + (zlen P + zlen Q)))) by (rewrite ?enc_zlen; lia).
  unfold iff_render. cbn [s_name s_chunks]. rewrite Ln, LX', render_chunks_app. fold P Q. reflexivity.
Qed.

End Fl.
