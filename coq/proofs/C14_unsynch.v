(* C14: unsynch.encode / unsynch.decode (split(b'\xff') / join structure of the source):
   round trip, absence of false sync patterns, exact characterisation of what decode rejects, and
   agreement of encode with a direct byte-by-byte recursive definition. *)
From Coq Require Import ZArith List Bool Lia.
Import ListNotations.
Require Import Base.Py Base.ZList Model.Id3Util.
Open Scope Z_scope.

(* ---------- specification vocabulary ---------- *)
(* what may follow a 0xFF: some byte, and it is below 0xE0 *)
Definition follow_ok (r : list Z) : bool := match r with [] => false | c :: _ => c <? 0xE0 end.
(* no false sync pattern and no trailing 0xFF *)
Fixpoint sync_safe (l : list Z) : bool :=
  match l with
  | [] => true
  | b :: r => (if b =? 0xFF then follow_ok r else true) && sync_safe r
  end.
(* encode, byte by byte: after each 0xFF insert 0x00 if at end of data or the next byte is >= 0xE0 or 0x00 *)
Definition stuff_needed (r : list Z) : bool :=
  match r with [] => true | c :: _ => (0xE0 <=? c) || (c =? 0) end.
Fixpoint enc_direct (l : list Z) : list Z :=
  match l with
  | [] => []
  | b :: r => if b =? 0xFF then 0xFF :: (if stuff_needed r then 0 :: enc_direct r else enc_direct r)
              else b :: enc_direct r
  end.
(* decode of one non-first fragment *)
Definition dec1 (f : list Z) : list Z := match f with [] => [] | b :: t => if b =? 0 then t else f end.
Definition destuffed (s : list Z) : list Z :=
  match split_on 0xFF s with [] => [] | f0 :: fs => join_with 0xFF (f0 :: map dec1 fs) end.

(* ---------- split / join ---------- *)
Lemma join_cons2 sep f g r : join_with sep (f :: g :: r) = f ++ sep :: join_with sep (g :: r).
Proof. reflexivity. Qed.
Lemma split_on_nonnil sep l : split_on sep l <> [].
Proof.
  destruct l as [|b r]; cbn [split_on]; [discriminate|].
  destruct (b =? sep); [discriminate|]. destruct (split_on sep r); discriminate.
Qed.
Lemma join_split sep l : join_with sep (split_on sep l) = l.
Proof.
  induction l as [|b r IH]; cbn [split_on]; [reflexivity|].
  destruct (split_on sep r) as [|f fs] eqn:S; [exfalso; eapply split_on_nonnil; eassumption|].
  destruct (b =? sep) eqn:E.
  - apply Z.eqb_eq in E. subst b. rewrite join_cons2, IH. reflexivity.
  - destruct fs as [|g fs'].
    + cbn [join_with] in *. congruence.
    + rewrite join_cons2 in *. cbn [app]. congruence.
Qed.
Definition nosep (sep : Z) (f : list Z) : Prop := Forall (fun b => b <> sep) f.
Lemma split_nosep sep l : Forall (nosep sep) (split_on sep l).
Proof.
  induction l as [|b r IH]; cbn [split_on]; [repeat constructor|].
  destruct (b =? sep) eqn:E.
  - constructor; [constructor|exact IH].
  - apply Z.eqb_neq in E. destruct (split_on sep r) as [|f fs].
    + repeat constructor. exact E.
    + inversion IH; subst. constructor; [constructor; assumption|assumption].
Qed.
Lemma split_single sep f : nosep sep f -> split_on sep f = [f].
Proof.
  induction 1 as [|b f Hb Hf IH]; cbn [split_on]; [reflexivity|].
  apply Z.eqb_neq in Hb. rewrite Hb, IH. reflexivity.
Qed.
Lemma split_app_sep sep f l : nosep sep f -> split_on sep (f ++ sep :: l) = f :: split_on sep l.
Proof.
  induction 1 as [|b f Hb Hf IH]; cbn [app split_on].
  - rewrite Z.eqb_refl. reflexivity.
  - apply Z.eqb_neq in Hb. rewrite Hb, IH. reflexivity.
Qed.
Lemma split_join sep fs : fs <> [] -> Forall (nosep sep) fs -> split_on sep (join_with sep fs) = fs.
Proof.
  induction fs as [|f rest IH]; intros Hne Hf; [congruence|].
  inversion Hf as [|? ? H1 H2]; subst. destruct rest as [|g r].
  - cbn [join_with]. apply split_single; assumption.
  - rewrite join_cons2, split_app_sep by assumption. rewrite IH; [reflexivity|discriminate|assumption].
Qed.
Lemma hd_split_follow r f fs : split_on 0xFF r = f :: fs -> follow_ok f = follow_ok r.
Proof.
  destruct r as [|c r']; cbn [split_on]; intros S.
  - inversion S; reflexivity.
  - destruct (c =? 0xFF) eqn:E.
    + apply Z.eqb_eq in E. inversion S; subst. reflexivity.
    + destruct (split_on 0xFF r'); inversion S; subst; reflexivity.
Qed.
Lemma hd_split_stuff r f fs : split_on 0xFF r = f :: fs -> stuff_needed f = stuff_needed r.
Proof.
  destruct r as [|c r']; cbn [split_on]; intros S.
  - inversion S; reflexivity.
  - destruct (c =? 0xFF) eqn:E.
    + apply Z.eqb_eq in E. inversion S; subst. reflexivity.
    + destruct (split_on 0xFF r'); inversion S; subst; reflexivity.
Qed.

(* ---------- fragments ---------- *)
Lemma enc_fragment_stuff f : enc_fragment f = if stuff_needed f then 0 :: f else f.
Proof. destruct f as [|b t]; reflexivity. Qed.
Lemma enc_fragment_nosep f : nosep 0xFF f -> nosep 0xFF (enc_fragment f).
Proof.
  intros H. rewrite enc_fragment_stuff. destruct (stuff_needed f); [|exact H].
  constructor; [discriminate|exact H].
Qed.
Lemma enc_fragment_follow f : follow_ok (enc_fragment f) = true.
Proof.
  destruct f as [|b t]; cbn [enc_fragment]; [reflexivity|].
  destruct ((0xE0 <=? b) || (b =? 0)) eqn:E; [reflexivity|].
  apply orb_false_iff in E as [E1 E2]. cbn [follow_ok]. lia.
Qed.
Lemma enc_fragment_nonnil f : is_nil (enc_fragment f) = false.
Proof. rewrite enc_fragment_stuff. destruct f; [reflexivity|]. destruct (stuff_needed (z :: f)); reflexivity. Qed.
Lemma dec1_enc f : dec1 (enc_fragment f) = f.
Proof.
  destruct f as [|b t]; cbn [enc_fragment]; [reflexivity|].
  destruct ((0xE0 <=? b) || (b =? 0)) eqn:E; [reflexivity|].
  apply orb_false_iff in E as [E1 E2]. cbn [dec1]. rewrite E2. reflexivity.
Qed.
Lemma dec_fragments_spec fs :
  dec_fragments fs = if forallb follow_ok fs then Ok (map dec1 fs) else Raise EValue.
Proof.
  induction fs as [|f rest IH]; cbn [dec_fragments forallb map]; [reflexivity|].
  destruct f as [|b t]; [reflexivity|]. cbn [follow_ok].
  destruct (0xE0 <=? b) eqn:E1; destruct (b <? 0xE0) eqn:E2; try lia; cbn [andb]; [reflexivity|].
  rewrite IH. destruct (forallb follow_ok rest); reflexivity.
Qed.
Lemma last_nil_not_ok d fs : fs <> [] -> is_nil (last fs d) = true -> forallb follow_ok fs = false.
Proof.
  induction fs as [|x rest IH]; intros Hne Hl; [congruence|]. destruct rest as [|y l].
  - cbn [last] in Hl. destruct x; [reflexivity|discriminate].
  - change (last (x :: y :: l) d) with (last (y :: l) d) in Hl.
    cbn [forallb] in *. rewrite IH by (try discriminate; assumption). apply andb_false_r.
Qed.
Lemma last_enc_nonnil fs f d : is_nil (last (enc_fragment f :: map enc_fragment fs) d) = false.
Proof.
  revert f; induction fs as [|g fs IH]; intros f; cbn [map].
  - cbn [last]. apply enc_fragment_nonnil.
  - change (last (enc_fragment f :: enc_fragment g :: map enc_fragment fs) d)
      with (last (enc_fragment g :: map enc_fragment fs) d). apply IH.
Qed.

(* ---------- sync_safe in terms of fragments ---------- *)
Lemma safe_split l : sync_safe l = forallb follow_ok (tl (split_on 0xFF l)).
Proof.
  induction l as [|b r IH]; cbn [sync_safe split_on]; [reflexivity|].
  destruct (split_on 0xFF r) as [|f fs] eqn:S; [exfalso; eapply split_on_nonnil; eassumption|].
  cbn [tl] in IH. destruct (b =? 0xFF) eqn:E.
  - cbn [tl forallb]. rewrite IH, (hd_split_follow r f fs S). reflexivity.
  - cbn [tl andb]. exact IH.
Qed.

(* ---------- decode ---------- *)
Lemma unsynch_decode_spec s :
  unsynch_decode s = if sync_safe s then Ok (destuffed s) else Raise EValue.
Proof.
  unfold unsynch_decode, destuffed. rewrite safe_split.
  destruct (split_on 0xFF s) as [|f0 fs] eqn:S; [exfalso; eapply split_on_nonnil; eassumption|].
  cbn [tl]. rewrite dec_fragments_spec.
  destruct ((1 <? zlen (f0 :: fs)) && is_nil (last (f0 :: fs) [])) eqn:C.
  - apply andb_true_iff in C as [C1 C2]. destruct fs as [|g fs'].
    + change (zlen [f0]) with 1 in C1. lia.
    + change (last (f0 :: g :: fs') []) with (last (g :: fs') []) in C2.
      rewrite (last_nil_not_ok [] (g :: fs')) by (try discriminate; assumption). reflexivity.
  - destruct (forallb follow_ok fs); reflexivity.
Qed.

Lemma unsynch_decode_rejects s : sync_safe s = false -> unsynch_decode s = Raise EValue.
Proof. intros H. rewrite unsynch_decode_spec, H. reflexivity. Qed.
Lemma unsynch_decode_accepts s : sync_safe s = true -> unsynch_decode s = Ok (destuffed s).
Proof. intros H. rewrite unsynch_decode_spec, H. reflexivity. Qed.

Lemma unsafe_trailing p : sync_safe (p ++ [0xFF]) = false.
Proof.
  induction p as [|b p IH]; cbn [app sync_safe]; [reflexivity|]. rewrite IH. apply andb_false_r.
Qed.
Lemma unsafe_pattern p c q : 0xE0 <= c -> sync_safe (p ++ 0xFF :: c :: q) = false.
Proof.
  intros Hc. induction p as [|b p IH]; cbn [app sync_safe].
  - rewrite Z.eqb_refl. cbn [follow_ok]. destruct (c <? 0xE0) eqn:E; [lia|reflexivity].
  - rewrite IH. apply andb_false_r.
Qed.

(* ---------- encode ---------- *)
Lemma encode_fragments s f0 fs : split_on 0xFF s = f0 :: fs ->
  unsynch_encode s = join_with 0xFF (f0 :: map enc_fragment fs) /\
  split_on 0xFF (unsynch_encode s) = f0 :: map enc_fragment fs.
Proof.
  intros S. unfold unsynch_encode. rewrite S. split; [reflexivity|].
  apply split_join; [discriminate|]. pose proof (split_nosep 0xFF s) as H. rewrite S in H.
  inversion H as [|? ? H1 H2]; subst. constructor; [assumption|].
  apply Forall_forall. intros x Hx. apply in_map_iff in Hx as (y & <- & Hy).
  apply enc_fragment_nosep. rewrite Forall_forall in H2. apply H2. exact Hy.
Qed.

Lemma unsynch_encode_safe s : sync_safe (unsynch_encode s) = true.
Proof.
  destruct (split_on 0xFF s) as [|f0 fs] eqn:S; [exfalso; eapply split_on_nonnil; eassumption|].
  destruct (encode_fragments s f0 fs S) as [_ H]. rewrite safe_split, H. cbn [tl].
  apply forallb_forall. intros x Hx. apply in_map_iff in Hx as (y & <- & _). apply enc_fragment_follow.
Qed.

Lemma unsynch_roundtrip s : unsynch_decode (unsynch_encode s) = Ok s.
Proof.
  rewrite unsynch_decode_accepts by apply unsynch_encode_safe. f_equal.
  destruct (split_on 0xFF s) as [|f0 fs] eqn:S; [exfalso; eapply split_on_nonnil; eassumption|].
  destruct (encode_fragments s f0 fs S) as [_ H]. unfold destuffed. rewrite H.
  rewrite map_map. rewrite (map_ext _ (fun f => f) dec1_enc), map_id. rewrite <- S. apply join_split.
Qed.

(* encode = the direct byte-by-byte definition *)
Lemma join_enc_head f R :
  join_with 0xFF (enc_fragment f :: R) = if stuff_needed f then 0 :: join_with 0xFF (f :: R) else join_with 0xFF (f :: R).
Proof.
  rewrite enc_fragment_stuff. destruct (stuff_needed f); [|reflexivity].
  destruct R as [|g R]; [reflexivity|]. rewrite !join_cons2. reflexivity.
Qed.
Lemma unsynch_encode_direct s : unsynch_encode s = enc_direct s.
Proof.
  induction s as [|b r IH]; [reflexivity|].
  unfold unsynch_encode in *. cbn [split_on enc_direct].
  destruct (split_on 0xFF r) as [|f fs] eqn:S; [exfalso; eapply split_on_nonnil; eassumption|].
  destruct (b =? 0xFF) eqn:E.
  - cbn [map]. rewrite join_cons2. cbn [app]. rewrite join_enc_head, (hd_split_stuff r f fs S), IH. reflexivity.
  - rewrite <- IH. destruct fs as [|g fs']; cbn [map]; [reflexivity|]. rewrite !join_cons2. reflexivity.
Qed.

(* ---------- sync_safe, index form ---------- *)
Lemma sync_safe_nth l : sync_safe l = true -> forall n, (n < length l)%nat -> nth n l 0 = 0xFF ->
  (S n < length l)%nat /\ nth (S n) l 0 < 0xE0.
Proof.
  induction l as [|b r IH]; intros Hs n Hn Hx; cbn [length] in *; [lia|].
  cbn [sync_safe] in Hs. apply andb_true_iff in Hs as [H1 H2]. destruct n as [|n].
  - cbn [nth] in Hx. subst b. rewrite Z.eqb_refl in H1. destruct r as [|c r']; cbn [follow_ok] in H1; [discriminate|].
    cbn [length nth]. split; lia.
  - cbn [nth] in Hx. destruct (IH H2 n ltac:(lia) Hx) as [A B]. split; [lia|].
    change (nth (S (S n)) (b :: r) 0) with (nth (S n) r 0). exact B.
Qed.
Lemma sync_safe_znth l : sync_safe l = true -> forall i, 0 <= i < zlen l -> znth i l = 0xFF ->
  i + 1 < zlen l /\ znth (i + 1) l < 0xE0.
Proof.
  intros Hs i Hi Hx. unfold zlen, znth in *.
  destruct (sync_safe_nth l Hs (Z.to_nat i) ltac:(lia) Hx) as [A B].
  replace (Z.to_nat (i + 1)) with (S (Z.to_nat i)) by lia. split; [lia|exact B].
Qed.
(* and conversely: the index property implies sync_safe (so sync_safe says nothing more) *)
Lemma sync_safe_of_nth l :
  (forall n, (n < length l)%nat -> nth n l 0 = 0xFF -> (S n < length l)%nat /\ nth (S n) l 0 < 0xE0) ->
  sync_safe l = true.
Proof.
  induction l as [|b r IH]; intros H; [reflexivity|]. cbn [sync_safe]. apply andb_true_iff. split.
  - destruct (b =? 0xFF) eqn:E; [|reflexivity]. apply Z.eqb_eq in E.
    destruct (H O ltac:(cbn [length]; lia) E) as [A B]. destruct r as [|c r']; cbn [length] in A; [lia|].
    cbn [nth] in B. cbn [follow_ok]. lia.
  - apply IH. intros n Hn Hx. destruct (H (S n) ltac:(cbn [length]; lia) Hx) as [A B].
    cbn [length] in A. split; [lia|exact B].
Qed.
