(* IFF family: the strict reader and the renderer are inverse to each other.
     parse_chunks fuel (render_chunks cs) = Ok cs        (chunks valid, fuel > number of chunks)
     parse_chunks fuel b = Ok cs -> b = render_chunks cs /\ all chunks valid
     iff_parse (iff_render s) = Ok s   and   iff_parse f = Ok s -> f = iff_render s /\ struct_ok s
   so that iff_wf f = true is the same as "f is the rendering of a valid structure". *)
From Coq Require Import ZArith List Bool Lia.
Import ListNotations.
Require Import Base.Py Base.ZList Model.Splice Model.Fam_iff Proofs.Fam_iff_codec.
Open Scope Z_scope.

(* what the theorems need of a flavour record (Examples below: aiff, wave, dsdiff satisfy it) *)
Definition fl_ok (fl : flavour) : bool :=
  (1 <=? Z.of_nat (fl_w fl)) && sid_ok (fl_root fl) && sid_ok (fl_new fl) && is_id3 fl (fl_new fl) &&
  forallb (fun i => negb (id_in i (fl_cont fl))) (fl_ids fl).

Example aiff_ok : fl_ok aiff = true. Proof. vm_compute. reflexivity. Qed.
Example wave_ok : fl_ok wave = true. Proof. vm_compute. reflexivity. Qed.
Example dsdiff_ok : fl_ok dsdiff = true. Proof. vm_compute. reflexivity. Qed.

Lemma seg5 {A} (a b c d e : list A) i1 i2 i3 i4 :
  i1 = zlen a -> i2 = i1 + zlen b -> i3 = i2 + zlen c -> i4 = i3 + zlen d ->
  let l := a ++ b ++ c ++ d ++ e in
  ztake i1 l = a /\ zslice i1 i2 l = b /\ zslice i2 i3 l = c /\ zslice i3 i4 l = d /\ zdrop i4 l = e.
Proof.
  intros -> -> -> -> l. unfold l. repeat split.
  - apply ztake_app_exact.
  - apply zslice_mid; lia.
  - replace (a ++ b ++ c ++ d ++ e) with ((a ++ b) ++ c ++ d ++ e) by (rewrite <- app_assoc; reflexivity).
    apply zslice_mid; rewrite zlen_app; lia.
  - replace (a ++ b ++ c ++ d ++ e) with ((a ++ b ++ c) ++ d ++ e) by (rewrite <- !app_assoc; reflexivity).
    apply zslice_mid; rewrite !zlen_app; lia.
  - replace (a ++ b ++ c ++ d ++ e) with ((a ++ b ++ c ++ d) ++ e) by (rewrite <- !app_assoc; reflexivity).
    apply zdrop_app_len; rewrite !zlen_app; lia.
Qed.

Section Fl.
Variable fl : flavour.
Hypothesis Hfl : fl_ok fl = true.

Notation H := (hsize fl).
Notation W := (Z.of_nat (fl_w fl)).

Lemma hsize_eq : H = 4 + W. Proof. reflexivity. Qed.
Lemma fl_w_pos : 1 <= W.
Proof. unfold fl_ok in Hfl. rewrite !andb_true_iff in Hfl. destruct Hfl as [[[[A _] _] _] _]. apply Z.leb_le in A. exact A. Qed.
Lemma fl_root_sid : sid_ok (fl_root fl) = true.
Proof. unfold fl_ok in Hfl. rewrite !andb_true_iff in Hfl. tauto. Qed.
Lemma fl_new_sid : sid_ok (fl_new fl) = true.
Proof. unfold fl_ok in Hfl. rewrite !andb_true_iff in Hfl. tauto. Qed.
Lemma fl_new_id3 : is_id3 fl (fl_new fl) = true.
Proof. unfold fl_ok in Hfl. rewrite !andb_true_iff in Hfl. tauto. Qed.
Lemma id3_not_cont raw : is_id3 fl raw = true -> is_cont fl raw = false.
Proof.
  unfold fl_ok in Hfl. rewrite !andb_true_iff in Hfl. destruct Hfl as [_ Hf].
  unfold is_id3, is_cont, id_in. intros Hi. apply existsb_exists in Hi as (x & Hx & Ex).
  apply list_eqb_spec in Ex. rewrite Ex. rewrite forallb_forall in Hf. specialize (Hf x Hx).
  apply negb_true_iff in Hf. exact Hf.
Qed.

(* ---- codec of the flavour *)
Lemma enc_zlen v : zlen (enc fl v) = W.
Proof. unfold enc. destruct (fl_le fl); [apply le_encode_zlen | apply be_encode_zlen]. Qed.
Lemma enc_bytes v : all_bytes (enc fl v) = true.
Proof. unfold enc. destruct (fl_le fl); [apply le_encode_bytes | apply be_encode_bytes]. Qed.
Lemma fits_iff v : fits fl v = true <-> 0 <= v < 256 ^ W.
Proof. unfold fits. rewrite andb_true_iff, Z.leb_le, Z.ltb_lt. tauto. Qed.
Lemma dec_enc v : fits fl v = true -> dec fl (enc fl v) = v.
Proof.
  intros Hv. apply fits_iff in Hv. unfold dec, enc.
  destruct (fl_le fl); [apply le_decode_encode | apply be_decode_encode]; exact Hv.
Qed.
Lemma enc_dec bs : zlen bs = W -> all_bytes bs = true -> enc fl (dec fl bs) = bs /\ fits fl (dec fl bs) = true.
Proof.
  intros Hl Hb. assert (El : length bs = fl_w fl) by (unfold zlen in Hl; lia).
  unfold enc, dec. rewrite fits_iff. rewrite <- El.
  destruct (fl_le fl).
  - split; [apply le_encode_decode | apply le_decode_range]; exact Hb.
  - split; [apply be_encode_decode | apply be_decode_range]; exact Hb.
Qed.

(* ---- chunks *)
Lemma sid_ok_len raw : sid_ok raw = true -> zlen raw = 4.
Proof. unfold sid_ok. rewrite !andb_true_iff. intros [[A _] _]. apply Z.eqb_eq in A. exact A. Qed.

Lemma chunk_ok_inv c : chunk_ok fl c = true ->
  zlen (cid c) = 4 /\ sid_ok (cid c) = true /\ fits fl (zlen (cdata c)) = true /\
  zlen (cpad c) = zlen (cdata c) mod 2 /\ cont_ok fl c = true.
Proof.
  unfold chunk_ok. rewrite !andb_true_iff. intros [[[A B] C] D]. apply Z.eqb_eq in C.
  repeat split; try assumption. apply sid_ok_len; exact A.
Qed.
Lemma chunk_ok_intro c : sid_ok (cid c) = true -> fits fl (zlen (cdata c)) = true ->
  zlen (cpad c) = zlen (cdata c) mod 2 -> cont_ok fl c = true -> chunk_ok fl c = true.
Proof. intros A B C D. unfold chunk_ok. rewrite A, B, D. apply Z.eqb_eq in C. rewrite C. reflexivity. Qed.

Definition csize (c : chunk) : Z := H + zlen (cdata c) + zlen (cpad c).
Lemma render_chunk_zlen c : zlen (cid c) = 4 -> zlen (render_chunk fl c) = csize c.
Proof. intros Hc. unfold render_chunk, csize. rewrite !zlen_app, enc_zlen, Hc. rewrite hsize_eq. lia. Qed.

Lemma render_chunks_app a b : render_chunks fl (a ++ b) = render_chunks fl a ++ render_chunks fl b.
Proof. induction a as [|c a IH]; cbn [app render_chunks]; [reflexivity|]. rewrite IH, app_assoc. reflexivity. Qed.

Lemma render_chunks_len cs : forallb (chunk_ok fl) cs = true -> zlen cs <= zlen (render_chunks fl cs).
Proof.
  induction cs as [|c cs IH]; intros Hok; [cbn; lia|].
  cbn [forallb] in Hok. apply andb_true_iff in Hok as [Hc Hcs].
  cbn [render_chunks]. rewrite zlen_app, zlen_cons.
  destruct (chunk_ok_inv c Hc) as (A & _). rewrite render_chunk_zlen by exact A.
  unfold csize. pose proof (zlen_nonneg (cdata c)). pose proof (zlen_nonneg (cpad c)). pose proof fl_w_pos.
  specialize (IH Hcs). rewrite hsize_eq. lia.
Qed.

Lemma mod2_range n : 0 <= n mod 2 < 2. Proof. apply Z.mod_pos_bound; lia. Qed.

(* render -> parse *)
Lemma parse_chunks_render cs : forallb (chunk_ok fl) cs = true ->
  forall fuel, (length cs < fuel)%nat -> parse_chunks fl fuel (render_chunks fl cs) = Ok cs.
Proof.
  induction cs as [|c cs IH]; intros Hok fuel Hf.
  - destruct fuel; [lia|]. reflexivity.
  - destruct fuel as [|k]; [cbn in Hf; lia|]. cbn [length] in Hf.
    cbn [forallb] in Hok. apply andb_true_iff in Hok as [Hc Hcs].
    destruct (chunk_ok_inv c Hc) as (A & _ & C & D & _).
    cbn [render_chunks]. unfold render_chunk. rewrite <- !app_assoc.
    set (X := render_chunks fl cs). set (n := zlen (cdata c)) in *.
    pose proof (zlen_nonneg (cdata c)) as Hn. fold n in Hn. pose proof (mod2_range n) as Hm.
    pose proof fl_w_pos as Hw. pose proof hsize_eq as HH. pose proof (zlen_nonneg X) as HX.
    destruct (seg5 (cid c) (enc fl n) (cdata c) (cpad c) X 4 H (H + n) (H + (n + n mod 2)))
      as (S1 & S2 & S3 & S4 & S5); try (rewrite ?enc_zlen, ?hsize_eq; lia).
    set (b := cid c ++ enc fl n ++ cdata c ++ cpad c ++ X) in *.
    assert (Lb : zlen b = H + n + n mod 2 + zlen X).
    { unfold b. rewrite !zlen_app, enc_zlen, A, D. fold n. rewrite hsize_eq. lia. }
    cbn [parse_chunks].
    bset (zlen b =? 0) false. bset (zlen b <? H) false.
    rewrite S2, enc_bytes. cbn [negb]. rewrite dec_enc by exact C.
    bset (zlen b <? H + (n + n mod 2)) false.
    rewrite S1, S3, S4, S5.
    assert (Ec : mkChunk (cid c) (cdata c) (cpad c) = c) by (destruct c; reflexivity).
    rewrite Ec, Hc. cbn [negb]. unfold X. rewrite IH by (assumption || lia). reflexivity.
Qed.

(* parse -> render *)
Lemma parse_chunks_sound : forall fuel b cs, parse_chunks fl fuel b = Ok cs ->
  b = render_chunks fl cs /\ forallb (chunk_ok fl) cs = true.
Proof.
  induction fuel as [|k IH]; intros b cs Hp; [discriminate|].
  cbn [parse_chunks] in Hp.
  destruct (zlen b =? 0) eqn:E0.
  { inversion Hp; subst. split; [|reflexivity]. destruct b; [reflexivity|]. rewrite zlen_cons in E0.
    pose proof (zlen_nonneg b). lia. }
  destruct (zlen b <? H) eqn:E1; [discriminate|].
  destruct (all_bytes (zslice 4 H b)) eqn:E2; cbn [negb] in Hp; [|discriminate].
  set (szf := zslice 4 H b) in *. set (ds := dec fl szf) in *.
  destruct (zlen b <? H + (ds + ds mod 2)) eqn:E3; [discriminate|].
  match type of Hp with context [chunk_ok fl ?x] => set (c := x) in * end.
  destruct (chunk_ok fl c) eqn:E4; cbn [negb] in Hp; [|discriminate].
  destruct (parse_chunks fl k (zdrop (H + (ds + ds mod 2)) b)) as [cs'|e] eqn:E5; cbn [rbind] in Hp; [|discriminate].
  inversion Hp; subst cs. destruct (IH _ _ E5) as [Hb Hok].
  split; [|cbn [forallb]; rewrite E4, Hok; reflexivity].
  pose proof fl_w_pos as Hw. pose proof hsize_eq as HH. pose proof (mod2_range ds) as Hm.
  assert (Lsz : zlen szf = W). { unfold szf. rewrite zlen_zslice by (rewrite ?hsize_eq; lia). rewrite hsize_eq. lia. }
  destruct (enc_dec szf Lsz E2) as [Eenc Hfit]. fold ds in Eenc, Hfit.
  apply fits_iff in Hfit.
  assert (E : b = ztake 4 b ++ zslice 4 H b ++ zslice H (H + ds) b ++ zslice (H + ds) (H + (ds + ds mod 2)) b
                 ++ zdrop (H + (ds + ds mod 2)) b).
  { rewrite <- (zdrop_split (H + ds) (H + (ds + ds mod 2)) b) by lia.
    rewrite <- (zdrop_split H (H + ds) b) by lia. rewrite <- (zdrop_split 4 H b) by lia.
    symmetry; apply ztake_zdrop. }
  cbn [render_chunks]. rewrite <- Hb. unfold render_chunk, c. cbn [cid cdata cpad].
  rewrite zlen_zslice by lia. replace (H + ds - H) with ds by lia. rewrite Eenc. unfold szf.
  rewrite <- !app_assoc. exact E.
Qed.

(* ---- whole files *)
Lemma name_ok_len n : name_ok fl n = true -> zlen n = 4.
Proof. unfold name_ok. rewrite !andb_true_iff. intros [[A _] _]. apply Z.eqb_eq in A. exact A. Qed.

Lemma struct_ok_inv s : struct_ok fl s = true ->
  name_ok fl (s_name s) = true /\ forallb (chunk_ok fl) (s_chunks s) = true /\
  fits fl (4 + zlen (render_chunks fl (s_chunks s))) = true.
Proof. unfold struct_ok. rewrite !andb_true_iff. tauto. Qed.

Lemma iff_render_zlen s : struct_ok fl s = true ->
  zlen (iff_render fl s) = H + 4 + zlen (render_chunks fl (s_chunks s)).
Proof.
  intros Hs. destruct (struct_ok_inv s Hs) as (Hn & _ & _). apply name_ok_len in Hn.
  unfold iff_render. rewrite !zlen_app, enc_zlen, Hn, (sid_ok_len _ fl_root_sid). rewrite hsize_eq. lia.
Qed.

Theorem iff_parse_render s : struct_ok fl s = true -> iff_parse fl (iff_render fl s) = Ok s.
Proof.
  intros Hs. destruct (struct_ok_inv s Hs) as (Hn & Hcs & Hfit).
  pose proof (name_ok_len _ Hn) as Ln. pose proof (sid_ok_len _ fl_root_sid) as Lr.
  pose proof (iff_render_zlen s Hs) as Lf. pose proof fl_w_pos as Hw. pose proof hsize_eq as HH.
  set (X := render_chunks fl (s_chunks s)) in *. pose proof (zlen_nonneg X) as HX.
  unfold iff_parse. set (f := iff_render fl s) in *.
  assert (Ef : f = fl_root fl ++ enc fl (4 + zlen X) ++ s_name s ++ [] ++ X).
  { unfold f, iff_render. fold X. rewrite Ln. reflexivity. }
  destruct (seg5 (fl_root fl) (enc fl (4 + zlen X)) (s_name s) [] X 4 H (H + 4) (H + 4))
    as (S1 & S2 & S3 & _ & S5); try (rewrite ?enc_zlen, ?hsize_eq, ?zlen_nil; lia).
  rewrite <- Ef in S1, S2, S3, S5.
  bset (zlen f <? H + 4) false. rewrite S1, list_eqb_refl. cbn [negb].
  rewrite S2, enc_bytes. cbn [negb]. rewrite dec_enc by exact Hfit.
  bset (H + (4 + zlen X) =? zlen f) true. cbn [negb]. rewrite S3, Hn. cbn [negb]. rewrite S5.
  unfold X. rewrite parse_chunks_render.
  - cbn [rbind]. destruct s; reflexivity.
  - exact Hcs.
  - pose proof (render_chunks_len _ Hcs) as Hrl. fold X in Hrl. unfold zlen in *. lia.
Qed.

Theorem iff_parse_sound f s : iff_parse fl f = Ok s -> f = iff_render fl s /\ struct_ok fl s = true.
Proof.
  unfold iff_parse. intros Hp.
  destruct (zlen f <? H + 4) eqn:E0; [discriminate|].
  destruct (list_eqb (ztake 4 f) (fl_root fl)) eqn:E1; cbn [negb] in Hp; [|discriminate].
  destruct (all_bytes (zslice 4 H f)) eqn:E2; cbn [negb] in Hp; [|discriminate].
  destruct (H + dec fl (zslice 4 H f) =? zlen f) eqn:E3; cbn [negb] in Hp; [|discriminate].
  destruct (name_ok fl (zslice H (H + 4) f)) eqn:E4; cbn [negb] in Hp; [|discriminate].
  destruct (parse_chunks fl (S (length f)) (zdrop (H + 4) f)) as [cs|e] eqn:E5; cbn [rbind] in Hp; [|discriminate].
  inversion Hp; subst s. clear Hp.
  apply list_eqb_spec in E1. destruct (parse_chunks_sound _ _ _ E5) as [Hb Hok].
  pose proof fl_w_pos as Hw. pose proof hsize_eq as HH.
  assert (Lsz : zlen (zslice 4 H f) = W). { rewrite zlen_zslice by (rewrite ?hsize_eq; lia). rewrite hsize_eq. lia. }
  destruct (enc_dec _ Lsz E2) as [Eenc Hfit].
  assert (Ll : zlen (render_chunks fl cs) = zlen f - (H + 4)).
  { rewrite <- Hb. rewrite zlen_zdrop by lia. lia. }
  assert (Ed : dec fl (zslice 4 H f) = 4 + zlen (render_chunks fl cs)) by lia.
  split.
  - unfold iff_render. cbn [s_name s_chunks]. rewrite (name_ok_len _ E4). rewrite <- Ed, Eenc, <- E1, <- Hb.
    rewrite <- (zdrop_split H (H + 4) f) by lia. rewrite <- (zdrop_split 4 H f) by lia.
    symmetry; apply ztake_zdrop.
  - unfold struct_ok. cbn [s_name s_chunks]. rewrite E4, Hok. rewrite <- Ed, Hfit. reflexivity.
Qed.

(* well-formed = rendering of a valid structure *)
Theorem iff_wf_iff f : iff_wf fl f = true <-> exists s, struct_ok fl s = true /\ f = iff_render fl s.
Proof.
  unfold iff_wf. split.
  - destruct (iff_parse fl f) as [s|e] eqn:E; [|discriminate]. intros _.
    destruct (iff_parse_sound f s E) as [A B]. exists s. split; assumption.
  - intros (s & Hs & ->). rewrite iff_parse_render by exact Hs. reflexivity.
Qed.

End Fl.
