(* C13: _get_v23_frame -- encodings are 0/1 at every depth; multi-values joined by the separator. *)
From Coq Require Import ZArith List Bool Lia.
Import ListNotations.
Require Import Base.Py Base.ZList Model.Id3Util Model.Id3Conv Proofs.C13_dict Proofs.C14_unsynch.
Open Scope Z_scope.

(* the text-encoding byte of a frame that has one is LATIN1 (0) or UTF16 (1) *)
Definition conv_enc_ok1 (f : frame) : Prop :=
  match f with
  | FText _ e _ | FStamp _ e _ | FTxxx e _ _ | FComm e _ _ _ | FPeople _ e _ | FApic e _ _ _ _ => e = 0 \/ e = 1
  | _ => True
  end.

Lemma enc23_ok e : conv_enc23 e = 0 \/ conv_enc23 e = 1.
Proof.
  unfold conv_enc23. destruct (e =? 0) eqn:A; [apply Z.eqb_eq in A; left; exact A|].
  destruct (e =? 1) eqn:B; cbn; [apply Z.eqb_eq in B; right; exact B | right; reflexivity].
Qed.
Lemma enc23_fixed e : e = 0 \/ e = 1 -> conv_enc23 e = e.
Proof. intros [->| ->]; reflexivity. Qed.

Lemma v23_frame_enc_ok sep f : conv_deep conv_enc_ok1 (conv_v23_frame sep f).
Proof.
  induction f using frame_ind'.
  - destruct f; try discriminate; cbn [conv_v23_frame]; apply conv_deep_leaf; try reflexivity;
      cbn [conv_enc_ok1]; try apply enc23_ok; exact I.
  - cbn [conv_v23_frame]. apply conv_deep_chap. split; [exact I|].
    apply Forall_forall. intros x Hx. apply in_map_iff in Hx. destruct Hx as (y & <- & Hy).
    rewrite Forall_forall in H. apply H. exact Hy.
  - cbn [conv_v23_frame]. apply conv_deep_ctoc. split; [exact I|].
    apply Forall_forall. intros x Hx. apply in_map_iff in Hx. destruct Hx as (y & <- & Hy).
    rewrite Forall_forall in H. apply H. exact Hy.
Qed.

Lemma saved23_enc_ok sep t : Forall (conv_deep conv_enc_ok1) (conv_saved23 sep t).
Proof.
  unfold conv_saved23. apply Forall_forall. intros x Hx. apply in_map_iff in Hx.
  destruct Hx as (y & <- & _). apply v23_frame_enc_ok.
Qed.

(* the key (HashKey) is not changed by _get_v23_frame *)
Lemma v23_frame_key sep f : conv_key (conv_v23_frame sep f) = conv_key f.
Proof. destruct f; reflexivity. Qed.

(* joining with a one-character separator: splitting at it gives the values back *)
Lemma join_single c vals : conv_join [c] vals = join_with c vals.
Proof.
  induction vals as [|v r IH]; [reflexivity|]. destruct r as [|w r']; [reflexivity|].
  change (conv_join [c] (v :: w :: r')) with (v ++ [c] ++ conv_join [c] (w :: r')).
  change (join_with c (v :: w :: r')) with (v ++ c :: join_with c (w :: r')).
  rewrite IH. reflexivity.
Qed.
Lemma join_split_back c vals : vals <> [] -> Forall (nosep c) vals -> split_on c (conv_join [c] vals) = vals.
Proof. intros N H. rewrite join_single. apply split_join; assumption. Qed.

(* any separator: the joined text is the values in order with the separator between neighbours *)
Lemma join_cons2 sep v w r : conv_join sep (v :: w :: r) = v ++ sep ++ conv_join sep (w :: r).
Proof. reflexivity. Qed.
