From Coq Require Import ZArith List Bool Lia.
Import ListNotations.
Require Import Base.Py Base.ZList Base.FileModel Gen.Gen_util Proofs.FileLemmas Proofs.C11_move Proofs.C11_move2 Proofs.C11_resize.
Open Scope Z_scope.

(* run a sub-computation whose spec is given in fst/snd form *)
Lemma bind_spec {A B} (m : M A) (k : A -> M B) s a d c :
  fst (m s) = Ok a /\ fdata (snd (m s)) = d /\ fcfg_of (snd (m s)) = c ->
  exists p, (x <- m ;; k x) s = k a (mkF d p c).
Proof.
  intros (H1 & H2 & H3). unfold bind. destruct (m s) as [r [d' p' c']]. cbn in *. subst. exists p'. reflexivity.
Qed.

Section Bytes.
Variables (real : bool) (part : Z).
Notation cf := (benign real part).
Variable BUF : Z.
Hypothesis HBUF : 1 <= BUF.

Definition inserted (f : list Z) (size offset : Z) : list Z :=
  moved (f ++ zeros size) (offset + size) offset (zlen f - offset).

Theorem insert_bytes_spec f p size offset :
  0 <= size -> 0 <= offset <= zlen f ->
  fst (insert_bytes BUF size offset (mkF f p cf)) = Ok tt /\
  fdata (snd (insert_bytes BUF size offset (mkF f p cf))) = inserted f size offset /\
  fcfg_of (snd (insert_bytes BUF size offset (mkF f p cf))) = cf.
Proof.
  intros Hs Ho. unfold insert_bytes.
  rewrite step_guard. bset ((size <? 0) || (offset <? 0)) false.
  rewrite step_seek_end, step_tell. cbv zeta. rewrite step_guard. bset (zlen f - offset <? 0) false.
  pose proof (resize_file_spec real part BUF HBUF f (zlen f) size ltac:(lia)) as R.
  assert (Hsz : (size <? 0) = false) by lia. rewrite Hsz in R.
  destruct (bind_spec (resize_file BUF size) (fun _ => move_bytes BUF (offset + size) offset (zlen f - offset);; ret tt)
              _ _ _ _ R) as [p1 E1].
  rewrite E1.
  assert (Hl : zlen (f ++ zeros size) = zlen f + size) by (rewrite zlen_app, zlen_zeros; lia).
  pose proof (move_bytes_spec real part BUF HBUF (f ++ zeros size) p1 (offset + size) offset (zlen f - offset)
              ltac:(lia) ltac:(lia) ltac:(lia) ltac:(lia)) as MM.
  destruct (bind_spec (move_bytes BUF (offset + size) offset (zlen f - offset)) (fun _ => ret tt) _ _ _ _ MM) as [p2 E2].
  rewrite E2. unfold ret; cbn. repeat split; reflexivity.
Qed.

(* property-level consequences *)
Lemma inserted_len f size offset : 0 <= size -> 0 <= offset <= zlen f -> zlen (inserted f size offset) = zlen f + size.
Proof.
  intros. unfold inserted, moved. rewrite !zlen_app, !zlen_ztake, !zlen_zdrop, !zlen_app, !zlen_zeros by lia. lia.
Qed.
Lemma inserted_prefix f size offset : 0 <= size -> 0 <= offset <= zlen f ->
  ztake offset (inserted f size offset) = ztake offset f.
Proof.
  intros Hs Ho. apply znth_ext.
  - rewrite !zlen_ztake, inserted_len by lia. lia.
  - intros i Hi. rewrite zlen_ztake, inserted_len in Hi by lia. rewrite !znth_ztake by lia.
    unfold inserted, moved. rewrite znth_app by lia. rewrite zlen_ztake, zlen_app, zlen_zeros by lia.
    bset (i <? Z.min (offset + size) (zlen f + size)) true. rewrite znth_ztake by lia.
    rewrite znth_app by lia. bset (i <? zlen f) true. reflexivity.
Qed.
Lemma inserted_suffix f size offset : 0 <= size -> 0 <= offset <= zlen f ->
  zdrop (offset + size) (inserted f size offset) = zdrop offset f.
Proof.
  intros Hs Ho. apply znth_ext.
  - rewrite !zlen_zdrop, inserted_len by lia. lia.
  - intros i Hi. rewrite zlen_zdrop, inserted_len in Hi by lia. rewrite !znth_zdrop by lia.
    unfold inserted, moved. rewrite znth_app by lia. rewrite zlen_ztake, zlen_app, zlen_zeros by lia.
    bset (offset + size + i <? Z.min (offset + size) (zlen f + size)) false.
    rewrite znth_app by lia. rewrite zlen_ztake, zlen_zdrop, zlen_app, zlen_zeros by lia.
    replace (Z.min (offset + size) (zlen f + size)) with (offset + size) by lia.
    bset (offset + size + i - (offset + size) <? Z.min (zlen f - offset) (Z.max 0 (zlen f + size - offset))) true.
    rewrite znth_ztake by lia. rewrite znth_zdrop by lia. rewrite znth_app by lia.
    bset (offset + (offset + size + i - (offset + size)) <? zlen f) true. f_equal; lia.
Qed.

Definition deleted (f : list Z) (size offset : Z) : list Z := ztake offset f ++ zdrop (offset + size) f.

Theorem delete_bytes_spec f p size offset :
  0 <= size -> 0 <= offset -> offset + size <= zlen f ->
  fst (delete_bytes BUF size offset (mkF f p cf)) = Ok tt /\
  fdata (snd (delete_bytes BUF size offset (mkF f p cf))) = deleted f size offset /\
  fcfg_of (snd (delete_bytes BUF size offset (mkF f p cf))) = cf.
Proof.
  intros Hs Ho Hf. unfold delete_bytes.
  rewrite step_guard. bset ((size <? 0) || (offset <? 0)) false.
  rewrite step_seek_end, step_tell. cbv zeta. rewrite step_guard. bset (zlen f - offset - size <? 0) false.
  pose proof (move_bytes_spec real part BUF HBUF f (zlen f) offset (offset + size) (zlen f - offset - size)
              ltac:(lia) ltac:(lia) ltac:(lia) ltac:(lia)) as MM.
  destruct (bind_spec (move_bytes BUF offset (offset + size) (zlen f - offset - size))
              (fun _ => resize_file BUF (- size);; ret tt) _ _ _ _ MM) as [p1 E1].
  rewrite E1.
  set (g := moved f offset (offset + size) (zlen f - offset - size)).
  assert (Hg : zlen g = zlen f).
  { unfold g, moved. rewrite !zlen_app, !zlen_ztake, !zlen_zdrop by lia. lia. }
  pose proof (resize_file_spec real part BUF HBUF g p1 (- size) ltac:(lia)) as R.
  destruct (bind_spec (resize_file BUF (- size)) (fun _ => ret tt) _ _ _ _ R) as [p2 E2].
  rewrite E2. unfold ret; cbn. split; [reflexivity|]. split; [|reflexivity].
  destruct (- size <? 0) eqn:E.
  - rewrite Hg. unfold g, moved, deleted.
    rewrite app_assoc. rewrite ztake_app_l.
    2:{ rewrite zlen_app, !zlen_ztake, zlen_zdrop by lia. lia. }
    rewrite ztake_all. 2:{ rewrite zlen_app, !zlen_ztake, zlen_zdrop by lia. lia. }
    f_equal. apply ztake_all. rewrite zlen_zdrop by lia. lia.
  - assert (size = 0) by lia. subst size. unfold zeros; cbn. rewrite app_nil_r.
    unfold g, moved, deleted. replace (offset + 0) with offset by lia.
    replace (offset + (zlen f - offset - 0)) with (zlen f) by lia.
    rewrite (zdrop_all f (zlen f)) by lia. rewrite app_nil_r. f_equal.
    apply ztake_all. rewrite zlen_zdrop by lia. lia.
Qed.

(* resize_bytes: the statement of C11 *)
Theorem resize_bytes_spec f p old new off :
  0 <= old -> 0 <= new -> 0 <= off -> off + old <= zlen f ->
  let r := resize_bytes BUF old new off (mkF f p cf) in
  fst r = Ok tt /\
  zlen (fdata (snd r)) = zlen f + new - old /\
  ztake (off + Z.min old new) (fdata (snd r)) = ztake (off + Z.min old new) f /\
  zdrop (off + new) (fdata (snd r)) = zdrop (off + old) f /\
  fcfg_of (snd r) = cf.
Proof.
  intros Ho Hn Hoff Hfit. cbv zeta. unfold resize_bytes. rewrite step_guard.
  assert (Eg : (old <? 0) || (new <? 0) || (off <? 0) = false) by lia. rewrite Eg. rewrite !bind_if_c.
  destruct (new <? old) eqn:E1.
  - cbv zeta.
    destruct (delete_bytes_spec f p (old - new) (off + new) ltac:(lia) ltac:(lia) ltac:(lia)) as (D1 & D2 & D3).
    unfold bind, ret.
    destruct (delete_bytes BUF (old - new) (off + new) {| fdata := f; fpos := p; fcfg_of := cf |}) as [r [d1 p1 c1]].
    cbn [fst snd fdata fcfg_of] in *. subst r d1 c1. cbn [fst snd fdata fcfg_of]. split; [reflexivity|].
    unfold deleted. replace (off + new + (old - new)) with (off + old) by lia.
    replace (Z.min old new) with new by lia.
    split; [|split; [|split; [|reflexivity]]].
    + rewrite zlen_app, zlen_ztake, zlen_zdrop by lia. lia.
    + rewrite ztake_app_l by (rewrite zlen_ztake by lia; lia). apply ztake_all. rewrite zlen_ztake by lia. lia.
    + rewrite zdrop_app_l by (rewrite zlen_ztake by lia; lia).
      rewrite zdrop_all by (rewrite zlen_ztake by lia; lia). reflexivity.
  - destruct (new >? old) eqn:E2.
    + cbv zeta.
      destruct (insert_bytes_spec f p (new - old) (off + old) ltac:(lia) ltac:(lia)) as (I1 & I2 & I3).
      unfold bind, ret.
      destruct (insert_bytes BUF (new - old) (off + old) {| fdata := f; fpos := p; fcfg_of := cf |}) as [r [d1 p1 c1]].
      cbn [fst snd fdata fcfg_of] in *. subst r d1 c1. cbn [fst snd fdata fcfg_of].
      split; [reflexivity|]. replace (Z.min old new) with old by lia.
      split; [|split; [|split; [|reflexivity]]].
      * rewrite inserted_len by lia. lia.
      * apply inserted_prefix; lia.
      * replace (off + new) with (off + old + (new - old)) by lia. apply inserted_suffix; lia.
    + assert (new = old) by lia. subst new. unfold bind, ret; cbn [fst snd fdata].
      split; [reflexivity|]. split; [lia|]. repeat split; reflexivity.
Qed.
End Bytes.
Print Assumptions resize_bytes_spec.
