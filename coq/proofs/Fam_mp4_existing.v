(* __save_existing on a well-formed file: the decomposition of the tree around moov.udta.meta.ilst, the hypotheses of
   the abstract surgery (ancestors, placement of the offset tables) derived from the strict rules, and the result. *)
From Coq Require Import ZArith List Bool Lia.
Import ListNotations.
Require Import Base.Py Base.ZList Model.Splice Model.Fam_mp4 Proofs.Splice_lemmas
  Proofs.Fam_mp4_bytes Proofs.Fam_mp4_tree Proofs.Fam_mp4_steps Proofs.Fam_mp4_agree Proofs.Fam_mp4_path
  Proofs.Fam_mp4_lists Proofs.Fam_mp4_surgery Proofs.Fam_mp4_shift.
Open Scope Z_scope.

Lemma flat_in_split l1 a l2 x : In x (mp4_flat (l1 ++ a :: l2)) ->
  In x (mp4_flat l1) \/ x = a \/ (exists ks, ma_kids a = Some ks /\ In x (mp4_flat ks)) \/ In x (mp4_flat l2).
Proof.
  rewrite flat_app, flat_cons. intros H. apply in_app_or in H. destruct H as [H|H]; [left; exact H|].
  apply in_app_or in H. destruct H as [H|H]; [|right; right; right; exact H].
  destruct a as [n o l h [ks|]].
  - rewrite flat_atom_node in H. destruct H as [<-|H]; [right; left; reflexivity|].
    right; right; left. exists ks. split; [reflexivity|exact H].
  - rewrite flat_atom_leaf in H. destruct H as [<-|[]]. right; left; reflexivity.
Qed.

(* no offset table hides among the ilst items (an item named stco/co64 would be taken for a table by findall) *)
Definition is_table_name (x : mp4_atom) : bool := mp4_named N_stco x || mp4_named N_co64 x || mp4_named N_tfhd x.
Definition ilst_clean (ilst : mp4_atom) : bool := forallb (fun x => negb (is_table_name x)) (mp4_flat_atom ilst).

Section Existing.
Variables (f : list Z) (atoms : list mp4_atom).
Hypothesis Hwf : mp4_forest_ok f true atoms 0 (zlen f) = true.
Hypothesis Htab : mp4_tables_ok f atoms = true.
Variables (moov udta meta ilst : mp4_atom) (T1 T2 M1 M2 U1 U2 A R B : list mp4_atom) (off old : Z).
Hypothesis Eatoms : atoms = T1 ++ moov :: T2.
Hypothesis Kmoov : ma_kids moov = Some (M1 ++ udta :: M2).
Hypothesis Kudta : ma_kids udta = Some (U1 ++ meta :: U2).
Hypothesis Kmeta : ma_kids meta = Some (A ++ R ++ B).
Hypothesis Nmoov : ma_name moov = N_moov.
Hypothesis Nudta : ma_name udta = N_udta.
Hypothesis Nmeta : ma_name meta = N_meta.
Hypothesis Nilst : ma_name ilst = N_ilst.
Hypothesis HR : region_shape ilst R.
Hypothesis FA : mp4_forest_ok f false A (ma_off meta + ma_hdr meta + mp4_skip (ma_name meta)) off = true.
Hypothesis FR : mp4_forest_ok f false R off (off + old) = true.
Hypothesis FB : mp4_forest_ok f false B (off + old) (ma_off meta + ma_len meta) = true.
Hypothesis Hclean : ilst_clean ilst = true.

(* ---- the chain of positions *)
Lemma top_split : mp4_forest_ok f true T1 0 (ma_off moov) = true /\ mp4_atom_ok f true moov = true /\
                  mp4_forest_ok f true T2 (ma_off moov + ma_len moov) (zlen f) = true.
Proof. rewrite Eatoms in Hwf. apply forest_ok_split in Hwf. exact Hwf. Qed.
Lemma moov_split : mp4_forest_ok f false M1 (ma_off moov + ma_hdr moov + mp4_skip (ma_name moov)) (ma_off udta) = true /\
                   mp4_atom_ok f false udta = true /\
                   mp4_forest_ok f false M2 (ma_off udta + ma_len udta) (ma_off moov + ma_len moov) = true.
Proof.
  destruct top_split as (_ & Hm & _). destruct (atom_ok_kids _ _ _ _ Hm Kmoov) as (_ & Hk).
  apply forest_ok_split in Hk. exact Hk.
Qed.
Lemma udta_split : mp4_forest_ok f false U1 (ma_off udta + ma_hdr udta + mp4_skip (ma_name udta)) (ma_off meta) = true /\
                   mp4_atom_ok f false meta = true /\
                   mp4_forest_ok f false U2 (ma_off meta + ma_len meta) (ma_off udta + ma_len udta) = true.
Proof.
  destruct moov_split as (_ & Hu & _). destruct (atom_ok_kids _ _ _ _ Hu Kudta) as (_ & Hk).
  apply forest_ok_split in Hk. exact Hk.
Qed.

Lemma old_pos : 8 <= old.
Proof.
  inversion HR; subst R.
  - apply forest_ok_cons in FR. destruct FR as (E1 & E2 & E3). apply forest_ok_nil in E3. apply atom_ok_len in E2. lia.
  - apply forest_ok_cons in FR. destruct FR as (E1 & E2 & E3). apply forest_ok_le in E3. apply atom_ok_len in E2. lia.
  - apply forest_ok_cons in FR. destruct FR as (E1 & E2 & E3). apply forest_ok_le in E3. apply atom_ok_len in E2. lia.
Qed.

Lemma positions :
  0 <= ma_off moov /\ ma_off moov + ma_hdr moov + mp4_skip (ma_name moov) <= ma_off udta /\
  ma_off udta + ma_hdr udta + mp4_skip (ma_name udta) <= ma_off meta /\
  ma_off meta + ma_hdr meta + mp4_skip (ma_name meta) <= off /\
  off + old <= ma_off meta + ma_len meta /\ ma_off meta + ma_len meta <= ma_off udta + ma_len udta /\
  ma_off udta + ma_len udta <= ma_off moov + ma_len moov /\ ma_off moov + ma_len moov <= zlen f.
Proof.
  destruct top_split as (H1 & H2 & H3). destruct moov_split as (H4 & H5 & H6). destruct udta_split as (H7 & H8 & H9).
  apply forest_ok_le in H1, H3, H4, H6, H7, H9. pose proof (forest_ok_le _ _ _ _ _ FA). pose proof (forest_ok_le _ _ _ _ _ FB).
  lia.
Qed.

(* ---- the ancestors *)
Lemma moov_in : In moov (mp4_flat atoms).
Proof. apply in_flat_self. rewrite Eatoms. apply in_or_app. right; left; reflexivity. Qed.
Lemma udta_in : In udta (mp4_flat atoms).
Proof.
  eapply in_flat_kids; [|exact Kmoov|].
  - rewrite Eatoms. apply in_or_app. right; left; reflexivity.
  - apply in_flat_self. apply in_or_app. right; left; reflexivity.
Qed.
Lemma kids_flat_in a ks x : In a (mp4_flat atoms) -> ma_kids a = Some ks -> In x (mp4_flat ks) -> In x (mp4_flat atoms).
Proof.
  intros Ha Hk Hx. unfold mp4_flat in Ha. apply in_flat_map in Ha. destruct Ha as (t & Ht & Ha).
  unfold mp4_flat. apply in_flat_map. exists t. split; [exact Ht|].
  clear Ht. revert a ks x Ha Hk Hx. induction t as [n o l h|n o l h ks0 IH] using mp4_atom_ind'; intros a ks x Ha Hk Hx.
  - rewrite flat_atom_leaf in Ha. destruct Ha as [<-|[]]. discriminate.
  - rewrite flat_atom_node in *. destruct Ha as [<-|Ha].
    + cbn in Hk. inversion Hk; subst. right. exact Hx.
    + right. unfold mp4_flat in Ha. apply in_flat_map in Ha. destruct Ha as (c & Hc & Ha).
      unfold mp4_flat. apply in_flat_map. exists c. split; [exact Hc|].
      rewrite Forall_forall in IH. eapply IH; eassumption.
Qed.
Lemma meta_in : In meta (mp4_flat atoms).
Proof.
  eapply kids_flat_in; [exact udta_in|exact Kudta|]. apply in_flat_self. apply in_or_app. right; left; reflexivity.
Qed.

Definition ancestors : list mp4_atom := [moov; udta; meta].
Lemma ancestors_ok : Forall (anc_ok f atoms off) ancestors.
Proof.
  pose proof positions as P. pose proof (skip_nonneg (ma_name udta)). pose proof (skip_nonneg (ma_name meta)).
  destruct moov_split as (_ & Hu & _). destruct udta_split as (_ & Hm & _).
  pose proof (atom_ok_len _ _ _ Hu). pose proof (atom_ok_len _ _ _ Hm).
  unfold ancestors, anc_ok. repeat constructor; eauto using moov_in, udta_in, meta_in; lia.
Qed.
Lemma ancestors_nodup : NoDup ancestors.
Proof.
  unfold ancestors. repeat constructor; cbn; intros C; repeat (destruct C as [C|C]; try contradiction);
    try (rewrite C in Nmoov; rewrite Nmoov in *; discriminate);
    try (rewrite C in Nudta; rewrite Nudta in *; discriminate);
    try (rewrite <- C in Nudta; rewrite Nudta in *; discriminate);
    try (rewrite <- C in Nmeta; rewrite Nmeta in *; discriminate).
Qed.

(* ---- where the tables are *)
Lemma placed_before top l p e x : mp4_forest_ok f top l p e = true -> e <= off -> In x (mp4_flat l) -> placed off old x.
Proof.
  intros Hf He Hx. pose proof (forest_within _ _ _ _ _ Hf) as W. rewrite Forall_forall in W. specialize (W x Hx).
  unfold within in W. left. lia.
Qed.
Lemma placed_after top l p e x : mp4_forest_ok f top l p e = true -> off + old <= p -> In x (mp4_flat l) -> placed off old x.
Proof.
  intros Hf He Hx. pose proof (forest_within _ _ _ _ _ Hf) as W. rewrite Forall_forall in W. specialize (W x Hx).
  unfold within in W. pose proof old_pos. right. lia.
Qed.

Lemma free_flat p top : mp4_atom_ok f top p = true -> mp4_is_free p = true -> mp4_flat_atom p = [p].
Proof.
  intros Hok Hfr. unfold mp4_is_free in Hfr. apply list_eqb_spec in Hfr.
  destruct p as [n o l h [ks|]]; [|reflexivity]. destruct (atom_ok_kids _ _ _ _ Hok eq_refl) as (Hc & _).
  cbn in Hfr, Hc. subst n. discriminate.
Qed.

Lemma region_no_table x : In x (mp4_flat R) -> is_table_name x = false.
Proof.
  assert (Hil : forall y, In y (mp4_flat_atom ilst) -> is_table_name y = false).
  { intros y Hy. unfold ilst_clean in Hclean. rewrite forallb_forall in Hclean. specialize (Hclean y Hy).
    apply negb_true_iff in Hclean. exact Hclean. }
  assert (Hfr : forall p, mp4_atom_ok f false p = true -> mp4_is_free p = true -> forall y, In y (mp4_flat_atom p) -> is_table_name y = false).
  { intros p Hp Hf y Hy. rewrite (free_flat p false Hp Hf) in Hy. destruct Hy as [<-|[]].
    unfold mp4_is_free in Hf. apply list_eqb_spec in Hf. unfold is_table_name, mp4_named. rewrite Hf. reflexivity. }
  inversion HR; subst R; unfold mp4_flat; cbn [flat_map]; rewrite ?app_nil_r; intros Hx.
  - apply Hil; exact Hx.
  - apply forest_ok_cons in FR. destruct FR as (_ & E2 & _). apply in_app_or in Hx. destruct Hx as [Hx|Hx]; [eapply Hfr; eauto|apply Hil; exact Hx].
  - apply forest_ok_cons in FR. destruct FR as (_ & _ & E3). apply forest_ok_cons in E3. destruct E3 as (_ & E3 & _).
    apply in_app_or in Hx. destruct Hx as [Hx|Hx]; [apply Hil; exact Hx|eapply Hfr; eauto].
Qed.

Lemma table_placed x : In x (mp4_flat atoms) -> is_table_name x = true -> placed off old x.
Proof.
  intros Hx Hn. pose proof positions as P.
  destruct top_split as (H1 & H2 & H3). destruct moov_split as (H4 & H5 & H6). destruct udta_split as (H7 & H8 & H9).
  assert (Nx : ma_name x <> N_moov /\ ma_name x <> N_udta /\ ma_name x <> N_meta).
  { unfold is_table_name, mp4_named in Hn. repeat split; intros C; rewrite C in Hn; discriminate. }
  destruct Nx as (X1 & X2 & X3).
  rewrite Eatoms in Hx. apply flat_in_split in Hx.
  destruct Hx as [Hx|[->|[(ks & Hk & Hx)|Hx]]]; [eapply placed_before; eauto; lia|congruence| |eapply placed_after; eauto; lia].
  rewrite Kmoov in Hk. inversion Hk; subst ks. apply flat_in_split in Hx.
  destruct Hx as [Hx|[->|[(ks & Hk2 & Hx)|Hx]]]; [eapply placed_before; eauto; lia|congruence| |eapply placed_after; eauto; lia].
  rewrite Kudta in Hk2. inversion Hk2; subst ks. apply flat_in_split in Hx.
  destruct Hx as [Hx|[->|[(ks & Hk3 & Hx)|Hx]]]; [eapply placed_before; eauto; lia|congruence| |eapply placed_after; eauto; lia].
  rewrite Kmeta in Hk3. inversion Hk3; subst ks. rewrite !flat_app in Hx.
  apply in_app_or in Hx. destruct Hx as [Hx|Hx]; [eapply placed_before; eauto; lia|].
  apply in_app_or in Hx. destruct Hx as [Hx|Hx]; [|eapply placed_after; eauto; lia].
  rewrite (region_no_table x Hx) in Hn. discriminate.
Qed.

Lemma tables_placed : Forall (placed off old) (mp4_stco_list atoms ++ mp4_co64_list atoms ++ mp4_tfhd_list atoms).
Proof.
  apply Forall_forall. intros x Hx. apply in_app_or in Hx. destruct Hx as [Hx|Hx]; [|apply in_app_or in Hx; destruct Hx as [Hx|Hx]].
  - destruct (stco_in atoms x Hx) as (H1 & H2). apply table_placed; [exact H1|]. unfold is_table_name, mp4_named. rewrite H2. reflexivity.
  - destruct (co64_in atoms x Hx) as (H1 & H2). apply table_placed; [exact H1|]. unfold is_table_name, mp4_named. rewrite H2. reflexivity.
  - destruct (tfhd_in atoms x Hx) as (H1 & H2). apply table_placed; [exact H1|]. unfold is_table_name, mp4_named. rewrite H2. reflexivity.
Qed.

Lemma region_fits : 0 <= off /\ 0 <= old /\ off + old <= zlen f.
Proof.
  pose proof positions. pose proof old_pos. pose proof (skip_nonneg (ma_name moov)). pose proof (skip_nonneg (ma_name udta)).
  pose proof (skip_nonneg (ma_name meta)).
  destruct top_split as (_ & Hm & _). destruct moov_split as (_ & Hu & _). destruct udta_split as (_ & He & _).
  pose proof (atom_ok_len _ _ _ Hm). pose proof (atom_ok_len _ _ _ Hu). pose proof (atom_ok_len _ _ _ He). lia.
Qed.

(* ---- the surgery result, instantiated *)
Variables (data f2 f' : list Z).
Hypothesis Hrun1 : mp4_update_parents (zlen data - old) (splice f off old data) (map ma_off ancestors) = Ok f2.
Hypothesis Hrun2 : mp4_update_offsets atoms (zlen data - old) off f2 = Ok f'.

Definition ex_result :=
  surgery_result f atoms Hwf Htab off old data (proj1 region_fits) (proj1 (proj2 region_fits)) (proj2 (proj2 region_fits))
    tables_placed ancestors ancestors_ok ancestors_nodup f2 f' Hrun1 Hrun2.
End Existing.
