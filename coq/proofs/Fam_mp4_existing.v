(* __save_existing on a well-formed file: the decomposition of the tree around moov.udta.meta.ilst, the hypotheses of
   the abstract surgery (ancestors, placement of the offset tables) derived from the strict rules, and the result. *)
From Coq Require Import ZArith List Bool Lia.
Import ListNotations.
Require Import Base.Py Base.ZList Model.Splice Model.Fam_mp4 Proofs.Splice_lemmas
  Proofs.Fam_mp4_bytes Proofs.Fam_mp4_tree Proofs.Fam_mp4_steps Proofs.Fam_mp4_agree Proofs.Fam_mp4_path
  Proofs.Fam_mp4_lists Proofs.Fam_mp4_surgery Proofs.Fam_mp4_shift Proofs.Fam_mp4_parse.
Open Scope Z_scope.

Lemma flat_in_split l1 a l2 x : In x (mp4_flat (l1 ++ a :: l2)) ->
  In x (mp4_flat l1) \/ x = a \/ (exists ks, ma_kids a = Some ks /\ In x (mp4_flat ks)) \/ In x (mp4_flat l2).
Proof.
  rewrite flat_app, flat_cons. intros H. apply in_app_or in H. destruct H as [H|H]; [left; exact H|].
  apply in_app_or in H. destruct H as [H|H]; [|right; right; right; exact H].
  destruct a as [n o l h [ks|]].
  - rewrite flat_atom_node in H. destruct H as [<-|H]; [right; left; reflexivity|].
    right; right; left. exists ks. split; [reflexivity|exact H].
  - rewrite flat_atom_leaf in H. destruct H as [<-|[]]. right; left; reflexivity.
Qed.

(* no offset table hides among the ilst items (an item named stco/co64 would be taken for a table by findall) *)
Definition is_table_name (x : mp4_atom) : bool := mp4_named N_stco x || mp4_named N_co64 x || mp4_named N_tfhd x.
Definition ilst_clean (ilst : mp4_atom) : bool := forallb (fun x => negb (is_table_name x)) (mp4_flat_atom ilst).


(* ------------------------------------------------------------------ the table rules, atom by atom *)
Definition ok_at (g : list Z) (x : mp4_atom) : bool :=
  (if mp4_named N_stco x then mp4_table_ok g 4 x else true) &&
  (if mp4_named N_co64 x then mp4_table_ok g 8 x else true) &&
  (if mp4_named N_tfhd x then mp4_tfhd_ok g x else true) &&
  forallb (fun e : mp4_entry => snd e <=? zlen g) (mp4_atom_entries g x).

Lemma forallb_flat_map {A B} (p : B -> bool) (F : A -> list B) l :
  forallb p (flat_map F l) = forallb (fun a => forallb p (F a)) l.
Proof. induction l as [|a r IH]; [reflexivity|]. cbn [flat_map forallb]. rewrite forallb_app, IH. reflexivity. Qed.
Lemma forallb_andb {A} (p q : A -> bool) l : forallb (fun a => p a && q a) l = forallb p l && forallb q l.
Proof.
  induction l as [|a r IH]; [reflexivity|]. cbn [forallb]. rewrite IH.
  destruct (p a), (q a), (forallb p r), (forallb q r); reflexivity.
Qed.
Lemma wf_tables_split g ks : mp4_tables_ok g ks && mp4_entries_in_file g ks = forallb (ok_at g) (mp4_flat ks).
Proof.
  unfold mp4_tables_ok, mp4_entries_in_file, mp4_all_entries, ok_at. rewrite forallb_flat_map.
  rewrite <- forallb_andb. reflexivity.
Qed.

Lemma ok_at_nontable g x : is_table_name x = false -> ok_at g x = true.
Proof.
  unfold is_table_name, ok_at, mp4_atom_entries. intros H.
  apply orb_false_iff in H. destruct H as [H H3]. apply orb_false_iff in H. destruct H as [H1 H2].
  rewrite H1, H2, H3. reflexivity.
Qed.

Lemma forallb_numbered (w o L : Z) l : forall i,
  forallb (fun e : mp4_entry => snd e <=? L) (map (fun ix : Z * Z => (w, o, fst ix, snd ix)) (mp4_number i l)) =
  forallb (fun v => v <=? L) l.
Proof. induction l as [|x r IH]; intros i; [reflexivity|]. cbn [mp4_number map forallb snd]. rewrite IH. reflexivity. Qed.

Lemma shift_is_table d x : is_table_name (shift_atom d x) = is_table_name x.
Proof. unfold is_table_name, mp4_named. rewrite shift_name. reflexivity. Qed.

Section Existing.
Variables (f : list Z) (atoms : list mp4_atom).
Hypothesis Hwf : mp4_forest_ok f true atoms 0 (zlen f) = true.
Hypothesis Htab : mp4_tables_ok f atoms = true.
Variables (moov udta meta ilst : mp4_atom) (T1 T2 M1 M2 U1 U2 A R B : list mp4_atom) (off old : Z).
Hypothesis Eatoms : atoms = T1 ++ moov :: T2.
Hypothesis Kmoov : ma_kids moov = Some (M1 ++ udta :: M2).
Hypothesis Kudta : ma_kids udta = Some (U1 ++ meta :: U2).
Hypothesis Kmeta : ma_kids meta = Some (A ++ R ++ B).
Hypothesis Nmoov : ma_name moov = N_moov.
Hypothesis Nudta : ma_name udta = N_udta.
Hypothesis Nmeta : ma_name meta = N_meta.
Hypothesis Nilst : ma_name ilst = N_ilst.
Hypothesis HR : region_shape ilst R.
Hypothesis FA : mp4_forest_ok f false A (ma_off meta + ma_hdr meta + mp4_skip (ma_name meta)) off = true.
Hypothesis FR : mp4_forest_ok f false R off (off + old) = true.
Hypothesis FB : mp4_forest_ok f false B (off + old) (ma_off meta + ma_len meta) = true.
Hypothesis Hclean : ilst_clean ilst = true.

(* ---- the chain of positions *)
Lemma top_split : mp4_forest_ok f true T1 0 (ma_off moov) = true /\ mp4_atom_ok f true moov = true /\
                  mp4_forest_ok f true T2 (ma_off moov + ma_len moov) (zlen f) = true.
Proof. rewrite Eatoms in Hwf. apply forest_ok_split in Hwf. exact Hwf. Qed.
Lemma moov_split : mp4_forest_ok f false M1 (ma_off moov + ma_hdr moov + mp4_skip (ma_name moov)) (ma_off udta) = true /\
                   mp4_atom_ok f false udta = true /\
                   mp4_forest_ok f false M2 (ma_off udta + ma_len udta) (ma_off moov + ma_len moov) = true.
Proof.
  destruct top_split as (_ & Hm & _). destruct (atom_ok_kids _ _ _ _ Hm Kmoov) as (_ & Hk).
  apply forest_ok_split in Hk. exact Hk.
Qed.
Lemma udta_split : mp4_forest_ok f false U1 (ma_off udta + ma_hdr udta + mp4_skip (ma_name udta)) (ma_off meta) = true /\
                   mp4_atom_ok f false meta = true /\
                   mp4_forest_ok f false U2 (ma_off meta + ma_len meta) (ma_off udta + ma_len udta) = true.
Proof.
  destruct moov_split as (_ & Hu & _). destruct (atom_ok_kids _ _ _ _ Hu Kudta) as (_ & Hk).
  apply forest_ok_split in Hk. exact Hk.
Qed.

Lemma old_pos : 8 <= old.
Proof.
  inversion HR; subst R.
  - apply forest_ok_cons in FR. destruct FR as (E1 & E2 & E3). apply forest_ok_nil in E3. apply atom_ok_len in E2. lia.
  - apply forest_ok_cons in FR. destruct FR as (E1 & E2 & E3). apply forest_ok_le in E3. apply atom_ok_len in E2. lia.
  - apply forest_ok_cons in FR. destruct FR as (E1 & E2 & E3). apply forest_ok_le in E3. apply atom_ok_len in E2. lia.
Qed.

Lemma positions :
  0 <= ma_off moov /\ ma_off moov + ma_hdr moov + mp4_skip (ma_name moov) <= ma_off udta /\
  ma_off udta + ma_hdr udta + mp4_skip (ma_name udta) <= ma_off meta /\
  ma_off meta + ma_hdr meta + mp4_skip (ma_name meta) <= off /\
  off + old <= ma_off meta + ma_len meta /\ ma_off meta + ma_len meta <= ma_off udta + ma_len udta /\
  ma_off udta + ma_len udta <= ma_off moov + ma_len moov /\ ma_off moov + ma_len moov <= zlen f.
Proof.
  destruct top_split as (H1 & H2 & H3). destruct moov_split as (H4 & H5 & H6). destruct udta_split as (H7 & H8 & H9).
  apply forest_ok_le in H1, H3, H4, H6, H7, H9. pose proof (forest_ok_le _ _ _ _ _ FA). pose proof (forest_ok_le _ _ _ _ _ FB).
  lia.
Qed.

Lemma anc_pos : ma_off moov <= ma_off udta /\ ma_off udta <= ma_off meta /\ ma_off meta <= off /\
                 ma_off moov < zlen f.
Proof.
  pose proof positions. pose proof (skip_nonneg (ma_name moov)). pose proof (skip_nonneg (ma_name udta)).
  pose proof (skip_nonneg (ma_name meta)).
  destruct top_split as (_ & Hm & _). destruct moov_split as (_ & Hu & _). destruct udta_split as (_ & He & _).
  pose proof (atom_ok_len _ _ _ Hm). pose proof (atom_ok_len _ _ _ Hu). pose proof (atom_ok_len _ _ _ He). lia.
Qed.

(* ---- the ancestors *)
Lemma moov_in : In moov (mp4_flat atoms).
Proof. apply in_flat_self. rewrite Eatoms. apply in_or_app. right; left; reflexivity. Qed.
Lemma udta_in : In udta (mp4_flat atoms).
Proof.
  eapply in_flat_kids; [|exact Kmoov|].
  - rewrite Eatoms. apply in_or_app. right; left; reflexivity.
  - apply in_flat_self. apply in_or_app. right; left; reflexivity.
Qed.
Lemma kids_flat_in a ks x : In a (mp4_flat atoms) -> ma_kids a = Some ks -> In x (mp4_flat ks) -> In x (mp4_flat atoms).
Proof.
  intros Ha Hk Hx. unfold mp4_flat in Ha. apply in_flat_map in Ha. destruct Ha as (t & Ht & Ha).
  unfold mp4_flat. apply in_flat_map. exists t. split; [exact Ht|].
  clear Ht. revert a ks x Ha Hk Hx. induction t as [n o l h|n o l h ks0 IH] using mp4_atom_ind'; intros a ks x Ha Hk Hx.
  - rewrite flat_atom_leaf in Ha. destruct Ha as [<-|[]]. discriminate.
  - rewrite flat_atom_node in *. destruct Ha as [<-|Ha].
    + cbn in Hk. inversion Hk; subst. right. exact Hx.
    + right. unfold mp4_flat in Ha. apply in_flat_map in Ha. destruct Ha as (c & Hc & Ha).
      unfold mp4_flat. apply in_flat_map. exists c. split; [exact Hc|].
      rewrite Forall_forall in IH. eapply IH; eassumption.
Qed.
Lemma meta_in : In meta (mp4_flat atoms).
Proof.
  eapply kids_flat_in; [exact udta_in|exact Kudta|]. apply in_flat_self. apply in_or_app. right; left; reflexivity.
Qed.

Definition ancestors : list mp4_atom := [moov; udta; meta].
Lemma ancestors_ok : Forall (anc_ok atoms off) ancestors.
Proof.
  pose proof positions as P. pose proof (skip_nonneg (ma_name udta)). pose proof (skip_nonneg (ma_name meta)).
  destruct moov_split as (_ & Hu & _). destruct udta_split as (_ & Hm & _).
  pose proof (atom_ok_len _ _ _ Hu). pose proof (atom_ok_len _ _ _ Hm).
  unfold ancestors, anc_ok. repeat constructor; eauto using moov_in, udta_in, meta_in; lia.
Qed.
Lemma ancestors_nodup : NoDup ancestors.
Proof.
  assert (D1 : moov <> udta) by (intros C; rewrite C in Nmoov; rewrite Nmoov in Nudta; discriminate).
  assert (D2 : moov <> meta) by (intros C; rewrite C in Nmoov; rewrite Nmoov in Nmeta; discriminate).
  assert (D3 : udta <> meta) by (intros C; rewrite C in Nudta; rewrite Nudta in Nmeta; discriminate).
  unfold ancestors. constructor; [cbn; intuition congruence|]. constructor; [cbn; intuition congruence|].
  constructor; [cbn; tauto|constructor].
Qed.

(* ---- where the tables are *)
Lemma placed_before top l p e x : mp4_forest_ok f top l p e = true -> e <= off -> In x (mp4_flat l) -> placed off old off x.
Proof.
  intros Hf He Hx. pose proof (forest_within _ _ _ _ _ Hf) as W. rewrite Forall_forall in W. specialize (W x Hx).
  unfold within in W. left. lia.
Qed.
Lemma placed_after top l p e x : mp4_forest_ok f top l p e = true -> off + old <= p -> In x (mp4_flat l) -> placed off old off x.
Proof.
  intros Hf He Hx. pose proof (forest_within _ _ _ _ _ Hf) as W. rewrite Forall_forall in W. specialize (W x Hx).
  unfold within in W. pose proof old_pos. right. lia.
Qed.

Lemma free_flat p top : mp4_atom_ok f top p = true -> mp4_is_free p = true -> mp4_flat_atom p = [p].
Proof.
  intros Hok Hfr. unfold mp4_is_free in Hfr. apply list_eqb_spec in Hfr.
  destruct p as [n o l h [ks|]]; [|reflexivity]. destruct (atom_ok_kids _ _ _ _ Hok eq_refl) as (Hc & _).
  cbn in Hfr, Hc. subst n. discriminate.
Qed.

Lemma region_no_table x : In x (mp4_flat R) -> is_table_name x = false.
Proof.
  assert (Hil : forall y, In y (mp4_flat_atom ilst) -> is_table_name y = false).
  { intros y Hy. unfold ilst_clean in Hclean. rewrite forallb_forall in Hclean. specialize (Hclean y Hy).
    apply negb_true_iff in Hclean. exact Hclean. }
  assert (Hfr : forall p, mp4_atom_ok f false p = true -> mp4_is_free p = true -> forall y, In y (mp4_flat_atom p) -> is_table_name y = false).
  { intros p Hp Hf y Hy. rewrite (free_flat p false Hp Hf) in Hy. destruct Hy as [<-|[]].
    unfold mp4_is_free in Hf. apply list_eqb_spec in Hf. unfold is_table_name, mp4_named. rewrite Hf. reflexivity. }
  inversion HR; subst R; unfold mp4_flat; cbn [flat_map]; rewrite ?app_nil_r; intros Hx.
  - apply Hil; exact Hx.
  - apply forest_ok_cons in FR. destruct FR as (_ & E2 & _). apply in_app_or in Hx. destruct Hx as [Hx|Hx]; [eapply Hfr; eauto|apply Hil; exact Hx].
  - apply forest_ok_cons in FR. destruct FR as (_ & _ & E3). apply forest_ok_cons in E3. destruct E3 as (_ & E3 & _).
    apply in_app_or in Hx. destruct Hx as [Hx|Hx]; [apply Hil; exact Hx|eapply Hfr; eauto].
Qed.

Lemma table_placed x : In x (mp4_flat atoms) -> is_table_name x = true -> placed off old off x.
Proof.
  intros Hx Hn. pose proof positions as P.
  destruct top_split as (H1 & H2 & H3). destruct moov_split as (H4 & H5 & H6). destruct udta_split as (H7 & H8 & H9).
  assert (Nx : ma_name x <> N_moov /\ ma_name x <> N_udta /\ ma_name x <> N_meta).
  { unfold is_table_name, mp4_named in Hn. repeat split; intros C; rewrite C in Hn; discriminate. }
  destruct Nx as (X1 & X2 & X3).
  pose proof (atom_ok_len _ _ _ H2) as L1. pose proof (atom_ok_len _ _ _ H5) as L2. pose proof (atom_ok_len _ _ _ H8) as L3.
  pose proof (skip_nonneg (ma_name moov)) as S1. pose proof (skip_nonneg (ma_name udta)) as S2. pose proof (skip_nonneg (ma_name meta)) as S3.
  rewrite Eatoms in Hx. apply flat_in_split in Hx.
  destruct Hx as [Hx|[->|[(ks & Hk & Hx)|Hx]]];
    [apply (placed_before _ _ _ _ _ H1); [lia|exact Hx]|congruence| |apply (placed_after _ _ _ _ _ H3); [lia|exact Hx]].
  rewrite Kmoov in Hk. inversion Hk; subst ks. apply flat_in_split in Hx.
  destruct Hx as [Hx|[->|[(ks & Hk2 & Hx)|Hx]]];
    [apply (placed_before _ _ _ _ _ H4); [lia|exact Hx]|congruence| |apply (placed_after _ _ _ _ _ H6); [lia|exact Hx]].
  rewrite Kudta in Hk2. inversion Hk2; subst ks. apply flat_in_split in Hx.
  destruct Hx as [Hx|[->|[(ks & Hk3 & Hx)|Hx]]];
    [apply (placed_before _ _ _ _ _ H7); [lia|exact Hx]|congruence| |apply (placed_after _ _ _ _ _ H9); [lia|exact Hx]].
  rewrite Kmeta in Hk3. inversion Hk3; subst ks. rewrite !flat_app in Hx.
  apply in_app_or in Hx. destruct Hx as [Hx|Hx]; [apply (placed_before _ _ _ _ _ FA); [lia|exact Hx]|].
  apply in_app_or in Hx. destruct Hx as [Hx|Hx]; [|apply (placed_after _ _ _ _ _ FB); [lia|exact Hx]].
  rewrite (region_no_table x Hx) in Hn. discriminate.
Qed.

Lemma tables_placed : Forall (placed off old off) (mp4_stco_list atoms ++ mp4_co64_list atoms ++ mp4_tfhd_list atoms).
Proof.
  apply Forall_forall. intros x Hx. apply in_app_or in Hx. destruct Hx as [Hx|Hx]; [|apply in_app_or in Hx; destruct Hx as [Hx|Hx]].
  - destruct (stco_in atoms x Hx) as (H1 & H2). apply table_placed; [exact H1|]. unfold is_table_name, mp4_named. rewrite H2. reflexivity.
  - destruct (co64_in atoms x Hx) as (H1 & H2). apply table_placed; [exact H1|]. unfold is_table_name, mp4_named. rewrite H2. reflexivity.
  - destruct (tfhd_in atoms x Hx) as (H1 & H2). apply table_placed; [exact H1|]. unfold is_table_name, mp4_named. rewrite H2. reflexivity.
Qed.

Lemma region_fits : 0 <= off /\ 0 <= old /\ off + old <= zlen f.
Proof.
  pose proof positions. pose proof old_pos. pose proof (skip_nonneg (ma_name moov)). pose proof (skip_nonneg (ma_name udta)).
  pose proof (skip_nonneg (ma_name meta)).
  destruct top_split as (_ & Hm & _). destruct moov_split as (_ & Hu & _). destruct udta_split as (_ & He & _).
  pose proof (atom_ok_len _ _ _ Hm). pose proof (atom_ok_len _ _ _ Hu). pose proof (atom_ok_len _ _ _ He). lia.
Qed.

(* ---- the surgery result, instantiated *)
Variables (data f2 f' : list Z).
Hypothesis Hrun1 : mp4_update_parents (zlen data - old) (splice f off old data) (map ma_off ancestors) = Ok f2.
Hypothesis Hrun2 : mp4_update_offsets atoms (zlen data - old) off f2 = Ok f'.

Definition ex_result :=
  surgery_result f atoms Hwf Htab off old data (proj1 region_fits) (proj1 (proj2 region_fits)) (proj2 (proj2 region_fits))
    off ltac:(lia) tables_placed ancestors ancestors_ok ancestors_nodup f2 f' Hrun1 Hrun2.

(* ================================================================== the tree of the result *)
Let delta := zlen data - old.

Lemma member_of_part l x : (forall y, In y l -> In y (mp4_flat atoms)) -> In x l -> In x (mp4_flat atoms).
Proof. auto. Qed.

Lemma T1_in x : In x (mp4_flat T1) -> In x (mp4_flat atoms).
Proof. intros H. rewrite Eatoms, flat_app. apply in_or_app. left; exact H. Qed.
Lemma T2_in x : In x (mp4_flat T2) -> In x (mp4_flat atoms).
Proof. intros H. rewrite Eatoms, flat_app, flat_cons. apply in_or_app. right. apply in_or_app. right; exact H. Qed.
Lemma M1_in x : In x (mp4_flat M1) -> In x (mp4_flat atoms).
Proof. intros H. eapply kids_flat_in; [exact moov_in|exact Kmoov|]. rewrite flat_app. apply in_or_app. left; exact H. Qed.
Lemma M2_in x : In x (mp4_flat M2) -> In x (mp4_flat atoms).
Proof. intros H. eapply kids_flat_in; [exact moov_in|exact Kmoov|]. rewrite flat_app, flat_cons. apply in_or_app. right. apply in_or_app. right; exact H. Qed.
Lemma U1_in x : In x (mp4_flat U1) -> In x (mp4_flat atoms).
Proof. intros H. eapply kids_flat_in; [exact udta_in|exact Kudta|]. rewrite flat_app. apply in_or_app. left; exact H. Qed.
Lemma U2_in x : In x (mp4_flat U2) -> In x (mp4_flat atoms).
Proof. intros H. eapply kids_flat_in; [exact udta_in|exact Kudta|]. rewrite flat_app, flat_cons. apply in_or_app. right. apply in_or_app. right; exact H. Qed.
Lemma A_in x : In x (mp4_flat A) -> In x (mp4_flat atoms).
Proof. intros H. eapply kids_flat_in; [exact meta_in|exact Kmeta|]. rewrite flat_app. apply in_or_app. left; exact H. Qed.
Lemma B_in x : In x (mp4_flat B) -> In x (mp4_flat atoms).
Proof. intros H. eapply kids_flat_in; [exact meta_in|exact Kmeta|]. rewrite !flat_app. apply in_or_app. right. apply in_or_app. right; exact H. Qed.

(* the header of any atom other than the three ancestors avoids every patch site *)
Lemma header_clear x : In x (mp4_flat atoms) -> ~ In x ancestors ->
  (forall An, In An ancestors -> clear_of (ma_off x) (ma_hdr x) (ma_off An) (ma_off An + ma_hdr An)) /\
  (forall T, In T (all_tabs atoms) -> clear_of (ma_off x) (ma_hdr x) (ma_off T + 16) (ma_off T + ma_len T)).
Proof.
  intros Hx Hn. destruct (flat_member_ok f atoms Hwf x Hx) as (top & Hok). pose proof (atom_ok_len _ _ _ Hok) as Lx.
  pose proof (skip_nonneg (ma_name x)) as Sx.
  assert (Hseg : s_lo (seg_of x) = ma_off x /\ ma_off x + ma_hdr x <= s_hi (seg_of x)).
  { unfold seg_of, s_lo, s_hi. destruct (ma_kids x); cbn; lia. }
  split.
  - intros An HA. pose proof ancestors_ok as AO. rewrite Forall_forall in AO. destruct (AO An HA) as (HAin & (k & HAk) & _).
    destruct (segs_disjoint _ _ _ _ _ x An Hwf Hx HAin) as [E|D]; [subst; contradiction|].
    pose proof (skip_nonneg (ma_name An)).
    assert (HsA : s_lo (seg_of An) = ma_off An /\ s_hi (seg_of An) = ma_off An + ma_hdr An + mp4_skip (ma_name An))
      by (unfold seg_of, s_lo, s_hi; rewrite HAk; split; reflexivity).
    unfold clear_of. lia.
  - intros T HT. pose proof (member_facts f atoms Hwf off old data off tables_placed T HT) as (HTin & _ & _ & _ & LT & KT).
    destruct (segs_disjoint _ _ _ _ _ x T Hwf Hx HTin) as [E|D].
    + subst. unfold clear_of. lia.
    + assert (HsT : s_lo (seg_of T) = ma_off T /\ s_hi (seg_of T) = ma_off T + ma_len T)
        by (unfold seg_of, s_lo, s_hi; rewrite KT; split; reflexivity).
      unfold clear_of. lia.
Qed.

Lemma not_anc_by_pos x : (ma_off x + ma_len x <= off \/ off + old <= ma_off x) -> 8 <= ma_len x -> ~ In x ancestors.
Proof.
  intros Hp Hl Hin. pose proof positions as P. pose proof old_pos.
  destruct top_split as (_ & Hm & _). destruct moov_split as (_ & Hu & _). destruct udta_split as (_ & He & _).
  pose proof (atom_ok_len _ _ _ Hm). pose proof (atom_ok_len _ _ _ Hu). pose proof (atom_ok_len _ _ _ He).
  pose proof (skip_nonneg (ma_name moov)). pose proof (skip_nonneg (ma_name udta)). pose proof (skip_nonneg (ma_name meta)).
  unfold ancestors in Hin. cbn in Hin. destruct Hin as [<-|[<-|[<-|[]]]]; lia.
Qed.

Definition fres := ex_result.

Lemma before_hdr top l p e : mp4_forest_ok f top l p e = true -> e <= off -> (forall y, In y (mp4_flat l) -> In y (mp4_flat atoms)) ->
  Forall (hdr_agree f f' 0) (mp4_flat l).
Proof.
  intros Hf He Hin. apply Forall_forall. intros x Hx. pose proof (Hin x Hx) as Hxa.
  pose proof (forest_within _ _ _ _ _ Hf) as W. rewrite Forall_forall in W. specialize (W x Hx). unfold within in W.
  destruct (flat_member_ok f atoms Hwf x Hxa) as (top' & Hok). pose proof (atom_ok_len _ _ _ Hok) as Lx.
  destruct (header_clear x Hxa) as (C1 & C2). { apply not_anc_by_pos; lia. }
  destruct fres as (_ & Fr & _). unfold hdr_agree. rewrite Z.add_0_r.
  pose proof (Fr (ma_off x) (ma_hdr x)) as X. unfold mv in X.
  destruct (off + old <=? ma_off x) eqn:E; [pose proof old_pos; lia|]. apply X; try lia; auto. unfold clear_of. lia.
Qed.
Lemma after_hdr top l p e : mp4_forest_ok f top l p e = true -> off + old <= p -> (forall y, In y (mp4_flat l) -> In y (mp4_flat atoms)) ->
  Forall (hdr_agree f f' delta) (mp4_flat l).
Proof.
  intros Hf He Hin. apply Forall_forall. intros x Hx. pose proof (Hin x Hx) as Hxa.
  pose proof (forest_within _ _ _ _ _ Hf) as W. rewrite Forall_forall in W. specialize (W x Hx). unfold within in W.
  destruct (flat_member_ok f atoms Hwf x Hxa) as (top' & Hok). pose proof (atom_ok_len _ _ _ Hok) as Lx.
  destruct (header_clear x Hxa) as (C1 & C2). { apply not_anc_by_pos; lia. }
  destruct fres as (_ & Fr & _). unfold hdr_agree.
  pose proof (Fr (ma_off x) (ma_hdr x)) as X. unfold mv in X.
  destruct (off + old <=? ma_off x) eqn:E; [|lia]. apply X; try lia; auto. unfold clear_of. lia.
Qed.

Lemma zlen_result : zlen f' = zlen f + delta.
Proof. destruct fres as (Z & _). exact Z. Qed.

(* an ancestor's header in the result carries its length + delta *)
Lemma anc_header_result top An : In An ancestors -> mp4_atom_ok f top An = true ->
  (top = true -> ma_off An + ma_len An = zlen f \/ be_decode (mp4_rd f (ma_off An) 4) <> 0) ->
  mp4_header_ok f' top (ma_name An) (ma_off An) (ma_len An + delta) (ma_hdr An) = true.
Proof.
  intros HA Hok Htop. pose proof ancestors_ok as AO. rewrite Forall_forall in AO. pose proof (AO An HA) as HA'.
  destruct fres as (_ & _ & _ & UA & _). specialize (UA An HA). destruct UA as (U1n & U0 & U64 & U32).
  pose proof (anc_header f atoms Hwf off old data An HA') as (F0 & Fh & Fo & F8 & Fn & F64 & F32 & Fz).
  pose proof (atom_ok_header _ _ _ Hok) as Hh. pose proof (header_ok_facts _ _ _ _ _ _ Hh) as (G1 & G2 & G3 & G4 & G5 & G6 & G7).
  pose proof zlen_result as ZR. pose proof positions as P. pose proof old_pos as OP. pose proof (zlen_nonneg data) as DN.
  pose proof (skip_nonneg (ma_name An)) as SA. destruct HA' as (_ & _ & HApos).
  assert (Hcontains : off + old <= ma_off An + ma_len An).
  { destruct top_split as (_ & Hm & _). destruct moov_split as (_ & Hu & _). destruct udta_split as (_ & He & _).
    unfold ancestors in HA. cbn in HA. destruct HA as [<-|[<-|[<-|[]]]]; lia. }
  fold delta in U64, U32. assert (Hd : delta = zlen data - old) by reflexivity.
  (* the 8 header bytes of the result *)
  assert (R4 : zlen (mp4_rd f' (ma_off An) 8) = 8) by (apply zlen_rd_in; lia).
  assert (R8 : mp4_rd f' (ma_off An) 8 = mp4_rd f' (ma_off An) 4 ++ mp4_rd f' (ma_off An + 4) 4).
  { replace 8 with (4 + 4) at 1 by lia. apply rd_app_split; lia. }
  unfold mp4_header_ok. rewrite R4. cbn [Z.eqb Pos.eqb].
  assert (K1 : (0 <=? ma_off An) = true) by (apply Z.leb_le; lia). rewrite K1.
  assert (K2 : (ma_off An + (ma_len An + delta) <=? zlen f') = true) by (apply Z.leb_le; lia). rewrite K2.
  rewrite R8. rewrite ztake_app_n by (apply zlen_rd_in; lia). rewrite zdrop_app_n by (apply zlen_rd_in; lia).
  rewrite U1n, Fn. assert (K3 : list_eqb (ma_name An) (ma_name An) = true) by (apply list_eqb_spec; reflexivity). rewrite K3.
  cbn [andb].
  destruct (Z.eq_dec (be_decode (mp4_rd f (ma_off An) 4)) 0) as [Z0|N0].
  - (* size 0: only at top level, runs to the end of the file *)
    assert (Htp : top = true /\ ma_len An = zlen f - ma_off An).
    { unfold mp4_header_ok in Hh. rewrite ztake_rd in Hh by lia. rewrite Z0 in Hh.
      apply andb_true_iff in Hh. destruct Hh as [_ HE]. destruct top; [split; [reflexivity|]|lia]. lia. }
    destruct Htp as (-> & Hlen). rewrite (U0 Z0), Z0. rewrite (Fz Z0). cbn [Z.eqb andb orb].
    assert (K4 : (ma_len An + delta =? zlen f' - ma_off An) = true) by (apply Z.eqb_eq; lia). rewrite K4.
    rewrite !orb_true_r. reflexivity.
  - destruct (Z.eq_dec (be_decode (mp4_rd f (ma_off An) 4)) 1) as [Z1|N1].
    + destruct (F64 Z1) as (Hh16 & _). destruct (U64 Z1) as (V1 & V2). rewrite V1, Z1, Hh16. cbn [Z.eqb Pos.eqb andb orb].
      rewrite zlen_rd_in by lia. rewrite V2. rewrite Z.eqb_refl. cbn [Z.eqb Pos.eqb andb].
      assert (K4 : (16 <=? ma_len An + delta) = true) by (apply Z.leb_le; lia). rewrite K4.
      rewrite Z.eqb_refl. reflexivity.
    + destruct (F32 N0 N1) as (Hh8 & _). rewrite (U32 N0 N1), Hh8. cbn [Z.eqb Pos.eqb andb]. rewrite Z.eqb_refl.
      assert (K4 : (8 <=? ma_len An + delta) = true) by (apply Z.leb_le; lia). rewrite K4. reflexivity.
Qed.

Variables (ilst_data : list Z) (pad : Z) (it : mp4_atom).
Hypothesis Hdata : data = ilst_data ++ mp4_render N_free (zeros pad).
Hypothesis Hpad : pad <= MP4_MAXPAD.
Hypothesis Hit : mp4_forest_ok ilst_data false [it] 0 (zlen ilst_data) = true.

Let fr := mp4_render N_free (zeros pad).
Definition new_ilst : mp4_atom := shift_atom off it.
Definition new_free : mp4_atom :=
  MAtom N_free (off + zlen ilst_data) (zlen fr) (if zlen (zeros pad) + 8 <=? 4294967295 then 8 else 16) None.
Definition new_meta : mp4_atom :=
  MAtom (ma_name meta) (ma_off meta) (ma_len meta + delta) (ma_hdr meta) (Some (A ++ [new_ilst; new_free] ++ shift_forest delta B)).
Definition new_udta : mp4_atom :=
  MAtom (ma_name udta) (ma_off udta) (ma_len udta + delta) (ma_hdr udta) (Some (U1 ++ new_meta :: shift_forest delta U2)).
Definition new_moov : mp4_atom :=
  MAtom (ma_name moov) (ma_off moov) (ma_len moov + delta) (ma_hdr moov) (Some (M1 ++ new_udta :: shift_forest delta M2)).
Definition new_atoms : list mp4_atom := T1 ++ new_moov :: shift_forest delta T2.

Lemma zlen_zeros_any n : zlen (zeros n) = Z.max 0 n.
Proof. destruct (Z.le_gt_cases 0 n); [rewrite zlen_zeros by lia; lia|rewrite zeros_neg by lia; cbn; lia]. Qed.

Lemma region_new : mp4_forest_ok f' false [new_ilst; new_free] off (off + zlen data) = true.
Proof.
  destruct fres as (_ & _ & AGD & _). pose proof (zlen_nonneg ilst_data) as Hi0. pose proof region_fits as (R0 & R1 & R2).
  assert (Hfr : zlen data = zlen ilst_data + zlen fr) by (rewrite Hdata, zlen_app; reflexivity).
  assert (Hfrn : zlen N_free = 4) by reflexivity. pose proof (zlen_nonneg fr) as Hfr0.
  pose proof (zlen_render N_free (zeros pad) Hfrn) as HL. fold fr in HL. pose proof (zlen_zeros_any pad) as HZ.
  (* the new ilst *)
  assert (H1 : mp4_forest_ok f' false (shift_forest off [it]) (0 + off) (zlen ilst_data + off) = true).
  { apply (forest_ok_transfer ilst_data f' off false [it] 0 (zlen ilst_data) Hit).
    - apply Forall_forall. intros x Hx. pose proof (forest_within _ _ _ _ _ Hit) as W. rewrite Forall_forall in W.
      specialize (W x Hx). unfold within in W.
      pose proof (forest_flat_ok _ _ _ _ _ Hit) as FO. rewrite Forall_forall in FO.
      assert (Lx : 8 <= ma_len x /\ ma_hdr x <= ma_len x /\ 0 <= ma_hdr x).
      { destruct (FO x Hx) as [E|E]; apply atom_ok_len in E; lia. }
      unfold hdr_agree. eapply agree_trans; [apply (agree_app_l ilst_data fr); lia|].
      replace (ilst_data ++ fr) with data by (rewrite Hdata; reflexivity).
      pose proof (agree_sub _ _ _ _ _ (ma_off x) (ma_hdr x) AGD) as X. cbn [Z.add] in X.
      replace (ma_off x + off) with (off + ma_off x) by lia. apply X; lia.
    - destruct AGD as (_ & _ & _ & X & _). lia.
    - discriminate. }
  cbn [shift_forest map] in H1. apply forest_ok_cons in H1. destruct H1 as (E1 & E2 & E3). apply forest_ok_nil in E3.
  apply forest_ok_intro; [unfold new_ilst; lia|exact E2|].
  apply forest_ok_intro.
  - unfold new_free. cbn [ma_off]. unfold new_ilst. lia.
  - unfold new_free, fr. apply render_leaf_ok; [reflexivity|reflexivity|unfold MP4_U64, MP4_MAXPAD in *; lia|].
    fold fr. pose proof (agree_app_r ilst_data fr) as X. replace (ilst_data ++ fr) with data in X by (rewrite Hdata; reflexivity).
    eapply agree_trans; [exact X|].
    pose proof (agree_sub _ _ _ _ _ (zlen ilst_data) (zlen fr) AGD) as Y. cbn [Z.add] in Y.
    apply Y; lia.
  - cbn. apply Z.eqb_eq. unfold new_free, new_ilst. cbn [ma_off ma_len]. lia.
Qed.

Lemma result_fits : off + zlen data <= zlen f'.
Proof. destruct fres as (_ & _ & (_ & _ & _ & X & _) & _). exact X. Qed.

Lemma meta_kids_new :
  mp4_forest_ok f' false (A ++ [new_ilst; new_free] ++ shift_forest delta B)
    (ma_off meta + ma_hdr meta + mp4_skip (ma_name meta)) (ma_off meta + (ma_len meta + delta)) = true.
Proof.
  pose proof positions as P. pose proof zlen_result as ZR. pose proof result_fits as RF. pose proof old_pos.
  pose proof (zlen_nonneg data) as DN. assert (Hd : delta = zlen data - old) by reflexivity. pose proof anc_pos as AP.
  apply forest_ok_app_intro with (m := off).
  - apply (forest_ok_same f f' false A _ _ FA); [apply (before_hdr _ _ _ _ FA); [lia|exact A_in]|lia|discriminate].
  - apply forest_ok_app_intro with (m := off + zlen data); [exact region_new|].
    pose proof (forest_ok_transfer f f' delta false B (off + old) (ma_off meta + ma_len meta) FB) as X.
    replace (off + old + delta) with (off + zlen data) in X by (unfold delta; lia).
    replace (ma_off meta + ma_len meta + delta) with (ma_off meta + (ma_len meta + delta)) in X by lia.
    apply X; [apply (after_hdr _ _ _ _ FB); [lia|exact B_in]|lia|discriminate].
Qed.

Lemma new_meta_ok : mp4_atom_ok f' false new_meta = true.
Proof.
  destruct udta_split as (_ & Hm & _). unfold new_meta. rewrite atom_ok_node.
  rewrite (anc_header_result false meta); [|unfold ancestors; cbn; tauto|exact Hm|discriminate].
  destruct (atom_ok_kids _ _ _ _ Hm Kmeta) as (Hc & _). rewrite Hc. cbn [andb]. exact meta_kids_new.
Qed.

Lemma new_udta_ok : mp4_atom_ok f' false new_udta = true.
Proof.
  pose proof positions as P. pose proof zlen_result as ZR. pose proof result_fits as RF. pose proof old_pos.
  pose proof (zlen_nonneg data) as DN. assert (Hd : delta = zlen data - old) by reflexivity. pose proof anc_pos as AP.
  destruct moov_split as (_ & Hu & _). destruct udta_split as (H7 & H8 & H9).
  unfold new_udta. rewrite atom_ok_node.
  rewrite (anc_header_result false udta); [|unfold ancestors; cbn; tauto|exact Hu|discriminate].
  destruct (atom_ok_kids _ _ _ _ Hu Kudta) as (Hc & _). rewrite Hc. cbn [andb].
  apply forest_ok_app_intro with (m := ma_off meta).
  - apply (forest_ok_same f f' false U1 _ _ H7); [apply (before_hdr _ _ _ _ H7); [lia|exact U1_in]|lia|discriminate].
  - apply forest_ok_intro; [reflexivity|exact new_meta_ok|]. unfold new_meta. cbn [ma_off ma_len].
    pose proof (forest_ok_transfer f f' delta false U2 _ _ H9) as X.
    replace (ma_off meta + ma_len meta + delta) with (ma_off meta + (ma_len meta + delta)) in X by lia.
    replace (ma_off udta + ma_len udta + delta) with (ma_off udta + (ma_len udta + delta)) in X by lia.
    apply X; [apply (after_hdr _ _ _ _ H9); [lia|exact U2_in]|lia|discriminate].
Qed.

Lemma new_moov_ok : mp4_atom_ok f' true new_moov = true.
Proof.
  pose proof positions as P. pose proof zlen_result as ZR. pose proof result_fits as RF. pose proof old_pos.
  pose proof (zlen_nonneg data) as DN. assert (Hd : delta = zlen data - old) by reflexivity. pose proof anc_pos as AP.
  destruct top_split as (_ & Hm & _). destruct moov_split as (H4 & H5 & H6).
  unfold new_moov. rewrite atom_ok_node.
  rewrite (anc_header_result true moov); [|unfold ancestors; cbn; tauto|exact Hm|].
  2:{ intros _. destruct (Z.eq_dec (be_decode (mp4_rd f (ma_off moov) 4)) 0) as [Z0|N0]; [left|right; exact N0].
      pose proof (atom_ok_header _ _ _ Hm) as Hh. pose proof (header_ok_facts _ _ _ _ _ _ Hh) as (G1 & G2 & G3 & G4 & G5 & G6 & G7).
      unfold mp4_header_ok in Hh. rewrite ztake_rd in Hh by lia. rewrite Z0 in Hh.
      apply andb_true_iff in Hh. destruct Hh as [_ HE]. lia. }
  destruct (atom_ok_kids _ _ _ _ Hm Kmoov) as (Hc & _). rewrite Hc. cbn [andb].
  apply forest_ok_app_intro with (m := ma_off udta).
  - apply (forest_ok_same f f' false M1 _ _ H4); [apply (before_hdr _ _ _ _ H4); [lia|exact M1_in]|lia|discriminate].
  - apply forest_ok_intro; [reflexivity|exact new_udta_ok|]. unfold new_udta. cbn [ma_off ma_len].
    pose proof (forest_ok_transfer f f' delta false M2 _ _ H6) as X.
    replace (ma_off udta + ma_len udta + delta) with (ma_off udta + (ma_len udta + delta)) in X by lia.
    replace (ma_off moov + ma_len moov + delta) with (ma_off moov + (ma_len moov + delta)) in X by lia.
    apply X; [apply (after_hdr _ _ _ _ H6); [lia|exact M2_in]|lia|discriminate].
Qed.

(* every ancestor's size field equals the extent of its children; atoms tile their parents at every level *)
Theorem existing_result_wellformed : mp4_forest_ok f' true new_atoms 0 (zlen f') = true.
Proof.
  pose proof positions as P. pose proof zlen_result as ZR. pose proof result_fits as RF. pose proof old_pos.
  pose proof (zlen_nonneg data) as DN. assert (Hd : delta = zlen data - old) by reflexivity. pose proof anc_pos as AP.
  destruct top_split as (H1 & H2 & H3). pose proof (atom_ok_len _ _ _ H2) as L2.
  unfold new_atoms. apply forest_ok_app_intro with (m := ma_off moov).
  - apply (forest_ok_same f f' true T1 _ _ H1); [apply (before_hdr _ _ _ _ H1); [lia|exact T1_in]|lia|].
    intros _. right. lia.
  - apply forest_ok_intro; [reflexivity|exact new_moov_ok|]. unfold new_moov. cbn [ma_off ma_len].
    pose proof (forest_ok_transfer f f' delta true T2 _ _ H3) as X.
    replace (ma_off moov + ma_len moov + delta) with (ma_off moov + (ma_len moov + delta)) in X by lia.
    rewrite ZR. apply X; [apply (after_hdr _ _ _ _ H3); [lia|exact T2_in]|lia|].
    intros _. left. lia.
Qed.

(* a leaf atom outside the region that is not an offset table (mdat, ftyp, free ...): all its bytes are kept *)
Lemma leaf_preserved L : In L (mp4_flat atoms) -> ma_kids L = None -> is_table_name L = false ->
  (ma_off L + ma_len L <= off \/ off + old <= ma_off L) ->
  agree f (ma_off L) f' (mv off old data (ma_off L)) (ma_len L).
Proof.
  intros HL KL NL Hpos. destruct (flat_member_ok f atoms Hwf L HL) as (top & Hok). pose proof (atom_ok_len _ _ _ Hok) as LL.
  destruct fres as (_ & Fr & _). apply Fr; try lia.
  - unfold clear_of. lia.
  - intros An HA. pose proof ancestors_ok as AO. rewrite Forall_forall in AO. destruct (AO An HA) as (HAin & (k & HAk) & _).
    destruct (segs_disjoint _ _ _ _ _ L An Hwf HL HAin) as [E|D]; [subst; congruence|].
    pose proof (skip_nonneg (ma_name An)).
    assert (HsA : s_lo (seg_of An) = ma_off An /\ s_hi (seg_of An) = ma_off An + ma_hdr An + mp4_skip (ma_name An))
      by (unfold seg_of, s_lo, s_hi; rewrite HAk; split; reflexivity).
    assert (HsL : s_lo (seg_of L) = ma_off L /\ s_hi (seg_of L) = ma_off L + ma_len L)
      by (unfold seg_of, s_lo, s_hi; rewrite KL; split; reflexivity).
    unfold clear_of. lia.
  - intros T HT. pose proof (member_facts f atoms Hwf off old data off tables_placed T HT) as (HTin & _ & _ & _ & LT & KT).
    assert (Hne : L <> T).
    { intros ->. unfold all_tabs in HT. apply in_app_or in HT. unfold is_table_name, mp4_named in NL.
      destruct HT as [HT|HT]; [destruct (stco_in atoms T HT) as (_ & E); rewrite E in NL; discriminate|].
      apply in_app_or in HT. destruct HT as [HT|HT]; [destruct (co64_in atoms T HT) as (_ & E); rewrite E in NL; discriminate|].
      destruct (tfhd_in atoms T HT) as (_ & E); rewrite E in NL; discriminate. }
    destruct (segs_disjoint _ _ _ _ _ L T Hwf HL HTin) as [E|D]; [contradiction|].
    assert (HsT : s_lo (seg_of T) = ma_off T /\ s_hi (seg_of T) = ma_off T + ma_len T)
      by (unfold seg_of, s_lo, s_hi; rewrite KT; split; reflexivity).
    assert (HsL : s_lo (seg_of L) = ma_off L /\ s_hi (seg_of L) = ma_off L + ma_len L)
      by (unfold seg_of, s_lo, s_hi; rewrite KL; split; reflexivity).
    unfold clear_of. lia.
Qed.

(* nesting depth: the new tree is no deeper than the old one, the new ilst sits at level 3 *)
Hypothesis Hheight : mp4_forest_height atoms <= MP4_MAXDEPTH.
Hypothesis Hith : mp4_height it <= 62.
Lemma new_atoms_height : mp4_forest_height new_atoms <= MP4_MAXDEPTH.
Proof.
  unfold MP4_MAXDEPTH in *. rewrite Eatoms in Hheight. rewrite forest_height_app, forest_height_cons in Hheight.
  rewrite (height_kids _ _ Kmoov), forest_height_app, forest_height_cons in Hheight.
  rewrite (height_kids _ _ Kudta), forest_height_app, forest_height_cons in Hheight.
  rewrite (height_kids _ _ Kmeta), !forest_height_app in Hheight.
  unfold new_atoms, new_moov, new_udta, new_meta, new_ilst, new_free.
  rewrite forest_height_app, forest_height_cons, height_node, forest_height_shift.
  rewrite forest_height_app, forest_height_cons, height_node, forest_height_shift.
  rewrite forest_height_app, forest_height_cons, height_node, forest_height_shift.
  rewrite !forest_height_app, forest_height_shift. cbn [mp4_forest_height]. rewrite height_shift, height_leaf.
  pose proof (height_pos it) as P10.
  remember (mp4_forest_height T1) as hT1 eqn:X1. remember (mp4_forest_height T2) as hT2 eqn:X2.
  remember (mp4_forest_height M1) as hM1 eqn:X3. remember (mp4_forest_height M2) as hM2 eqn:X4.
  remember (mp4_forest_height U1) as hU1 eqn:X5. remember (mp4_forest_height U2) as hU2 eqn:X6.
  remember (mp4_forest_height A) as hA eqn:X7. remember (mp4_forest_height B) as hB eqn:X8.
  remember (mp4_forest_height R) as hR eqn:X9. remember (mp4_height it) as hi eqn:X10.
  pose proof Hheight as Hh. clear - Hh Hith P10.
  repeat (rewrite Z.max_lub_iff in Hh || rewrite add_max_le in Hh || rewrite Z.add_assoc in Hh).
  repeat (rewrite Z.max_lub_iff || rewrite add_max_le || rewrite Z.add_assoc).
  lia.
Qed.

(* ================================================================== the result is well-formed in full (mp4_wf) *)
(* every table-named atom of the file is one the save visits (stco / co64 below the first moov, tfhd below a top-level moof) *)
Definition covered (ks : list mp4_atom) : Prop :=
  forall x, In x (mp4_flat ks) ->
    (ma_name x = N_stco -> In x (mp4_stco_list ks)) /\ (ma_name x = N_co64 -> In x (mp4_co64_list ks)) /\
    (ma_name x = N_tfhd -> In x (mp4_tfhd_list ks)).
Hypothesis Hcov : covered atoms.
Hypothesis Hent : mp4_entries_in_file f atoms = true.
Hypothesis Hitclean : ilst_clean it = true.

Lemma ok_old y : In y (mp4_flat atoms) -> ok_at f y = true.
Proof.
  intros Hy. assert (H : forallb (ok_at f) (mp4_flat atoms) = true) by (rewrite <- wf_tables_split, Htab, Hent; reflexivity).
  rewrite forallb_forall in H. apply H. exact Hy.
Qed.

Lemma shift_le o L : o <= L -> L = zlen f -> mp4_shift off delta o <= zlen f'.
Proof.
  intros Ho ->. pose proof zlen_result. pose proof result_fits. pose proof (zlen_nonneg data).
  unfold mp4_shift. destruct (off <? o) eqn:E; lia.
Qed.

Lemma entries_shift_ok (w : nat) y d :
  tab_entries w f' (ma_off y + d) = map (mp4_shift off delta) (tab_entries w f (ma_off y)) ->
  mp4_rd f' (ma_off y + d + 12) 4 = mp4_rd f (ma_off y + 12) 4 ->
  forallb (fun e : mp4_entry => snd e <=? zlen f) (mp4_table_entries f (Z.of_nat w) y) = true ->
  forallb (fun e : mp4_entry => snd e <=? zlen f') (mp4_table_entries f' (Z.of_nat w) (shift_atom d y)) = true.
Proof.
  intros TE Hc HE. unfold mp4_table_entries in *. rewrite shift_off, Hc. rewrite forallb_numbered in *.
  assert (TE' : tab_entries w f' (ma_off y + d) =
                mp4_unpack (Z.of_nat w) (Z.to_nat (be_decode (mp4_rd f (ma_off y + 12) 4)))
                  (mp4_rd f' (ma_off y + d + 16) (Z.of_nat w * be_decode (mp4_rd f (ma_off y + 12) 4))))
    by (unfold tab_entries; rewrite Hc; reflexivity).
  rewrite <- TE', TE. rewrite forallb_forall. intros v Hv. apply in_map_iff in Hv. destruct Hv as (o & <- & Ho).
  rewrite forallb_forall in HE. apply Z.leb_le. apply (shift_le o (zlen f)); [|reflexivity].
  apply Z.leb_le. apply HE. unfold tab_entries in Ho. exact Ho.
Qed.

Lemma table_ok_moved (w : nat) y d : (0 < w)%nat -> mp4_table_ok f (Z.of_nat w) y = true ->
  mp4_rd f' (ma_off y + d + 12) 4 = mp4_rd f (ma_off y + 12) 4 ->
  mp4_table_ok f' (Z.of_nat w) (shift_atom d y) = true.
Proof.
  intros Hw H Hc. destruct (table_ok_facts f (Z.of_nat w) y H ltac:(lia)) as (Hh & C0 & CL).
  unfold mp4_table_ok. rewrite shift_hdr, shift_len, shift_off, Hc, Hh.
  apply andb_true_iff. split; [apply andb_true_iff; split; [reflexivity|apply Z.leb_le; nia]|apply Z.eqb_eq; exact CL].
Qed.

Lemma ok_moved y d : In y (mp4_flat atoms) ->
  (ma_off y + ma_len y <= off /\ d = 0) \/ (off + old <= ma_off y /\ d = delta) ->
  ok_at f' (shift_atom d y) = true.
Proof.
  intros Hy Hpos. pose proof (ok_old y Hy) as Hok.
  destruct (is_table_name y) eqn:Etn; [|apply ok_at_nontable; rewrite shift_is_table; exact Etn].
  destruct (flat_member_ok f atoms Hwf y Hy) as (top & Hyok). pose proof (atom_ok_len _ _ _ Hyok) as Ly.
  assert (Hnp : mv off old data (ma_off y) = ma_off y + d).
  { pose proof old_pos. unfold mv. destruct Hpos as [(P & ->)|(P & ->)]; destruct (off + old <=? ma_off y) eqn:E; lia. }
  destruct fres as (_ & _ & _ & _ & U4 & U8 & UT).
  destruct (Hcov y Hy) as (C4 & C8 & CT).
  unfold ok_at in Hok. apply andb_true_iff in Hok. destruct Hok as [Hok HE]. apply andb_true_iff in Hok. destruct Hok as [Hok H3].
  apply andb_true_iff in Hok. destruct Hok as [H1 H2].
  unfold ok_at, mp4_atom_entries in *. unfold mp4_named in *. rewrite !shift_name.
  destruct (list_eqb (ma_name y) N_stco) eqn:E4.
  - apply list_eqb_spec in E4. rewrite E4 in *.
    change (list_eqb N_stco N_stco) with true in *. change (list_eqb N_stco N_co64) with false in *.
    change (list_eqb N_stco N_tfhd) with false in *. cbv iota in *.
    destruct (U4 y (C4 eq_refl)) as (A16 & TE). rewrite Hnp in *.
    assert (Hc : mp4_rd f' (ma_off y + d + 12) 4 = mp4_rd f (ma_off y + 12) 4) by (symmetry; apply (agree_rd _ _ _ _ _ 12 4 A16); lia).
    pose proof (table_ok_moved 4 y d ltac:(lia) H1 Hc) as X1. pose proof (entries_shift_ok 4 y d TE Hc HE) as X2.
    change (Z.of_nat 4) with 4 in X1, X2. rewrite X1, X2. reflexivity.
  - destruct (list_eqb (ma_name y) N_co64) eqn:E8.
    + apply list_eqb_spec in E8. rewrite E8 in *.
      change (list_eqb N_co64 N_co64) with true in *. change (list_eqb N_co64 N_tfhd) with false in *. cbv iota in *.
      destruct (U8 y (C8 eq_refl)) as (A16 & TE). rewrite Hnp in *.
      assert (Hc : mp4_rd f' (ma_off y + d + 12) 4 = mp4_rd f (ma_off y + 12) 4) by (symmetry; apply (agree_rd _ _ _ _ _ 12 4 A16); lia).
      pose proof (table_ok_moved 8 y d ltac:(lia) H2 Hc) as X1. pose proof (entries_shift_ok 8 y d TE Hc HE) as X2.
      change (Z.of_nat 8) with 8 in X1, X2. rewrite X1, X2. reflexivity.
    + destruct (list_eqb (ma_name y) N_tfhd) eqn:ET.
      * apply list_eqb_spec in ET. rewrite ET in *. change (list_eqb N_tfhd N_tfhd) with true in *. cbv iota in *.
        destruct (UT y (CT eq_refl)) as (A12 & UF & UTT). rewrite Hnp in *.
        destruct (tfhd_ok_facts f y H3) as (Hh & C12 & C24).
        assert (Hfl : mp4_tfhd_flag f' (shift_atom d y) = mp4_tfhd_flag f y).
        { unfold mp4_tfhd_flag. rewrite shift_off. symmetry. apply (tfhd_flag_agree _ _ _ _ _ A12). lia. }
        assert (TO : mp4_tfhd_ok f' (shift_atom d y) = true).
        { unfold mp4_tfhd_ok. rewrite Hfl, shift_hdr, shift_len, Hh.
          apply andb_true_iff. split; [apply andb_true_iff; split; [reflexivity|apply Z.leb_le; lia]|].
          destruct (mp4_tfhd_flag f y) eqn:Ef; [|reflexivity]. cbn [negb orb]. apply Z.leb_le. apply C24. reflexivity. }
        rewrite TO. rewrite Hfl. destruct (mp4_tfhd_flag f y) eqn:Ef; [|reflexivity].
        cbn [forallb snd andb] in *. rewrite andb_true_r in *. rewrite shift_off.
        destruct (UTT Ef) as (TB & _). unfold tfhd_base in TB. rewrite TB.
        apply Z.leb_le. apply (shift_le _ (zlen f)); [|reflexivity]. apply Z.leb_le. exact HE.
      * unfold is_table_name, mp4_named in Etn. rewrite E4, E8, ET in Etn. discriminate.
Qed.

Lemma ok_before_part top l p e : mp4_forest_ok f top l p e = true -> e <= off -> (forall y, In y (mp4_flat l) -> In y (mp4_flat atoms)) ->
  Forall (fun x => ok_at f' x = true) (mp4_flat l).
Proof.
  intros Hf He Hin. apply Forall_forall. intros y Hy.
  pose proof (forest_within _ _ _ _ _ Hf) as W. rewrite Forall_forall in W. specialize (W y Hy). unfold within in W.
  rewrite <- (shift_atom_zero y). apply ok_moved; [apply Hin; exact Hy|left; split; [lia|reflexivity]].
Qed.
Lemma ok_after_part top l p e : mp4_forest_ok f top l p e = true -> off + old <= p -> (forall y, In y (mp4_flat l) -> In y (mp4_flat atoms)) ->
  Forall (fun x => ok_at f' x = true) (mp4_flat (shift_forest delta l)).
Proof.
  intros Hf He Hin. rewrite flat_shift_forest. apply Forall_forall. intros x Hx. apply in_map_iff in Hx. destruct Hx as (y & <- & Hy).
  pose proof (forest_within _ _ _ _ _ Hf) as W. rewrite Forall_forall in W. specialize (W y Hy). unfold within in W.
  apply ok_moved; [apply Hin; exact Hy|right; split; [lia|reflexivity]].
Qed.

Lemma named_not_table x n : ma_name x = n -> n <> N_stco -> n <> N_co64 -> n <> N_tfhd -> is_table_name x = false.
Proof.
  intros E A1 A2 A3. unfold is_table_name, mp4_named. rewrite E.
  destruct (list_eqb n N_stco) eqn:B1; [apply list_eqb_spec in B1; contradiction|].
  destruct (list_eqb n N_co64) eqn:B2; [apply list_eqb_spec in B2; contradiction|].
  destruct (list_eqb n N_tfhd) eqn:B3; [apply list_eqb_spec in B3; contradiction|]. reflexivity.
Qed.

Lemma result_tables_ok : forallb (ok_at f') (mp4_flat new_atoms) = true.
Proof.
  pose proof positions as P. pose proof anc_pos as AP. pose proof old_pos as OP.
  destruct top_split as (H1 & H2 & H3). destruct moov_split as (H4 & H5 & H6). destruct udta_split as (H7 & H8 & H9).
  apply forallb_forall. apply Forall_forall.
  unfold new_atoms. rewrite flat_app, flat_cons. apply Forall_app. split; [apply (ok_before_part _ _ _ _ H1); [lia|exact T1_in]|].
  apply Forall_app. split; [|apply (ok_after_part _ _ _ _ H3); [lia|exact T2_in]].
  unfold new_moov. rewrite flat_atom_node. constructor.
  { apply ok_at_nontable. apply (named_not_table _ N_moov); [exact Nmoov|discriminate|discriminate|discriminate]. }
  rewrite flat_app, flat_cons. apply Forall_app. split; [apply (ok_before_part _ _ _ _ H4); [lia|exact M1_in]|].
  apply Forall_app. split; [|apply (ok_after_part _ _ _ _ H6); [lia|exact M2_in]].
  unfold new_udta. rewrite flat_atom_node. constructor.
  { apply ok_at_nontable. apply (named_not_table _ N_udta); [exact Nudta|discriminate|discriminate|discriminate]. }
  rewrite flat_app, flat_cons. apply Forall_app. split; [apply (ok_before_part _ _ _ _ H7); [lia|exact U1_in]|].
  apply Forall_app. split; [|apply (ok_after_part _ _ _ _ H9); [lia|exact U2_in]].
  unfold new_meta. rewrite flat_atom_node. constructor.
  { apply ok_at_nontable. apply (named_not_table _ N_meta); [exact Nmeta|discriminate|discriminate|discriminate]. }
  rewrite !flat_app. apply Forall_app. split; [apply (ok_before_part _ _ _ _ FA); [lia|exact A_in]|].
  apply Forall_app. split; [|apply (ok_after_part _ _ _ _ FB); [lia|exact B_in]].
  unfold mp4_flat. cbn [flat_map]. rewrite app_nil_r. apply Forall_app. split.
  - unfold new_ilst. rewrite flat_shift. apply Forall_forall. intros x Hx. apply in_map_iff in Hx. destruct Hx as (y & <- & Hy).
    apply ok_at_nontable. rewrite shift_is_table. unfold ilst_clean in Hitclean. rewrite forallb_forall in Hitclean.
    specialize (Hitclean y Hy). apply negb_true_iff in Hitclean. exact Hitclean.
  - unfold new_free. rewrite flat_atom_leaf. constructor; [|constructor]. apply ok_at_nontable. reflexivity.
Qed.

Theorem existing_result_wf : mp4_wf f' = true.
Proof.
  pose proof existing_result_wellformed as W. pose proof result_tables_ok as T. rewrite <- wf_tables_split in T.
  pose proof new_atoms_height as HH.
  unfold mp4_wf, mp4_parse. rewrite (parse_complete f' new_atoms W HH). rewrite W. cbn [andb].
  apply andb_true_iff in T. destruct T as [T1' T2']. rewrite T1', T2'.
  assert (E : (mp4_forest_height new_atoms <=? MP4_MAXDEPTH) = true) by (apply Z.leb_le; exact HH). rewrite E. reflexivity.
Qed.

(* ================================================================== the save finds its own free atom again *)
Hypothesis HT1no : Forall (fun x => ma_name x <> N_moov) T1.
Hypothesis HM1no : Forall (fun x => ma_name x <> N_udta) M1.
Hypothesis HU1no : Forall (fun x => ma_name x <> N_meta) U1.
Hypothesis HAno : Forall (fun x => ma_name x <> N_ilst) A.
Hypothesis Hitname : ma_name it = N_ilst.

Lemma new_path : mp4_path new_atoms ILST_PATH = Some [new_moov; new_udta; new_meta; new_ilst].
Proof.
  unfold ILST_PATH, new_atoms. cbn [mp4_path].
  rewrite (child_of_split N_moov T1 new_moov (shift_forest delta T2)); [|exact Nmoov|exact HT1no].
  unfold new_moov at 1. cbn [ma_kids].
  rewrite (child_of_split N_udta M1 new_udta (shift_forest delta M2)); [|exact Nudta|exact HM1no].
  unfold new_udta at 1. cbn [ma_kids].
  rewrite (child_of_split N_meta U1 new_meta (shift_forest delta U2)); [|exact Nmeta|exact HU1no].
  unfold new_meta at 1. cbn [ma_kids app].
  rewrite (child_of_split N_ilst A new_ilst (new_free :: shift_forest delta B)); [reflexivity| |exact HAno].
  unfold new_ilst. rewrite shift_name. exact Hitname.
Qed.

Lemma new_region_found : mp4_region_of [new_moov; new_udta; new_meta; new_ilst] = Some (off, zlen data).
Proof.
  unfold mp4_region_of.
  assert (Hk : ma_kids new_meta = Some (A ++ new_ilst :: (new_free :: shift_forest delta B))) by reflexivity.
  assert (Hn : ma_name new_ilst = N_ilst) by (unfold new_ilst; rewrite shift_name; exact Hitname).
  rewrite (find_padding_value new_meta A new_ilst (new_free :: shift_forest delta B) Hk Hn HAno).
  cbn [next_free_of]. change (mp4_is_free new_free) with true. cbv iota.
  pose proof (forest_ok_cons _ _ _ _ _ _ Hit) as (E1 & E2 & E3). apply forest_ok_nil in E3.
  pose proof (zlen_nonneg ilst_data).
  assert (Hfr : zlen data = zlen ilst_data + zlen fr) by (rewrite Hdata, zlen_app; reflexivity).
  unfold new_ilst, new_free. rewrite shift_off, shift_len. cbn [ma_off ma_len]. f_equal. f_equal; lia.
Qed.
(*EXISTING-CONTINUES*)
End Existing.
