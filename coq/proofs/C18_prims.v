(* C18: facts about the byte-string primitives (prefix / suffix / sub-string tests) and the tactics
   that decide `detect … = Some K` by case analysis on the atomic tests of the generated scores. *)
From Coq Require Import ZArith List Bool Lia.
Import ListNotations.
Require Import Base.Py Model.ScorePrims Gen.Gen_scores Model.Score.
Open Scope Z_scope.

(* ---- prefixes ---- *)
Lemma sw_trans : forall a l b, starts_with a l = true -> starts_with b a = true -> starts_with b l = true.
Proof.
  induction a as [|x a IH]; intros l b Ha Hb.
  - destruct b; [reflexivity | discriminate].
  - destruct l as [|y l]; [discriminate|]. destruct b as [|z b]; [reflexivity|].
    cbn [starts_with] in *. apply andb_true_iff in Ha. apply andb_true_iff in Hb.
    destruct Ha as [E1 Ha]. destruct Hb as [E2 Hb]. apply Z.eqb_eq in E1. apply Z.eqb_eq in E2. subst.
    rewrite Z.eqb_refl. cbn [andb]. eapply IH; eassumption.
Qed.

Lemma sw_compat : forall a l b, starts_with a l = true -> starts_with b l = true ->
  starts_with a b || starts_with b a = true.
Proof.
  induction a as [|x a IH]; intros l b Ha Hb; [reflexivity|].
  destruct b as [|z b]; [reflexivity|]. destruct l as [|y l]; [discriminate|].
  cbn [starts_with] in *. apply andb_true_iff in Ha. apply andb_true_iff in Hb.
  destruct Ha as [E1 Ha]. destruct Hb as [E2 Hb]. apply Z.eqb_eq in E1. apply Z.eqb_eq in E2. subst.
  rewrite Z.eqb_refl. cbn [andb]. eapply IH; eassumption.
Qed.

Lemma sw_incompat : forall a l b, starts_with a l = true -> starts_with a b || starts_with b a = false ->
  starts_with b l = false.
Proof.
  intros a l b Ha Hc. destruct (starts_with b l) eqn:E; [|reflexivity].
  rewrite (sw_compat a l b Ha E) in Hc. discriminate.
Qed.

Lemma sw_map : forall f a l, starts_with a l = true -> starts_with (map f a) (map f l) = true.
Proof.
  induction a as [|x a IH]; intros l H; [reflexivity|]. destruct l as [|y l]; [discriminate|].
  cbn [starts_with map] in *. apply andb_true_iff in H. destruct H as [E H]. apply Z.eqb_eq in E. subst.
  rewrite Z.eqb_refl. cbn [andb]. apply IH. exact H.
Qed.

(* ---- suffixes ---- *)
Lemma ew_trans : forall a l b, ends_with a l = true -> ends_with b a = true -> ends_with b l = true.
Proof. unfold ends_with. intros a l b. apply sw_trans. Qed.

Lemma ew_incompat : forall a l b, ends_with a l = true -> ends_with a b || ends_with b a = false ->
  ends_with b l = false.
Proof. unfold ends_with. intros a l b. apply sw_incompat. Qed.

Lemma ew_lower : forall b l, ends_with b l = true -> ends_with (lower b) (lower l) = true.
Proof. unfold ends_with, lower. intros b l H. rewrite <- !map_rev. apply sw_map. exact H. Qed.

(* a test on the raw name is decided by a known extension of the lower-cased name *)
Lemma raw_incompat : forall a l b, ends_with a (lower l) = true ->
  ends_with a (lower b) || ends_with (lower b) a = false -> ends_with b l = false.
Proof.
  intros a l b Ha Hc. destruct (ends_with b l) eqn:E; [|reflexivity].
  apply ew_lower in E. rewrite (ew_incompat a (lower l) (lower b) Ha Hc) in E. discriminate.
Qed.

(* ---- sub-strings ---- *)
Lemma sw_contains : forall m l, starts_with m l = true -> contains m l = true.
Proof. intros m l H. destruct l; cbn [contains]; rewrite H; reflexivity. Qed.

Lemma contains_cons : forall m x l, contains m l = true -> contains m (x :: l) = true.
Proof. intros m x l H. cbn [contains]. rewrite H. apply orb_true_r. Qed.

Lemma sw_tail : forall x m l, starts_with (x :: m) l = true -> exists r, l = x :: r /\ starts_with m r = true.
Proof.
  intros x m [|y l] H; [discriminate|]. cbn [starts_with] in H. apply andb_true_iff in H. destruct H as [E H].
  apply Z.eqb_eq in E. subst. eauto.
Qed.

Lemma contains_tail : forall x m l, contains (x :: m) l = true -> contains m l = true.
Proof.
  induction l as [|y l IH]; intro H.
  - cbn in H. discriminate.
  - cbn [contains] in H. apply orb_true_iff in H. destruct H as [H|H].
    + apply sw_tail in H. destruct H as (r & E & H). injection E as -> ->.
      apply contains_cons. apply sw_contains. exact H.
    + apply contains_cons. apply IH. exact H.
Qed.

Lemma list_eqb_eq : forall a b, list_eqb a b = true -> a = b.
Proof.
  induction a as [|x a IH]; intros [|y b] H; try discriminate; [reflexivity|].
  cbn [list_eqb] in H. apply andb_true_iff in H. destruct H as [E H]. apply Z.eqb_eq in E. subst.
  f_equal. apply IH. exact H.
Qed.

Lemma firstn_sw : forall n (x m : list Z), firstn n x = m -> starts_with m x = true.
Proof.
  induction n as [|n IH]; intros x m H.
  - cbn in H. subst. reflexivity.
  - destruct x as [|y x]; cbn [firstn] in H; subst; [reflexivity|].
    cbn [starts_with]. rewrite Z.eqb_refl. cbn [andb]. apply IH. reflexivity.
Qed.

Lemma contains_skipn : forall k m (l : list Z), contains m (skipn k l) = true -> contains m l = true.
Proof.
  induction k as [|k IH]; intros m l H; [exact H|].
  destruct l as [|y l]; [exact H|]. cbn [skipn] in H. apply contains_cons. apply IH. exact H.
Qed.

(* header[a:b] == m  implies  m in header *)
Lemma slice_contains : forall a b m l, list_eqb (zslice a b l) m = true -> contains m l = true.
Proof.
  intros a b m l H. apply list_eqb_eq in H. unfold zslice, ztake, zdrop in H.
  apply firstn_sw in H. apply sw_contains in H. eapply contains_skipn. exact H.
Qed.

(* ---- the marker assumption, per foreign class ---- *)
Lemma nfm_at : forall k h, no_foreign_marker k h = true ->
  forall j, In j options -> cls_eqb j k = false -> has_marker j h = false.
Proof.
  intros k h H j Hj E. unfold no_foreign_marker in H.
  rewrite forallb_forall in H. specialize (H j Hj). rewrite E in H. cbn [orb] in H.
  apply negb_true_iff in H. exact H.
Qed.

Lemma all_in_options : forall c, In c options.
Proof. intro c. destruct c; vm_compute; tauto. Qed.

(* ---- tactics ---- *)

(* turn `no_foreign_marker k header = true` into one `test = false` hypothesis per foreign marker *)
Ltac marker_facts H :=
  let rec go js :=
    lazymatch js with
    | nil => idtac
    | cons ?j ?r =>
        try (let F := fresh "NM" in
             pose proof (nfm_at _ _ H j (all_in_options j) (eq_refl false)) as F;
             unfold has_marker in F; cbn [markers_of existsb] in F; autounfold with scores in F;
             repeat (let G := fresh "NM" in apply orb_false_elim in F; destruct F as [G F]));
        go r
    end in
  let o := eval cbv in options in go o.

Ltac rewrite_facts :=
  repeat match goal with
         | H : ?t = false |- context [?t] => lazymatch t with false => fail | true => fail | _ => rewrite H end
         | H : ?t = true |- context [?t] => lazymatch t with false => fail | true => fail | _ => rewrite H end
         end.
(* tests left undecided are hidden behind local definitions while the others are processed *)
Ltac unhide := repeat match goal with u := _ : bool |- _ => subst u end.

(* decide every `starts_with lit header` from one known prefix *)
Ltac sw_facts Hsw :=
  lazymatch type of Hsw with
  | starts_with ?M ?h = true =>
      repeat match goal with
             | |- context [starts_with ?a h] =>
                 first [ rewrite (sw_trans M h a Hsw (eq_refl true))
                       | rewrite (sw_incompat M h a Hsw (eq_refl false))
                       | let u := fresh "u" in set (u := starts_with a h) ]
             end
  end.

(* decide every extension test from one known extension of the lower-cased name *)
Ltac ew_facts Hew :=
  lazymatch type of Hew with
  | ends_with ?E (lower ?f) = true =>
      repeat match goal with
             | |- context [ends_with ?a (lower f)] =>
                 first [ rewrite (ew_trans E (lower f) a Hew (eq_refl true))
                       | rewrite (ew_incompat E (lower f) a Hew (eq_refl false))
                       | let u := fresh "u" in set (u := ends_with a (lower f)) ]
             | |- context [ends_with ?a f] =>
                 first [ rewrite (raw_incompat E f a Hew (eq_refl false))
                       | let u := fresh "u" in set (u := ends_with a f) ]
             end
  end.

Ltac expose :=
  unfold detect, detect_easy, detect_with, scores_with;
  cbn [map options score_of cls_name easy_name];
  autounfold with scores; cbv beta zeta.

Ltac simpl_scores :=
  change (b2z false) with 0; change (b2z true) with 1;
  rewrite ?Z.mul_0_l; cbn [orb andb negb].

(* ---- reflection: a goal `F atoms = true` over n opaque boolean atoms is checked by evaluating F on
   all 2^n assignments inside the kernel (one vm_compute) ---- *)
Fixpoint ball (n : nat) (f : list bool -> bool) : bool :=
  match n with
  | O => f []
  | S n' => ball n' (fun l => f (true :: l)) && ball n' (fun l => f (false :: l))
  end.

Lemma ball_spec : forall n f, ball n f = true -> forall env, length env = n -> f env = true.
Proof.
  induction n as [|n IH]; intros f H env L.
  - destruct env; [exact H | discriminate].
  - destruct env as [|b env]; [discriminate|]. cbn [ball] in H. apply andb_true_iff in H. destruct H as [Ht Hf].
    injection L as L. destruct b; [exact (IH _ Ht env L) | exact (IH _ Hf env L)].
Qed.

Definition oname_eqb (a b : option name) : bool :=
  match a, b with
  | Some x, Some y => list_eqb x y
  | None, None => true
  | _, _ => false
  end.
Lemma oname_eqb_eq : forall a b, oname_eqb a b = true -> a = b.
Proof. intros [x|] [y|] H; try discriminate; [f_equal; apply list_eqb_eq; exact H | reflexivity]. Qed.

Lemma picks_check : forall l1 l2 x y,
  oname_eqb (choose l1) (Some x) && oname_eqb (choose l2) (Some y) = true ->
  choose l1 = Some x /\ choose l2 = Some y.
Proof. intros l1 l2 x y H. apply andb_true_iff in H. destruct H as [A B]. split; apply oname_eqb_eq; assumption. Qed.

(* closed tests (nameless streams) are evaluated; every other atomic test becomes a boolean variable *)
Ltac abstract_atoms :=
  repeat match goal with
         | |- context [ends_with ?a (lower [])] =>
             let v := eval vm_compute in (ends_with a (lower [])) in change (ends_with a (lower [])) with v
         | |- context [ends_with ?a []] =>
             let v := eval vm_compute in (ends_with a (@nil Z)) in change (ends_with a []) with v
         | |- context [contains ?m ?h] => let b := fresh "b" in generalize (contains m h); intro b
         | |- context [list_eqb ?x ?y] => let b := fresh "b" in generalize (list_eqb x y); intro b
         | |- context [starts_with ?x ?y] => let b := fresh "b" in generalize (starts_with x y); intro b
         | |- context [ends_with ?x ?y] => let b := fresh "b" in generalize (ends_with x y); intro b
         end.

Ltac collect_bools acc :=
  match goal with
  | b : bool |- _ => match acc with context [b] => fail 1 | _ => collect_bools (@cons bool b acc) end
  | _ => acc
  end.

Ltac env_subst l i e :=
  lazymatch l with
  | nil => idtac
  | cons ?b ?r => change b with (nth i e false); env_subst r (S i) e
  end.

Ltac reflect_bools :=
  let env := collect_bools (@nil bool) in
  let n := eval cbv in (length env) in
  let e := fresh "env" in
  pose (e := env);
  env_subst env O e;
  let L := fresh "L" in
  assert (L : length e = n) by reflexivity;
  clearbody e;
  match goal with
  | |- ?G = true =>
      let f := eval pattern e in G in
      match f with
      | ?g e => refine (ball_spec n g _ e L); vm_compute; reflexivity
      end
  end.

Ltac finish := apply picks_check; abstract_atoms; reflect_bools.

(* The scores are simplified one class at a time (small goals), then put back into File's list.
   `facts` is the tactic that decides the atomic tests of one score from the hypotheses. *)
Ltac simp_scores facts :=
  unfold detect, detect_easy, detect_with, scores_with; cbn [map options cls_name easy_name];
  repeat match goal with
         | |- context [score_of ?c ?f ?h ?t] =>
             let v := fresh "v" in
             let E := fresh "E" in
             evar (v : Z);
             assert (E : score_of c f h t = v)
               by (cbn [score_of]; autounfold with scores; cbv beta zeta; facts; rewrite_facts; simpl_scores;
                   unhide; subst v; reflexivity);
             rewrite E; clear E; subst v
         end.

Ltac open_named :=
  intros fname header trailer (ext & Hin & Hew) Hfam;
  cbn [usual_exts In] in Hin; cbn [family family0] in Hfam; unfold starts, has, m_ID3, m_OggS, m_fLaC, m_ftyp, m_WAVE, m_ASF in Hfam;
  unfold picks; destruct trailer as [footer|]; cbn [ape_in_trailer] in Hfam.
Ltac open_nameless :=
  intros header trailer Hfam; cbn [family family0] in Hfam; unfold starts, has, m_ID3, m_OggS, m_fLaC, m_ftyp, m_WAVE, m_ASF in Hfam;
  unfold picks; destruct trailer as [footer|]; cbn [ape_in_trailer] in Hfam.

(* goal: picks k fname header trailer (unfolded); Hsw : starts_with M header = true;
   Hew : ends_with E (lower fname) = true *)
Ltac decide_named Hsw Hew := simp_scores ltac:(idtac; sw_facts Hsw; ew_facts Hew); finish.

(* nameless stream: the file name is [] *)
Ltac decide_nameless Hsw := simp_scores ltac:(idtac; sw_facts Hsw); finish.

(* one case per usual extension (Hin : In ext [...], Hew : ends_with ext (lower fname) = true) *)
Ltac each_ext Hin Hew Hsw := repeat (destruct Hin as [<-|Hin]; [decide_named Hsw Hew|]); try contradiction.
