(* C18: per-type stability of File's choice over the regenerated scores (chunk / atom containers).
   Each lemma: for every file name carrying a usual extension of the type in any letter case, every
   header in the type's family, every trailer: File picks the type and File(easy=True) its Easy
   counterpart.  Proof: the atomic tests of every score are decided from the hypotheses where possible,
   the remaining ones are enumerated by reflection (C18_prims.ball). *)
From Coq Require Import ZArith List Bool Lia.
Import ListNotations.
Require Import Base.Py Model.ScorePrims Gen.Gen_scores Model.Score Proofs.C18_prims.
Open Scope Z_scope.

Lemma stable_AIFF : forall fname header trailer,
  named_as C_AIFF fname -> family C_AIFF header trailer -> picks C_AIFF fname header trailer.
Proof.
  open_named; pose proof Hfam as Hsw; each_ext Hin Hew Hsw.
Qed.

Lemma stable_WAVE : forall fname header trailer,
  named_as C_WAVE fname -> family C_WAVE header trailer -> picks C_WAVE fname header trailer.
Proof.
  open_named; destruct Hfam as [Hsw Hm]; each_ext Hin Hew Hsw.
Qed.

Lemma stable_DSF : forall fname header trailer,
  named_as C_DSF fname -> family C_DSF header trailer -> picks C_DSF fname header trailer.
Proof.
  open_named; pose proof Hfam as Hsw; each_ext Hin Hew Hsw.
Qed.

Lemma stable_DSDIFF : forall fname header trailer,
  named_as C_DSDIFF fname -> family C_DSDIFF header trailer -> no_foreign_marker C_DSDIFF header = true ->
  picks C_DSDIFF fname header trailer.
Proof.
  open_named; intro Hnfm; marker_facts Hnfm; pose proof Hfam as Hsw; each_ext Hin Hew Hsw.
Qed.

Lemma stable_ASF : forall fname header trailer,
  named_as C_ASF fname -> family C_ASF header trailer -> no_foreign_marker C_ASF header = true ->
  picks C_ASF fname header trailer.
Proof.
  open_named; intro Hnfm; marker_facts Hnfm; pose proof Hfam as Hsw; each_ext Hin Hew Hsw.
Qed.

Lemma stable_MP4 : forall fname header trailer,
  named_as C_MP4 fname -> family C_MP4 header trailer -> no_foreign_marker C_MP4 header = true ->
  picks C_MP4 fname header trailer.
Proof.
  open_named; intro Hnfm; marker_facts Hnfm; destruct Hfam as [Hsw Hm]; pose proof (slice_contains _ _ _ _ Hm) as Hm2; each_ext Hin Hew Hsw.
Qed.
