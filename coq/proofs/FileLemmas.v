(* Step lemmas for the file monad on benign states (no capacity limit, no scheduled fault, no short
   reads), for both seek flavours. *)
From Coq Require Import ZArith List Bool Lia.
Import ListNotations.
Require Import Base.Py Base.ZList Base.FileModel.
Open Scope Z_scope.

Definition benign (real : bool) (part : Z) : fcfg := mkC real None part None None.

Section Steps.
Variables (real : bool) (part : Z).
Notation cf := (benign real part).

Lemma run_seek_abs d p off : 0 <= off -> f_seek off 0 (mkF d p cf) = (Ok tt, mkF d off cf).
Proof. intros H. unfold f_seek, bind, tick; cbn. destruct (off <? 0) eqn:E; [lia|reflexivity]. Qed.
Lemma run_seek_end0 d p : f_seek 0 2 (mkF d p cf) = (Ok tt, mkF d (zlen d) cf).
Proof.
  unfold f_seek, bind, tick; cbn. pose proof (zlen_nonneg d).
  rewrite Z.add_0_r. destruct (zlen d <? 0) eqn:E; [lia|reflexivity].
Qed.
Lemma run_tell d p : f_tell (mkF d p cf) = (Ok p, mkF d p cf).
Proof. reflexivity. Qed.
Lemma run_read d p n : 0 <= n ->
  f_read n (mkF d p cf) = (Ok (ztake n (zdrop p d)), mkF d (p + zlen (ztake n (zdrop p d))) cf).
Proof. intros H. unfold f_read, bind, tick; cbn. destruct (n <? 0) eqn:E; [lia|reflexivity]. Qed.
Lemma run_write d p bs : f_write bs (mkF d p cf) = (Ok tt, mkF (write_at d p bs) (p + zlen bs) cf).
Proof. reflexivity. Qed.
Lemma run_truncate d p n : 0 <= n <= zlen d -> f_truncate n (mkF d p cf) = (Ok tt, mkF (ztake n d) p cf).
Proof.
  intros H. unfold f_truncate, bind, tick; cbn.
  destruct (n <? 0) eqn:E; [lia|]. destruct (zlen d <? n) eqn:E2; [lia|reflexivity].
Qed.
Lemma run_flush d p : f_flush (mkF d p cf) = (Ok tt, mkF d p cf).
Proof. reflexivity. Qed.

Lemma write_at_inside d p bs : 0 <= p -> p + zlen bs <= zlen d ->
  write_at d p bs = ztake p d ++ bs ++ zdrop (p + zlen bs) d.
Proof.
  intros. unfold write_at. pose proof (zlen_nonneg bs). destruct (zlen d <? p) eqn:E; [lia|reflexivity].
Qed.
Lemma write_at_end d bs : write_at d (zlen d) bs = d ++ bs.
Proof.
  unfold write_at. pose proof (zlen_nonneg bs). destruct (zlen d <? zlen d) eqn:E; [lia|].
  rewrite ztake_all by lia. rewrite zdrop_all by lia. rewrite app_nil_r. reflexivity.
Qed.

(* CPS step lemmas *)
Lemma step_seek_end {A} (k : M A) d p : ((f_seek 0 2) ;; k) (mkF d p cf) = k (mkF d (zlen d) cf).
Proof. unfold bind at 1. rewrite run_seek_end0. reflexivity. Qed.
Lemma step_seek_abs {A} (k : M A) d p off : 0 <= off -> ((f_seek off 0) ;; k) (mkF d p cf) = k (mkF d off cf).
Proof. intros. unfold bind at 1. rewrite run_seek_abs by assumption. reflexivity. Qed.
Lemma step_tell {A} (k : Z -> M A) d p : (x <- f_tell ;; k x) (mkF d p cf) = k p (mkF d p cf).
Proof. reflexivity. Qed.
Lemma step_flush {A} (k : M A) s : fcfg_of s = cf -> (f_flush ;; k) s = k s.
Proof. destruct s as [d p c]; cbn; intros ->. reflexivity. Qed.
End Steps.

Lemma step_guard {A} (c : bool) e (k : M A) s :
  (_ <- (if c then raise e else ret tt) ;; k) s = if c then (Raise e, s) else k s.
Proof. destruct c; reflexivity. Qed.
Lemma step_ret {A B} (a : A) (k : A -> M B) s : (x <- ret a ;; k x) s = k a s.
Proof. reflexivity. Qed.
Lemma bind_ok {A B} (m : M A) (k : A -> M B) s a s' : m s = (Ok a, s') -> (x <- m ;; k x) s = k a s'.
Proof. intros H; unfold bind; rewrite H; reflexivity. Qed.
Lemma bind_raise {A B} (m : M A) (k : A -> M B) s e s' : m s = (Raise e, s') -> (x <- m ;; k x) s = (Raise e, s').
Proof. intros H; unfold bind; rewrite H; reflexivity. Qed.
Lemma bind_assoc_if {A B} (c : bool) (m1 m2 : M A) (k : A -> M B) s :
  (x <- (if c then m1 else m2) ;; k x) s = if c then (x <- m1 ;; k x) s else (x <- m2 ;; k x) s.
Proof. destruct c; reflexivity. Qed.
Lemma bind_if_c {A B} (c : bool) (m1 m2 : M A) (k : M B) s :
  ((if c then m1 else m2) ;; k) s = if c then (m1 ;; k) s else (m2 ;; k) s.
Proof. destruct c; reflexivity. Qed.
