(* Unsigned big-/little-endian integer codecs of Base.Py (struct '<I' '>I' '<Q' '>Q'): round trips for every
   width (used for widths 4 and 8), with the range hypotheses explicit; plus the list-segment lemmas the
   IFF / DSF family proofs share. *)
From Coq Require Import ZArith List Bool Lia.
Import ListNotations.
Require Import Base.Py Base.ZList.
Open Scope Z_scope.

(* ------------------------------------------------------------------ little endian *)
Lemma le_encode_length n v : length (le_encode n v) = n.
Proof. revert v; induction n; intros v; cbn [le_encode length]; [reflexivity | rewrite IHn; reflexivity]. Qed.
Lemma le_encode_zlen n v : zlen (le_encode n v) = Z.of_nat n.
Proof. unfold zlen. rewrite le_encode_length. reflexivity. Qed.

Lemma pow256_S n : 256 ^ Z.of_nat (S n) = 256 * 256 ^ Z.of_nat n.
Proof. rewrite Nat2Z.inj_succ. rewrite Z.pow_succ_r by lia. reflexivity. Qed.

Lemma le_decode_encode n v : 0 <= v < 256 ^ Z.of_nat n -> le_decode (le_encode n v) = v.
Proof.
  revert v; induction n; intros v Hv.
  - cbn in Hv. cbn [le_encode le_decode]. lia.
  - rewrite pow256_S in Hv. cbn [le_encode le_decode].
    rewrite IHn.
    + pose proof (Z.div_mod v 256 ltac:(lia)). lia.
    + split; [apply Z.div_pos; lia|]. apply Z.div_lt_upper_bound; lia.
Qed.

Lemma le_encode_bytes n v : all_bytes (le_encode n v) = true.
Proof.
  revert v; induction n; intros v; cbn [le_encode]; [reflexivity|].
  unfold all_bytes in *. cbn [forallb]. rewrite IHn. rewrite andb_true_r.
  unfold is_byte. pose proof (Z.mod_pos_bound v 256 ltac:(lia)).
  apply andb_true_iff; split; [apply Z.leb_le | apply Z.ltb_lt]; lia.
Qed.

Lemma all_bytes_cons b l : all_bytes (b :: l) = true <-> (0 <= b < 256) /\ all_bytes l = true.
Proof.
  unfold all_bytes. cbn [forallb]. rewrite andb_true_iff. unfold is_byte. rewrite andb_true_iff.
  rewrite Z.leb_le, Z.ltb_lt. tauto.
Qed.

Lemma le_decode_range l : all_bytes l = true -> 0 <= le_decode l < 256 ^ Z.of_nat (length l).
Proof.
  induction l as [|b l IH]; intros H.
  - cbn. lia.
  - apply all_bytes_cons in H as [Hb Hl]. specialize (IH Hl).
    cbn [le_decode length]. rewrite pow256_S. lia.
Qed.

Lemma le_encode_decode l : all_bytes l = true -> le_encode (length l) (le_decode l) = l.
Proof.
  induction l as [|b l IH]; intros H; [reflexivity|].
  apply all_bytes_cons in H as [Hb Hl]. specialize (IH Hl).
  cbn [length le_encode le_decode].
  assert (E1 : (b + 256 * le_decode l) mod 256 = b).
  { rewrite (Z.mul_comm 256). rewrite Z.mod_add by lia. apply Z.mod_small; lia. }
  assert (E2 : (b + 256 * le_decode l) / 256 = le_decode l).
  { rewrite (Z.mul_comm 256). rewrite Z.div_add by lia. rewrite Z.div_small by lia. lia. }
  rewrite E1, E2, IH. reflexivity.
Qed.

(* ------------------------------------------------------------------ big endian *)
Lemma be_decode_acc_app acc l b : be_decode_acc acc (l ++ [b]) = be_decode_acc acc l * 256 + b.
Proof. revert acc; induction l as [|x l IH]; intros acc; cbn [app be_decode_acc]; [reflexivity | apply IH]. Qed.

Lemma be_decode_rev l : be_decode (rev l) = le_decode l.
Proof.
  unfold be_decode. induction l as [|b l IH]; [reflexivity|].
  cbn [rev le_decode]. rewrite be_decode_acc_app, IH. lia.
Qed.

Lemma all_bytes_rev l : all_bytes (rev l) = all_bytes l.
Proof.
  unfold all_bytes. induction l as [|b l IH]; [reflexivity|].
  cbn [rev forallb]. rewrite forallb_app, IH. cbn [forallb]. rewrite andb_true_r. apply andb_comm.
Qed.

Lemma be_encode_zlen n v : zlen (be_encode n v) = Z.of_nat n.
Proof. unfold be_encode. rewrite zlen_rev. apply le_encode_zlen. Qed.
Lemma be_decode_encode n v : 0 <= v < 256 ^ Z.of_nat n -> be_decode (be_encode n v) = v.
Proof. intros. unfold be_encode. rewrite be_decode_rev. apply le_decode_encode; assumption. Qed.
Lemma be_encode_bytes n v : all_bytes (be_encode n v) = true.
Proof. unfold be_encode. rewrite all_bytes_rev. apply le_encode_bytes. Qed.
Lemma be_decode_range l : all_bytes l = true -> 0 <= be_decode l < 256 ^ Z.of_nat (length l).
Proof.
  intros H. assert (E : be_decode l = le_decode (rev l)) by (rewrite <- be_decode_rev, rev_involutive; reflexivity).
  rewrite E. rewrite <- (rev_length l). apply le_decode_range. rewrite all_bytes_rev. exact H.
Qed.
Lemma be_encode_decode l : all_bytes l = true -> be_encode (length l) (be_decode l) = l.
Proof.
  intros H. assert (E : be_decode l = le_decode (rev l)) by (rewrite <- be_decode_rev, rev_involutive; reflexivity).
  unfold be_encode. rewrite E. rewrite <- (rev_length l). rewrite le_encode_decode by (rewrite all_bytes_rev; exact H).
  apply rev_involutive.
Qed.

(* ------------------------------------------------------------------ list segments *)
Lemma ztake_app_len {A} (a b : list A) n : n = zlen a -> ztake n (a ++ b) = a.
Proof. intros ->. apply ztake_app_exact. Qed.
Lemma zdrop_app_len {A} (a b : list A) n : n = zlen a -> zdrop n (a ++ b) = b.
Proof. intros ->. apply zdrop_app_exact. Qed.
Lemma zslice_mid {A} (pre x post : list A) a b :
  a = zlen pre -> b = zlen pre + zlen x -> zslice a b (pre ++ x ++ post) = x.
Proof.
  intros -> ->. unfold zslice. rewrite zdrop_app_exact. apply ztake_app_len. lia.
Qed.
Lemma zslice_head {A} (x post : list A) b : b = zlen x -> zslice 0 b (x ++ post) = x.
Proof. intros ->. unfold zslice. rewrite zdrop_0, Z.sub_0_r. apply ztake_app_exact. Qed.
Lemma zlen_zslice {A} a b (l : list A) : 0 <= a <= b -> b <= zlen l -> zlen (zslice a b l) = b - a.
Proof.
  intros H1 H2. unfold zslice. rewrite zlen_ztake by lia. rewrite zlen_zdrop by lia. lia.
Qed.
(* cutting a list at a and b *)
Lemma zdrop_split {A} a b (l : list A) : 0 <= a <= b -> zdrop a l = zslice a b l ++ zdrop b l.
Proof.
  intros H. unfold zslice. replace (zdrop b l) with (zdrop (b - a) (zdrop a l)).
  - symmetry. apply ztake_zdrop.
  - rewrite zdrop_zdrop by lia. f_equal. lia.
Qed.
Lemma ztake_as_slice {A} n (l : list A) : ztake n l = zslice 0 n l.
Proof. unfold zslice. rewrite zdrop_0, Z.sub_0_r. reflexivity. Qed.
Lemma list_split3 {A} a b (l : list A) : 0 <= a <= b -> l = ztake a l ++ zslice a b l ++ zdrop b l.
Proof.
  intros H. rewrite <- zdrop_split by lia. symmetry. apply ztake_zdrop.
Qed.
Lemma zslice_zslice_empty {A} a (l : list A) : zslice a a l = [].
Proof. unfold zslice. rewrite Z.sub_diag. reflexivity. Qed.

Lemma list_eqb_refl l : list_eqb l l = true.
Proof. apply list_eqb_spec. reflexivity. Qed.
Lemma list_eqb_false a b : list_eqb a b = false <-> a <> b.
Proof.
  split.
  - intros H E. apply list_eqb_spec in E. congruence.
  - intros H. destruct (list_eqb a b) eqn:E; [|reflexivity]. apply list_eqb_spec in E. contradiction.
Qed.
