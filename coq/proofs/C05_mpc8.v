(* C05 -- Musepack SV8: variable-length integers of every size up to 9 bytes are parsed back, and the
   SH / RG packets of the stream header yield the encoded values. *)
From Coq Require Import ZArith List Bool Lia.
Import ListNotations.
Require Import Base.Py Base.ZList Model.InfoBase Model.InfoSimple Model.InfoMpc Gen.Gen_tables Proofs.C05_bits Proofs.C05_ogg.
Open Scope Z_scope.

Lemma pow128_pos k : 0 < 128 ^ Z.of_nat k.
Proof. apply Z.pow_pos_nonneg; lia. Qed.
Lemma pow128_succ k : 128 ^ Z.of_nat (S k) = 128 ^ Z.of_nat k * 128.
Proof. rewrite Nat2Z.inj_succ, Z.pow_succ_r by lia. ring. Qed.

(* _parse_sv8_int reads back k+1 groups *)
Lemma sv8_parse_varint_k : forall k limit n num i rest, (k < limit)%nat -> 0 <= n -> 0 <= num ->
  sv8_parse_int_loop limit num i (sv8_varint_k k n ++ rest) =
  Ok (num * 128 ^ Z.of_nat (S k) + n mod 128 ^ Z.of_nat (S k), i + Z.of_nat (S k), rest).
Proof.
  induction k as [|k IH]; intros limit n num i rest Hl Hn Hnum.
  - destruct limit as [|limit]; [lia|]. cbn [sv8_varint_k app sv8_parse_int_loop].
    assert (H1 : (n mod 128) mod 128 = n mod 128) by lia. rewrite H1.
    rewrite if_true by lia. change (128 ^ Z.of_nat 1) with 128. change (Z.of_nat 1) with 1. reflexivity.
  - destruct limit as [|limit]; [lia|]. cbn [sv8_varint_k app sv8_parse_int_loop].
    set (P := 128 ^ Z.of_nat (S k)). assert (HP : 0 < P) by apply pow128_pos.
    assert (H1 : (128 + (n / P) mod 128) mod 128 = (n / P) mod 128) by lia. rewrite H1.
    rewrite if_false by lia.
    rewrite IH by lia. fold P.
    rewrite (pow128_succ (S k)). fold P.
    assert (Hmod : n mod (P * 128) = n mod P + P * ((n / P) mod 128)) by (apply Z.rem_mul_r; lia).
    rewrite Hmod. replace (i + 1 + Z.of_nat (S k)) with (i + Z.of_nat (S (S k))) by lia.
    replace ((num * 128 + (n / P) mod 128) * P + n mod P) with (num * (P * 128) + (n mod P + P * ((n / P) mod 128))) by ring.
    reflexivity.
Qed.

Lemma sv8_groups_spec : forall fuel n, 0 <= n < 128 ^ Z.of_nat fuel -> (1 <= fuel)%nat ->
  n < 128 ^ Z.of_nat (S (sv8_groups fuel n)) /\ (sv8_groups fuel n < fuel)%nat.
Proof.
  induction fuel as [|fuel IH]; intros n Hn Hf; [lia|].
  cbn [sv8_groups]. destruct (n <? 128) eqn:E.
  - change (128 ^ Z.of_nat 1) with 128. lia.
  - destruct fuel as [|fuel].
    + change (128 ^ Z.of_nat 1) with 128 in Hn. lia.
    + rewrite pow128_succ in Hn. pose proof (pow128_pos (S fuel)) as HP.
      destruct (IH (n / 128)) as [A B]; [split; [apply Z.div_pos; lia | apply Z.div_lt_upper_bound; lia] | lia |].
      split; [|lia].
      rewrite pow128_succ. remember (128 ^ Z.of_nat (S (sv8_groups (S fuel) (n / 128)))) as Q. lia.
Qed.

Lemma sv8_varint_k_length k n : length (sv8_varint_k k n) = S k.
Proof. induction k as [|k IH]; cbn [sv8_varint_k length]; [reflexivity | rewrite IH; reflexivity]. Qed.

Definition sv8_len (n : Z) : Z := Z.of_nat (S (sv8_groups 9 n)).
Lemma sv8_varint_zlen n : zlen (sv8_varint n) = sv8_len n.
Proof. unfold zlen, sv8_varint, sv8_len. rewrite sv8_varint_k_length. reflexivity. Qed.
Lemma sv8_len_range n : 0 <= n < 9223372036854775808 -> 1 <= sv8_len n <= 9.
Proof.
  intros H. unfold sv8_len. destruct (sv8_groups_spec 9 n) as [_ B]; [change (128 ^ Z.of_nat 9) with 9223372036854775808; lia | lia |]. lia.
Qed.

(* every value below 2^63 (9 groups of 7 bits) is written and read back *)
Theorem sv8_varint_parse n rest : 0 <= n < 9223372036854775808 ->
  sv8_parse_int (sv8_varint n ++ rest) = Ok (n, sv8_len n, rest).
Proof.
  intros H. unfold sv8_parse_int, sv8_varint, sv8_len.
  destruct (sv8_groups_spec 9 n) as [A B]; [change (128 ^ Z.of_nat 9) with 9223372036854775808; lia | lia |].
  rewrite sv8_parse_varint_k by lia.
  rewrite Z.mod_small by lia. f_equal.
Qed.

Lemma sv8_varint_small s : 0 <= s < 128 -> sv8_varint s = [s].
Proof.
  intros H. unfold sv8_varint. cbn [sv8_groups]. rewrite if_true by lia. cbn [sv8_varint_k].
  rewrite Z.mod_small by lia. reflexivity.
Qed.

Definition s16 (v : Z) : Z := to_signed 65536 v.

Lemma sv8_sh_payload_zlen crc samples silence rate_idx max_bands channels ms block_pwr :
  zlen (sv8_sh_payload crc samples silence rate_idx max_bands channels ms block_pwr) = 7 + sv8_len samples + sv8_len silence.
Proof.
  unfold sv8_sh_payload. rewrite !zlen_app, !sv8_varint_zlen.
  change (zlen (be_encode 4 crc)) with 4. change (zlen [8]) with 1.
  change (zlen [rate_idx * 32 + (max_bands - 1)]) with 1. change (zlen [(channels - 1) * 16 + ms * 8 + block_pwr]) with 1. lia.
Qed.

Lemma sv8_parse_sh_spec st crc samples silence rate_idx max_bands channels ms block_pwr tail :
  0 <= samples < 9223372036854775808 -> 0 <= silence < 9223372036854775808 -> 0 <= rate_idx <= 3 ->
  1 <= max_bands <= 32 -> 1 <= channels <= 16 -> 0 <= ms <= 1 -> 0 <= block_pwr <= 7 ->
  sv8_parse_sh st (sv8_sh_payload crc samples silence rate_idx max_bands channels ms block_pwr ++ tail)
               (7 + sv8_len samples + sv8_len silence) =
  Ok (mkSv8 true (s8_rg st) 8 (samples - silence) (nth (Z.to_nat rate_idx) spec_musepack_rates 0) channels
            (s8_tg st) (s8_tp st) (s8_ag st) (s8_ap st), tail).
Proof.
  intros H1 H2 H3 H4 H5 H6 H7.
  unfold sv8_parse_sh, sv8_sh_payload.
  rewrite <- !app_assoc.
  change (skipn 4 (be_encode 4 crc ++ [8] ++ sv8_varint samples ++ sv8_varint silence ++
                   [rate_idx * 32 + (max_bands - 1)] ++ [(channels - 1) * 16 + ms * 8 + block_pwr] ++ tail))
    with ([8] ++ sv8_varint samples ++ sv8_varint silence ++
          [rate_idx * 32 + (max_bands - 1)] ++ [(channels - 1) * 16 + ms * 8 + block_pwr] ++ tail).
  cbn [app]. rewrite sv8_varint_parse by lia. rewrite sv8_varint_parse by lia.
  pose proof (sv8_len_range samples H1). pose proof (sv8_len_range silence H2).
  replace (7 + sv8_len samples + sv8_len silence - 4 - 1 - (sv8_len samples + sv8_len silence)) with 2 by lia.
  change (2 <? 0) with false. cbv iota.
  change (rate_idx * 32 + (max_bands - 1) :: (channels - 1) * 16 + ms * 8 + block_pwr :: tail)
    with ([rate_idx * 32 + (max_bands - 1); (channels - 1) * 16 + ms * 8 + block_pwr] ++ tail).
  rewrite ztake_c_app by reflexivity. rewrite zdrop_c_app by reflexivity.
  change (zlen [rate_idx * 32 + (max_bands - 1); (channels - 1) * 16 + ms * 8 + block_pwr]) with 2.
  change (negb (2 =? 2) || (2 <? 2)) with false. cbv iota.
  unfold byte_at. cbn [skipn].
  assert (Hr : (rate_idx * 32 + (max_bands - 1)) / 32 = rate_idx) by lia.
  assert (Hc : ((channels - 1) * 16 + ms * 8 + block_pwr) / 16 + 1 = channels) by lia.
  rewrite Hr, Hc.
  replace gen_musepack_rates with spec_musepack_rates by reflexivity.
  rewrite idx_in by (change (zlen spec_musepack_rates) with 4; lia).
  reflexivity.
Qed.

Lemma sv8_parse_rg_spec st tg tp ag ap tail :
  0 <= tg < 65536 -> 0 <= tp < 65536 -> 0 <= ag < 65536 -> 0 <= ap < 65536 ->
  sv8_parse_rg st (sv8_rg_payload tg tp ag ap ++ tail) 9 =
  Ok (mkSv8 (s8_sh st) true (s8_version st) (s8_samples st) (s8_rate st) (s8_channels st) (s16 tg) (s16 tp) (s16 ag) (s16 ap), tail).
Proof.
  intros H1 H2 H3 H4. unfold sv8_parse_rg.
  change (9 <? 9) with false. cbv iota.
  rewrite ztake_c_app by reflexivity. rewrite zdrop_c_app by reflexivity.
  change (zlen (sv8_rg_payload tg tp ag ap)) with 9. change (negb (9 =? 9)) with false. cbv iota.
  unfold sv8_rg_payload, s16. layout. decode_encode. reflexivity.
Qed.

Theorem mpc8_header crc samples silence rate_idx max_bands channels ms block_pwr tg tp ag ap :
  0 <= crc < 4294967296 -> 0 <= samples < 9223372036854775808 -> 0 <= silence < 9223372036854775808 ->
  0 <= rate_idx <= 3 -> 1 <= max_bands <= 32 -> 1 <= channels <= 16 -> 0 <= ms <= 1 -> 0 <= block_pwr <= 7 ->
  0 <= tg < 65536 -> 0 <= tp < 65536 -> 0 <= ag < 65536 -> 0 <= ap < 65536 ->
  decode_mpc (build_mpc8 crc samples silence rate_idx max_bands channels ms block_pwr tg tp ag ap) =
  let rate := nth (Z.to_nat rate_idx) spec_musepack_rates 0 in
  Ok [8; 8; channels; rate; samples - silence; rate; s16 tg; s16 tp; s16 ag; s16 ap].
Proof.
  intros H0 H1 H2 H3 H4 H5 H6 H7 H8 H9 H10 H11.
  pose proof (sv8_len_range samples H1) as L1. pose proof (sv8_len_range silence H2) as L2.
  unfold decode_mpc, build_mpc8, ascii_MPCK.
  set (SH := sv8_sh_payload crc samples silence rate_idx max_bands channels ms block_pwr).
  set (RG := sv8_rg_payload tg tp ag ap).
  assert (HSH : zlen SH = 7 + sv8_len samples + sv8_len silence) by apply sv8_sh_payload_zlen.
  unfold sv8_packet.
  rewrite (sv8_varint_small (zlen SH + 3)) by lia.
  change (zlen RG + 3) with 12. rewrite (sv8_varint_small 12) by lia.
  unfold key_SH, key_RG, key_AP.
  change (sub_at 0 4 ([77; 80; 67; 75] ++ ([83; 72] ++ [zlen SH + 3] ++ SH) ++ ([82; 71] ++ [12] ++ RG) ++ [65; 80] ++ [3]))
    with [77; 80; 67; 75].
  change (zlen [77; 80; 67; 75] =? 4) with true. cbn [negb].
  change (list_eqb (firstn 3 [77; 80; 67; 75]) ascii_ID3) with false. cbv iota.
  change (starts_with [77; 80; 67; 75] [77; 80; 67; 75]) with true. cbv iota.
  assert (Hd : zdrop_c (0 + 4) ([77; 80; 67; 75] ++ ([83; 72] ++ [zlen SH + 3] ++ SH) ++ ([82; 71] ++ [12] ++ RG) ++ [65; 80] ++ [3]) =
               [83; 72] ++ [zlen SH + 3] ++ SH ++ ([82; 71] ++ [12] ++ RG ++ [65; 80; 3])).
  { rewrite zdrop_c_app by reflexivity. rewrite <- !app_assoc. reflexivity. }
  rewrite Hd. clear Hd.
  unfold decode_mpc_sv8.
  change (firstn 2 ([83; 72] ++ [zlen SH + 3] ++ SH ++ [82; 71] ++ [12] ++ RG ++ [65; 80; 3])) with [83; 72].
  change (sv8_key_ok [83; 72]) with true. cbn [negb].
  change (skipn 2 ([83; 72] ++ [zlen SH + 3] ++ SH ++ [82; 71] ++ [12] ++ RG ++ [65; 80; 3]))
    with ((zlen SH + 3) :: SH ++ [82; 71] ++ [12] ++ RG ++ [65; 80; 3]).
  remember (length ([83; 72] ++ [zlen SH + 3] ++ SH ++ [82; 71] ++ [12] ++ RG ++ [65; 80; 3])) as L eqn:EL.
  assert (HL : (3 <= L)%nat) by (subst L; rewrite !app_length; cbn [length]; lia).
  destruct L as [|[|[|L]]]; try lia. clear EL HL.
  (* first packet: SH *)
  cbn [sv8_loop].
  change (list_eqb [83; 72] key_AP) with false. change (list_eqb [83; 72] key_SE) with false. cbn [orb andb s8_sh s8_rg].
  unfold sv8_parse_int at 1. cbn [sv8_parse_int_loop].
  rewrite if_true by lia.
  replace (0 * 128 + (zlen SH + 3) mod 128 - 2 - (0 + 1)) with (7 + sv8_len samples + sv8_len silence) by lia.
  rewrite (if_false (7 + sv8_len samples + sv8_len silence <? 0)) by lia.
  change (list_eqb [83; 72] key_SH) with true. cbv iota.
  unfold SH at 1. rewrite sv8_parse_sh_spec by assumption.
  cbn [s8_rg s8_tg s8_tp s8_ag s8_ap].
  change (firstn 2 ([82; 71] ++ [12] ++ RG ++ [65; 80; 3])) with [82; 71].
  change (sv8_key_ok [82; 71]) with true. cbn [negb].
  change (skipn 2 ([82; 71] ++ [12] ++ RG ++ [65; 80; 3])) with (12 :: RG ++ [65; 80; 3]).
  (* second packet: RG *)
  cbn [sv8_loop].
  change (list_eqb [82; 71] key_AP) with false. change (list_eqb [82; 71] key_SE) with false. cbn [orb andb s8_sh s8_rg].
  unfold sv8_parse_int at 1. cbn [sv8_parse_int_loop].
  change (12 / 128 =? 0) with true. cbv iota.
  change (0 * 128 + 12 mod 128 - 2 - (0 + 1)) with 9.
  change (9 <? 0) with false. cbv iota.
  change (list_eqb [82; 71] key_SH) with false. change (list_eqb [82; 71] key_RG) with true. cbv iota.
  unfold RG at 1. rewrite sv8_parse_rg_spec by assumption.
  cbn [s8_sh s8_version s8_samples s8_rate s8_channels].
  change (firstn 2 [65; 80; 3]) with [65; 80]. change (sv8_key_ok [65; 80]) with true. cbn [negb].
  cbn [sv8_loop skipn].
  change (list_eqb [65; 80] key_AP) with true. cbn [orb].
  cbn [s8_sh s8_rg andb negb s8_rate s8_version s8_channels s8_samples s8_tg s8_tp s8_ag s8_ap rmap].
  assert (Hpos : 0 < nth (Z.to_nat rate_idx) spec_musepack_rates 0).
  { assert (In rate_idx [0;1;2;3]) as Hin by (cbn [In]; lia).
    cbn [In] in Hin. repeat (destruct Hin as [<-|Hin]; [vm_compute; reflexivity|]). contradiction. }
  rewrite if_false by lia. reflexivity.
Qed.

(* rate indices 4..7 have no table row: rejected *)
Theorem mpc8_bad_rate_index st crc samples silence rate_idx max_bands channels ms block_pwr tail :
  0 <= samples < 9223372036854775808 -> 0 <= silence < 9223372036854775808 -> 4 <= rate_idx <= 7 ->
  1 <= max_bands <= 32 -> 1 <= channels <= 16 -> 0 <= ms <= 1 -> 0 <= block_pwr <= 7 ->
  sv8_parse_sh st (sv8_sh_payload crc samples silence rate_idx max_bands channels ms block_pwr ++ tail)
               (7 + sv8_len samples + sv8_len silence) = Raise EMutagen.
Proof.
  intros H1 H2 H3 H4 H5 H6 H7.
  unfold sv8_parse_sh, sv8_sh_payload.
  rewrite <- !app_assoc.
  change (skipn 4 (be_encode 4 crc ++ [8] ++ sv8_varint samples ++ sv8_varint silence ++
                   [rate_idx * 32 + (max_bands - 1)] ++ [(channels - 1) * 16 + ms * 8 + block_pwr] ++ tail))
    with ([8] ++ sv8_varint samples ++ sv8_varint silence ++
          [rate_idx * 32 + (max_bands - 1)] ++ [(channels - 1) * 16 + ms * 8 + block_pwr] ++ tail).
  cbn [app]. rewrite sv8_varint_parse by lia. rewrite sv8_varint_parse by lia.
  pose proof (sv8_len_range samples H1). pose proof (sv8_len_range silence H2).
  replace (7 + sv8_len samples + sv8_len silence - 4 - 1 - (sv8_len samples + sv8_len silence)) with 2 by lia.
  change (2 <? 0) with false. cbv iota.
  change (rate_idx * 32 + (max_bands - 1) :: (channels - 1) * 16 + ms * 8 + block_pwr :: tail)
    with ([rate_idx * 32 + (max_bands - 1); (channels - 1) * 16 + ms * 8 + block_pwr] ++ tail).
  rewrite ztake_c_app by reflexivity. rewrite zdrop_c_app by reflexivity.
  change (zlen [rate_idx * 32 + (max_bands - 1); (channels - 1) * 16 + ms * 8 + block_pwr]) with 2.
  change (negb (2 =? 2) || (2 <? 2)) with false. cbv iota.
  unfold byte_at. cbn [skipn].
  assert (Hr : (rate_idx * 32 + (max_bands - 1)) / 32 = rate_idx) by lia. rewrite Hr.
  unfold idx. change (zlen gen_musepack_rates) with 4. rewrite if_false by lia. reflexivity.
Qed.
