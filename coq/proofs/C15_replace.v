(* C15 (e): OggPage.replace end to end on a file made of rendered pages: byte level, page level, and read by
   logical stream (other streams untouched, edited stream gapless) *)
From Coq Require Import ZArith List Bool Lia.
Import ListNotations.
Require Import Base.Py Base.ZList Base.FileModel Model.Crc Model.Ogg Proofs.C15_lacing Proofs.C15_page Proofs.C15_unpage
  Proofs.C15_paging Proofs.C15_from_packets Proofs.C15_file.
Open Scope Z_scope.

(* ---- replace, end to end ------------------------------------------------------------------------ *)
(* the run of old pages: each old page with the (well-formed) pages that follow it before the next old page;
   the last entry's followers reach to the end of the file *)
Definition run_t := list (page * list page).

Fixpoint mk_slots (run : run_t) (datas : list (list Z)) : list slot :=
  match run, datas with
  | (o, G) :: r, d :: ds => mkSlot (page_bytes o) d (render_all G) :: mk_slots r ds
  | _, _ => []
  end.
(* the old_pages argument: pages with the offsets they were read from *)
Fixpoint old_args (base : Z) (run : run_t) : list (Z * page) :=
  match run with
  | [] => []
  | (o, G) :: r => (base, o) :: old_args (base + page_size o + zlen (render_all G)) r
  end.

Lemma mk_slots_new run : forall datas, length datas = length run -> map slot_new (mk_slots run datas) = datas.
Proof.
  induction run as [|[o G] r IH]; intros [|d ds] H; try reflexivity; try discriminate.
  cbn [mk_slots map slot_new]. f_equal. apply IH. cbn [length] in H. lia.
Qed.
Lemma mk_slots_olds run : forall datas base, length datas = length run ->
  slot_olds base (mk_slots run datas) = map (fun op => (fst op, page_size (snd op))) (old_args base run).
Proof.
  induction run as [|[o G] r IH]; intros [|d ds] base H; try reflexivity; try discriminate.
  cbn [mk_slots slot_olds old_args map fst snd slot_old slot_gap]. rewrite page_bytes_len. f_equal.
  apply IH. cbn [length] in H. lia.
Qed.
Lemma mk_slots_snoc a x da d : length da = length a ->
  mk_slots (a ++ [x]) (da ++ [d]) = mk_slots a da ++ [mkSlot (page_bytes (fst x)) d (render_all (snd x))].
Proof.
  revert da; induction a as [|[o G] r IH]; intros [|d0 ds] H; try discriminate.
  - destruct x. reflexivity.
  - cbn [app mk_slots]. f_equal. apply IH. cbn [length] in H. lia.
Qed.
Lemma zlen_old_args base run : zlen (old_args base run) = zlen run.
Proof.
  revert base; induction run as [|[o G] r IH]; intros base; [reflexivity|].
  cbn [old_args]. rewrite !zlen_cons, IH. reflexivity.
Qed.
Lemma last_old_args run : forall base d, run <> [] -> snd (last (old_args base run) d) = fst (last run (snd d, [])).
Proof.
  induction run as [|[o G] r IH]; intros base d H; [contradiction|].
  destruct r as [|[o2 G2] r2]; [reflexivity|].
  change (old_args base ((o, G) :: (o2, G2) :: r2))
    with ((base, o) :: old_args (base + page_size o + zlen (render_all G)) ((o2, G2) :: r2)).
  change (last ((o, G) :: (o2, G2) :: r2) (snd d, [])) with (last ((o2, G2) :: r2) (snd d, [])).
  rewrite <- (IH (base + page_size o + zlen (render_all G)) d) by discriminate.
  cbn [old_args]. reflexivity.
Qed.

Lemma new_layout_snoc a s : new_layout (a ++ [s]) = new_layout a ++ slot_new s ++ slot_gap s.
Proof. unfold new_layout. rewrite map_app, concat_app. cbn [map concat]. rewrite app_nil_r. reflexivity. Qed.
Lemma new_end_from_snoc a s : forall p ne,
  new_end_from p ne (a ++ [s]) = p + zlen (new_layout a) + zlen (slot_new s).
Proof.
  induction a as [|x a IH]; intros p ne.
  - cbn. lia.
  - cbn [app new_end_from]. rewrite IH. unfold new_layout. cbn [map concat]. rewrite !zlen_app. lia.
Qed.

Lemma map_result_write l : Forall (fun p => header_ok p = true /\ lacing_count p <= 255) l ->
  map_result page_write l = Ok (map page_bytes l).
Proof.
  induction l as [|p r IH]; intros H; [reflexivity|]. inversion H as [|? ? (H1 & H2) Hr]; subst.
  cbn [map_result map]. rewrite (page_write_ok p H1 H2), (IH Hr). reflexivity.
Qed.

Lemma zlen_fit_slots n datas : 1 <= n -> datas <> [] -> zlen (fit_slots n datas) = n.
Proof.
  intros Hn Hd. unfold fit_slots. pose proof (zlen_nonneg datas).
  assert (0 < zlen datas) by (destruct datas; [contradiction|rewrite zlen_cons; pose proof (zlen_nonneg datas); lia]).
  destruct (0 <? n - zlen datas) eqn:E1.
  - rewrite zlen_app, zlen_repeat. lia.
  - destruct (n - zlen datas <? 0) eqn:E2.
    + rewrite zlen_app, zlen_ztake by lia. cbn. lia.
    + lia.
Qed.

Lemma seq_from_last s l d : seq_from s l -> l <> [] -> p_sequence (last l d) = s + zlen l - 1.
Proof.
  revert s; induction l as [|p r IH]; intros s H Hne; [contradiction|].
  destruct H as (H1 & H2). destruct r as [|q r'].
  - cbn. lia.
  - change (last (p :: q :: r') d) with (last (q :: r') d). rewrite (IH (s + 1) H2) by discriminate.
    rewrite (zlen_cons p). lia.
Qed.
Lemma Forall_last {A} (P : A -> Prop) l d : Forall P l -> l <> [] -> P (last l d).
Proof.
  induction l as [|x r IH]; intros H Hne; [contradiction|]. inversion H; subst.
  destruct r; [assumption|]. apply IH; [assumption|discriminate].
Qed.
Lemma map_last_cons {A} (g : A -> A) y r : r <> [] -> map_last g (y :: r) = y :: map_last g r.
Proof. destruct r; [contradiction|reflexivity]. Qed.
Lemma map_last_snoc {A} (g : A -> A) a x : map_last g (a ++ [x]) = a ++ [g x].
Proof.
  induction a as [|y a IH]; [reflexivity|]. cbn [app].
  rewrite map_last_cons by (destruct a; discriminate). rewrite IH. reflexivity.
Qed.

Lemma last_default {A} (l : list A) d d' : l <> [] -> last l d = last l d'.
Proof. induction l as [|x r IH]; [contradiction|]. intros _. destruct r; [reflexivity|]. apply IH. discriminate. Qed.

(* renumbering applied to the pages that follow the last old page *)
Definition renumber_tail (serial number : Z) (run : run_t) : run_t :=
  map_last (fun og => (fst og, renumber_pages serial number (snd og))) run.

Theorem replace_spec pre (run : run_t) news :
  run <> [] -> news <> [] ->
  Forall (fun og => Forall page_wf (snd og)) run ->
  let old0 := fst (hd (new_page, []) run) in
  let oldl := fst (last run (new_page, [])) in
  let prepared := prepare_new old0 oldl news in
  Forall (fun p => header_ok p = true /\ lacing_count p <= 255) prepared ->
  0 <= p_sequence old0 -> p_sequence old0 + zlen news + zlen (snd (last run (new_page, []))) <= two32 ->
  let datas := fit_slots (zlen run) (map page_bytes prepared) in
  replace (pre ++ old_layout (mk_slots run datas)) (old_args (zlen pre) run) news =
    (Ok tt,
     pre ++ new_layout (mk_slots (if zlen run =? zlen news then run
                                  else renumber_tail (p_serial old0) (p_sequence old0 + zlen news) run) datas)).
Proof.
  intros Hrun Hnews HG old0 oldl prepared Hren Hs0 Hs1 datas.
  destruct (prepare_new_spec old0 oldl news Hnews) as (P1 & P2 & P3 & _ & _ & _ & _ & _). fold prepared in P1, P2, P3.
  assert (Hprep : prepared <> []).
  { intros E. rewrite E in P1. destruct news as [|n0 news0]; [contradiction|]. rewrite zlen_cons, zlen_nil in P1.
    pose proof (zlen_nonneg news0). lia. }
  assert (Hn1 : 1 <= zlen run).
  { destruct run; [contradiction|]. rewrite zlen_cons. pose proof (zlen_nonneg run). lia. }
  assert (Hdl : zlen datas = zlen run).
  { apply zlen_fit_slots; [exact Hn1|]. destruct prepared; [contradiction|discriminate]. }
  assert (Hdl' : length datas = length run) by (unfold zlen in Hdl; lia).
  unfold replace.
  assert (Hhead : exists o1 G1 run', run = (o1, G1) :: run').
  { destruct run as [|[o1 G1] run']; [contradiction|]. exists o1, G1, run'. reflexivity. }
  destruct Hhead as (o1 & G1 & run' & Erun).
  assert (Eargs : old_args (zlen pre) run =
                  (zlen pre, o1) :: old_args (zlen pre + page_size o1 + zlen (render_all G1)) run')
    by (rewrite Erun; reflexivity).
  rewrite Eargs.
  assert (Hnh : exists n1 news', news = n1 :: news') by (destruct news as [|n1 news']; [contradiction|exists n1, news'; reflexivity]).
  destruct Hnh as (n1 & news' & Enews). rewrite Enews at 1. rewrite <- Eargs.
  assert (Eold0 : old0 = o1) by (unfold old0; rewrite Erun; reflexivity).
  assert (Eoldl : snd (last (old_args (zlen pre) run) (0, o1)) = oldl).
  { unfold oldl. rewrite (last_old_args run (zlen pre) (0, o1) Hrun). cbn [snd].
    f_equal. apply last_default. exact Hrun. }
  rewrite Eoldl. rewrite <- Eold0. fold prepared.
  rewrite (map_result_write prepared Hren). rewrite zlen_old_args. fold datas.
  rewrite <- (mk_slots_olds run datas (zlen pre) Hdl').
  replace (slot_loop (pre ++ old_layout (mk_slots run datas)) (slot_olds (zlen pre) (mk_slots run datas)) datas 0 0)
    with (slot_loop (pre ++ old_layout (mk_slots run datas)) (slot_olds (zlen pre) (mk_slots run datas))
            (map slot_new (mk_slots run datas)) 0 0)
    by (rewrite (mk_slots_new run datas Hdl'); reflexivity).
  rewrite slot_loop_spec.
  destruct (zlen run =? zlen news) eqn:Ecnt; [reflexivity|].
  (* the page count changed: renumber what follows the last new data *)
  destruct (snoc_cases run) as [->|(a & [on Gn] & Ea)]; [contradiction|].
  destruct (snoc_cases datas) as [Ed|(da & dn & Ed)].
  { rewrite Ed in Hdl. cbn in Hdl. lia. }
  assert (Hla : length da = length a).
  { rewrite Ea, Ed, !app_length in Hdl'. cbn [length] in Hdl'. lia. }
  rewrite Ed, Ea. rewrite (mk_slots_snoc a (on, Gn) da dn Hla). cbn [fst snd].
  unfold new_end_of. rewrite new_end_from_snoc, new_layout_snoc. cbn [slot_new slot_gap].
  assert (Elast : last prepared old0 = last prepared new_page).
  { apply last_default. exact Hprep. }
  rewrite Elast.
  rewrite (seq_from_last (p_sequence old0) prepared new_page P2 Hprep).
  rewrite (Forall_last (fun p => p_serial p = p_serial old0) prepared new_page P3 Hprep).
  replace (pre ++ new_layout (mk_slots a da) ++ dn ++ render_all Gn)
    with ((pre ++ new_layout (mk_slots a da) ++ dn) ++ render_all Gn) by (repeat rewrite <- app_assoc; reflexivity).
  replace (zlen pre + zlen (new_layout (mk_slots a da)) + zlen dn)
    with (zlen (pre ++ new_layout (mk_slots a da) ++ dn)) by (rewrite !zlen_app; lia).
  assert (HGn : Forall page_wf Gn).
  { rewrite Ea in HG. apply Forall_app in HG as [_ HG]. inversion HG as [|? ? Hx Hr]. exact Hx. }
  assert (Hlastrun : snd (last run (new_page, [])) = Gn) by (rewrite Ea, last_last; reflexivity).
  rewrite Hlastrun, P1 in *.
  rewrite renumber_spec; [|exact HGn|pose proof (zlen_nonneg news); lia|lia].
  replace (p_sequence old0 + zlen news - 1 + 1) with (p_sequence old0 + zlen news) by lia.
  unfold renumber_tail. rewrite map_last_snoc. cbn [fst snd].
  rewrite (mk_slots_snoc a (on, renumber_pages (p_serial old0) (p_sequence old0 + zlen news) Gn) da dn Hla).
  rewrite new_layout_snoc. cbn [fst snd slot_new slot_gap]. repeat rewrite <- app_assoc. reflexivity.
Qed.

(* ---- the result of replace read as a page list ----------------------------------------------------- *)
(* new pages go one per old slot; surplus new pages all go into the last slot; surplus slots stay empty *)
Fixpoint interleave (run : run_t) (news : list page) : list page :=
  match run with
  | [] => []
  | (o, G) :: r =>
    match r with
    | [] => news ++ G
    | _ => match news with
           | [] => G ++ interleave r []
           | n :: ns => n :: G ++ interleave r ns
           end
    end
  end.
(* the original file, same reading *)
Definition old_pages_of (run : run_t) : list page := concat (map (fun og => fst og :: snd og) run).

Lemma ztake_cons {A} n (x : A) l : 1 <= n -> ztake n (x :: l) = x :: ztake (n - 1) l.
Proof. intros H. unfold ztake. replace (Z.to_nat n) with (S (Z.to_nat (n - 1))) by lia. reflexivity. Qed.
Lemma zdrop_cons {A} n (x : A) l : 1 <= n -> zdrop n (x :: l) = zdrop (n - 1) l.
Proof. intros H. unfold zdrop. replace (Z.to_nat n) with (S (Z.to_nat (n - 1))) by lia. reflexivity. Qed.

Lemma fit_slots_nil n : 0 <= n -> fit_slots n [] = repeat [] (Z.to_nat n).
Proof.
  intros H. unfold fit_slots. change (zlen (@nil (list Z))) with 0. rewrite Z.sub_0_r. destruct (0 <? n) eqn:E; [reflexivity|].
  assert (n = 0) by lia. subst. reflexivity.
Qed.
Lemma fit_slots_cons n d ds : 1 <= n -> fit_slots (1 + n) (d :: ds) = d :: fit_slots n ds.
Proof.
  intros H. unfold fit_slots. rewrite zlen_cons. replace (1 + n - (1 + zlen ds)) with (n - zlen ds) by lia.
  destruct (0 <? n - zlen ds); [reflexivity|]. destruct (n - zlen ds <? 0); [|reflexivity].
  replace (1 + n - 1) with n by lia. rewrite ztake_cons, zdrop_cons by lia. reflexivity.
Qed.
Lemma fit_slots_one datas : concat (fit_slots 1 datas) = concat datas /\ length (fit_slots 1 datas) = 1%nat.
Proof.
  unfold fit_slots. destruct datas as [|d ds].
  - cbn. split; reflexivity.
  - rewrite zlen_cons. pose proof (zlen_nonneg ds). destruct (0 <? 1 - (1 + zlen ds)) eqn:E1; [lia|].
    destruct (1 - (1 + zlen ds) <? 0) eqn:E2.
    + change (1 - 1) with 0. rewrite ztake_0, zdrop_0. cbn [app concat]. rewrite app_nil_r. split; reflexivity.
    + assert (zlen ds = 0) by lia. destruct ds; [split; reflexivity|]. rewrite zlen_cons in *. pose proof (zlen_nonneg ds). lia.
Qed.

Lemma layout_interleave run : forall news, run <> [] ->
  new_layout (mk_slots run (fit_slots (zlen run) (map page_bytes news))) = render_all (interleave run news).
Proof.
  induction run as [|[o G] r IH]; intros news Hne; [contradiction|].
  destruct r as [|og2 r2].
  - (* the last slot takes everything that is left *)
    change (zlen [(o, G)]) with 1. destruct (fit_slots_one (map page_bytes news)) as (C & L).
    destruct (fit_slots 1 (map page_bytes news)) as [|d [|d2 ds]]; try discriminate.
    cbn [concat] in C. rewrite app_nil_r in C. cbn [mk_slots interleave]. unfold new_layout. cbn [map concat slot_new slot_gap].
    rewrite app_nil_r, render_all_app. rewrite C. reflexivity.
  - assert (Hn : 1 <= zlen (og2 :: r2)) by (rewrite zlen_cons; pose proof (zlen_nonneg r2); lia).
    rewrite (zlen_cons (o, G)). destruct news as [|n ns].
    + cbn [map]. rewrite fit_slots_nil by lia.
      replace (Z.to_nat (1 + zlen (og2 :: r2))) with (S (Z.to_nat (zlen (og2 :: r2)))) by lia.
      cbn [repeat]. rewrite <- fit_slots_nil by lia.
      change (interleave ((o, G) :: og2 :: r2) []) with (G ++ interleave (og2 :: r2) []).
      change (mk_slots ((o, G) :: og2 :: r2) ([] :: fit_slots (zlen (og2 :: r2)) []))
        with (mkSlot (page_bytes o) [] (render_all G) :: mk_slots (og2 :: r2) (fit_slots (zlen (og2 :: r2)) [])).
      unfold new_layout. cbn [map concat slot_new slot_gap app]. fold (new_layout (mk_slots (og2 :: r2) (fit_slots (zlen (og2 :: r2)) []))).
      change (@nil (list Z)) with (map page_bytes []) at 1. rewrite IH by discriminate.
      rewrite render_all_app. reflexivity.
    + cbn [map]. rewrite fit_slots_cons by exact Hn.
      change (interleave ((o, G) :: og2 :: r2) (n :: ns)) with (n :: G ++ interleave (og2 :: r2) ns).
      change (mk_slots ((o, G) :: og2 :: r2) (page_bytes n :: fit_slots (zlen (og2 :: r2)) (map page_bytes ns)))
        with (mkSlot (page_bytes o) (page_bytes n) (render_all G) :: mk_slots (og2 :: r2) (fit_slots (zlen (og2 :: r2)) (map page_bytes ns))).
      unfold new_layout. cbn [map concat slot_new slot_gap].
      fold (new_layout (mk_slots (og2 :: r2) (fit_slots (zlen (og2 :: r2)) (map page_bytes ns)))).
      rewrite IH by discriminate. rewrite render_all_cons, render_all_app, <- app_assoc. reflexivity.
Qed.

Lemma old_layout_pages run : forall datas, length datas = length run ->
  old_layout (mk_slots run datas) = render_all (old_pages_of run).
Proof.
  induction run as [|[o G] r IH]; intros [|d ds] H; try reflexivity; try discriminate.
  cbn [mk_slots]. unfold old_layout, old_pages_of. cbn [map concat slot_old slot_gap fst snd].
  fold (old_layout (mk_slots r ds)) (old_pages_of r). rewrite IH by (cbn [length] in H; lia).
  rewrite render_all_app. cbn [app]. rewrite render_all_cons, <- app_assoc. reflexivity.
Qed.

(* replace on a file that consists of rendered pages, stated on page lists *)
Theorem replace_pages_spec before (run : run_t) news :
  run <> [] -> news <> [] ->
  Forall (fun og => Forall page_wf (snd og)) run ->
  let old0 := fst (hd (new_page, []) run) in
  let oldl := fst (last run (new_page, [])) in
  let prepared := prepare_new old0 oldl news in
  Forall (fun p => header_ok p = true /\ lacing_count p <= 255) prepared ->
  0 <= p_sequence old0 -> p_sequence old0 + zlen news + zlen (snd (last run (new_page, []))) <= two32 ->
  replace (render_all (before ++ old_pages_of run)) (old_args (zlen (render_all before)) run) news =
    (Ok tt,
     render_all (before ++ interleave (if zlen run =? zlen news then run
                                       else renumber_tail (p_serial old0) (p_sequence old0 + zlen news) run) prepared)).
Proof.
  intros Hrun Hnews HG old0 oldl prepared Hren Hs0 Hs1.
  pose proof (replace_spec (render_all before) run news Hrun Hnews HG Hren Hs0 Hs1) as R.
  cbv zeta in R. fold old0 oldl prepared in R.
  assert (Hn1 : 1 <= zlen run).
  { destruct run; [contradiction|]. rewrite zlen_cons. pose proof (zlen_nonneg run). lia. }
  destruct (prepare_new_spec old0 oldl news Hnews) as (P1 & _). fold prepared in P1.
  assert (Hprep : map page_bytes prepared <> []).
  { destruct prepared; [|discriminate]. destruct news as [|n0 news0]; [contradiction|].
    rewrite zlen_nil, zlen_cons in P1. pose proof (zlen_nonneg news0). lia. }
  pose proof (zlen_fit_slots (zlen run) (map page_bytes prepared) Hn1 Hprep) as Hdl.
  assert (Hdl' : length (fit_slots (zlen run) (map page_bytes prepared)) = length run) by (apply Nat2Z.inj; exact Hdl).
  rewrite (old_layout_pages run _ Hdl') in R. rewrite <- render_all_app in R. rewrite R. f_equal.
  rewrite render_all_app. f_equal.
  destruct (zlen run =? zlen news).
  - apply layout_interleave. exact Hrun.
  - assert (Hl : zlen (renumber_tail (p_serial old0) (p_sequence old0 + zlen news) run) = zlen run).
    { unfold renumber_tail. generalize (fun og : page * list page => (fst og, renumber_pages (p_serial old0) (p_sequence old0 + zlen news) (snd og))).
      intros g. clear. induction run as [|x r IH]; [reflexivity|]. destruct r; [reflexivity|].
      rewrite map_last_cons by discriminate. rewrite !(zlen_cons x), IH. reflexivity. }
    rewrite <- Hl. apply layout_interleave. intros E. rewrite E in Hl. rewrite zlen_nil in Hl. lia.
Qed.

(* ---- reading the result by logical stream ----------------------------------------------------------- *)
Definition is_serial (s : Z) (p : page) : bool := p_serial p =? s.
Definition not_serial (s : Z) (p : page) : bool := negb (p_serial p =? s).
Definition gaps (run : run_t) : list page := concat (map snd run).

Lemma filter_all_false {A} (f : A -> bool) l : Forall (fun x => f x = false) l -> filter f l = [].
Proof. induction l as [|x r IH]; intros H; [reflexivity|]. inversion H; subst. cbn [filter]. rewrite H2. apply IH. assumption. Qed.
Lemma filter_all_true {A} (f : A -> bool) l : Forall (fun x => f x = true) l -> filter f l = l.
Proof. induction l as [|x r IH]; intros H; [reflexivity|]. inversion H; subst. cbn [filter]. rewrite H2. f_equal. apply IH. assumption. Qed.

Lemma filter_interleave_others s run : forall news, Forall (fun p => p_serial p = s) news ->
  filter (not_serial s) (interleave run news) = filter (not_serial s) (gaps run).
Proof.
  induction run as [|[o G] r IH]; intros news Hs; [reflexivity|].
  assert (Hf : filter (not_serial s) news = []).
  { apply filter_all_false. eapply Forall_impl; [|exact Hs]. cbn beta. intros p Hp. unfold not_serial. rewrite Hp, Z.eqb_refl. reflexivity. }
  unfold gaps. cbn [map concat snd]. fold (gaps r). destruct r as [|og2 r2].
  - cbn [interleave]. rewrite !filter_app, Hf. unfold gaps. cbn [map concat]. rewrite app_nil_r. reflexivity.
  - destruct news as [|n ns].
    + change (interleave ((o, G) :: og2 :: r2) []) with (G ++ interleave (og2 :: r2) []).
      rewrite !filter_app. f_equal. apply IH. constructor.
    + change (interleave ((o, G) :: og2 :: r2) (n :: ns)) with (n :: G ++ interleave (og2 :: r2) ns).
      inversion Hs as [|? ? Hn Hns]. cbn [filter]. unfold not_serial at 1. rewrite Hn, Z.eqb_refl. cbn [negb].
      rewrite !filter_app. f_equal. apply IH. exact Hns.
Qed.
Lemma filter_old_others s run : Forall (fun og => p_serial (fst og) = s) run ->
  filter (not_serial s) (old_pages_of run) = filter (not_serial s) (gaps run).
Proof.
  induction run as [|[o G] r IH]; intros H; [reflexivity|]. inversion H as [|? ? Ho Hr].
  unfold old_pages_of, gaps. cbn [map concat fst snd]. fold (old_pages_of r) (gaps r).
  cbn [fst] in Ho. cbn [app filter]. unfold not_serial at 1. rewrite Ho, Z.eqb_refl. cbn [negb].
  rewrite !filter_app. f_equal. apply IH. exact Hr.
Qed.
Lemma gaps_snoc a x : gaps (a ++ [x]) = gaps a ++ snd x.
Proof. unfold gaps. rewrite map_app, concat_app. cbn [map concat]. rewrite app_nil_r. reflexivity. Qed.

Lemma filter_interleave_same s a on Gn : forall news, Forall (fun p => p_serial p = s) news ->
  Forall (fun og => filter (is_serial s) (snd og) = []) a ->
  filter (is_serial s) (interleave (a ++ [(on, Gn)]) news) = news ++ filter (is_serial s) Gn.
Proof.
  induction a as [|[o G] a' IH]; intros news Hs Ha.
  - cbn [app interleave]. rewrite filter_app. f_equal. apply filter_all_true.
    eapply Forall_impl; [|exact Hs]. cbn beta. intros p Hp. unfold is_serial. rewrite Hp. apply Z.eqb_refl.
  - inversion Ha as [|? ? HG Ha']. cbn [snd] in HG. cbn [app].
    assert (Hne : a' ++ [(on, Gn)] <> []) by (destruct a'; discriminate).
    destruct (a' ++ [(on, Gn)]) as [|og2 r2] eqn:E; [contradiction|]. rewrite <- E in *.
    destruct news as [|n ns].
    + replace (interleave ((o, G) :: a' ++ [(on, Gn)]) []) with (G ++ interleave (a' ++ [(on, Gn)]) [])
        by (rewrite E; reflexivity).
      rewrite filter_app, HG. cbn [app]. apply IH; [constructor|exact Ha'].
    + replace (interleave ((o, G) :: a' ++ [(on, Gn)]) (n :: ns)) with (n :: G ++ interleave (a' ++ [(on, Gn)]) ns)
        by (rewrite E; reflexivity).
      inversion Hs as [|? ? Hn Hns]. cbn [filter]. unfold is_serial at 1. rewrite Hn, Z.eqb_refl.
      rewrite filter_app, HG. cbn [app]. f_equal. apply IH; [exact Hns|exact Ha'].
Qed.

Lemma seq_from_app s a b : seq_from s a -> seq_from (s + zlen a) b -> seq_from s (a ++ b).
Proof.
  revert s; induction a as [|p a IH]; intros s Ha Hb.
  - cbn [app]. rewrite zlen_nil, Z.add_0_r in Hb. exact Hb.
  - destruct Ha as (H1 & H2). cbn [app seq_from]. split; [exact H1|]. apply IH; [exact H2|].
    rewrite zlen_cons in Hb. replace (s + 1 + zlen a) with (s + (1 + zlen a)) by lia. exact Hb.
Qed.

(* the property wording for replace: with the old run a ++ [(on, Gn)] of stream s (no page of s between the old pages),
   the pages of every other stream are the same pages in the same order, and the pages of s from the first replaced
   page on carry consecutive sequence numbers starting at the number of the first old page *)
Theorem replace_stream_view (a : run_t) on Gn news :
  let run := a ++ [(on, Gn)] in
  let old0 := fst (hd (new_page, []) run) in
  let s := p_serial old0 in
  let prepared := prepare_new old0 on news in
  let result := interleave (if zlen run =? zlen news then run
                            else renumber_tail s (p_sequence old0 + zlen news) run) prepared in
  news <> [] ->
  Forall (fun og => p_serial (fst og) = s) run ->
  Forall (fun og => filter (is_serial s) (snd og) = []) a ->
  (zlen run = zlen news -> seq_from (p_sequence old0 + zlen news) (filter (is_serial s) Gn)) ->
  filter (not_serial s) result = filter (not_serial s) (old_pages_of run) /\
  seq_from (p_sequence old0) (filter (is_serial s) result) /\
  filter (is_serial s) result =
    prepared ++ filter (is_serial s) (if zlen run =? zlen news then Gn
                                      else renumber_pages s (p_sequence old0 + zlen news) Gn).
Proof.
  intros run old0 s prepared result Hnews Hold Ha Hgapless.
  destruct (prepare_new_spec old0 on news Hnews) as (P1 & P2 & P3 & _). fold prepared in P1, P2, P3. fold s in P3.
  assert (Hrt : renumber_tail s (p_sequence old0 + zlen news) run =
                a ++ [(on, renumber_pages s (p_sequence old0 + zlen news) Gn)]).
  { unfold renumber_tail, run. rewrite map_last_snoc. reflexivity. }
  split; [|split].
  - unfold result. rewrite (filter_old_others s run Hold). destruct (zlen run =? zlen news).
    + apply filter_interleave_others. exact P3.
    + rewrite (filter_interleave_others s _ prepared P3), Hrt. unfold run. rewrite !gaps_snoc, !filter_app. f_equal.
      cbn [snd]. apply renumber_pages_others.
  - unfold result. destruct (zlen run =? zlen news) eqn:E.
    + unfold run. rewrite (filter_interleave_same s a on Gn prepared P3 Ha).
      apply seq_from_app; [exact P2|]. rewrite P1. apply Hgapless. apply Z.eqb_eq. exact E.
    + rewrite Hrt, (filter_interleave_same s a on _ prepared P3 Ha).
      apply seq_from_app; [exact P2|]. rewrite P1. apply renumber_pages_gapless.
  - unfold result. destruct (zlen run =? zlen news).
    + unfold run. apply (filter_interleave_same s a on Gn prepared P3 Ha).
    + rewrite Hrt. apply (filter_interleave_same s a on _ prepared P3 Ha).
Qed.
