(* Ogg family: with the page search restricted to the stream of the identification header, the alignment of mutagen's
   view with the independent reader's (ogg_aligned) follows from a hypothesis on the LAYOUT of the file alone
   (ogg_mapped: what the codec mappings prescribe for the first two pages of the stream) *)
From Coq Require Import ZArith List Bool Lia.
Import ListNotations.
Require Import Base.Py Base.ZList Gen.Gen_tags Model.Crc Model.Ogg Model.Fam_flac Model.Fam_ogg.
Require Import Proofs.C15_page Proofs.C15_file Proofs.C15_replace Proofs.Fam_ogg_scan Proofs.Fam_ogg_locate Proofs.Fam_ogg_stream
  Proofs.Fam_ogg_inject Proofs.Fam_ogg_thms Proofs.Fam_ogg_final Proofs.Fam_ogg_packets Proofs.Fam_ogg_c02 Proofs.Fam_ogg_c01
  Proofs.Fam_ogg_load.
Open Scope Z_scope.

(* pages = b1 ++ h :: mid ++ n :: r2: h is the first page of the file whose first packet starts with the identification
   header of the codec; it is the first page of its stream, is not continued and carries exactly one packet; n is the
   next page of that stream, starts the comment header and is not continued; (OggFLAC: h is not numbered 1, n is);
   and the stream of h is the one the independent reader looks at *)
Definition ogg_mapped (c : ogg_codec) (pages : list page) : Prop :=
  exists b1 h mid n r2,
    pages = b1 ++ h :: mid ++ n :: r2 /\
    Forall (fun p => ogg_f_pk0 (ogg_f_idprefix c) p = false) b1 /\ ogg_f_pk0 (ogg_f_idprefix c) h = true /\
    filter (is_serial (p_serial h)) b1 = [] /\ filter (is_serial (p_serial h)) mid = [] /\
    p_serial n = p_serial h /\ ogg_f_pk0 (ogg_f_tagprefix c) n = true /\
    continued h = false /\ zlen (p_packets h) = 1 /\ continued n = false /\
    (c = OFlac -> p_sequence h <> 1 /\ p_sequence n = 1) /\
    ogg_f_tagged c pages = Some (p_serial h).

Lemma find_offs_first test b p r : forall pos, Forall (fun q => test q = false) b -> test p = true ->
  ogg_f_find test (ogg_offs pos (b ++ p :: r)) = Some (ogg_offs (pos + zlen (render_all b)) (p :: r)).
Proof.
  induction b as [|q b IH]; intros pos Hb Hp.
  - cbn [app render_all map concat]. rewrite zlen_nil, Z.add_0_r. cbn [ogg_offs ogg_f_find snd]. rewrite Hp. reflexivity.
  - inversion Hb as [|? ? Hq Hb']; subst. cbn [app ogg_offs ogg_f_find snd]. rewrite Hq, (IH _ Hb' Hp).
    rewrite render_all_cons, zlen_app, page_bytes_len.
    replace (pos + page_size q + zlen (render_all b)) with (pos + (page_size q + zlen (render_all b))) by lia. reflexivity.
Qed.

Lemma filter_nil_serial s l : filter (is_serial s) l = [] -> Forall (fun p => (p_serial p =? s) = false) l.
Proof.
  induction l as [|p r IH]; intros H; [constructor|]. cbn [filter] in H. unfold is_serial at 1 in H.
  destruct (p_serial p =? s) eqn:E; [discriminate|]. constructor; [exact E|exact (IH H)].
Qed.

Lemma locate_mapped c b1 h mid n r2 eof l :
  Forall (fun p => ogg_f_pk0 (ogg_f_idprefix c) p = false) b1 -> ogg_f_pk0 (ogg_f_idprefix c) h = true ->
  filter (is_serial (p_serial h)) mid = [] -> p_serial n = p_serial h -> ogg_f_pk0 (ogg_f_tagprefix c) n = true ->
  (c = OFlac -> p_sequence h <> 1 /\ p_sequence n = 1) ->
  ogg_f_locate c (ogg_offs 0 (b1 ++ h :: mid ++ n :: r2)) eof = Ok l ->
  l = ogg_offs (zlen (render_all (b1 ++ h :: mid))) (n :: r2).
Proof.
  intros Hb Hh Hmid Hn Hpk Hfl H.
  pose proof (filter_nil_serial _ _ Hmid) as Fm.
  assert (Epos : 0 + zlen (render_all b1) + page_size h + zlen (render_all mid) = zlen (render_all (b1 ++ h :: mid))).
  { rewrite render_all_app, render_all_cons, !zlen_app, page_bytes_len. lia. }
  (* the second search, in the pages behind h *)
  assert (S2 : forall test2, Forall (fun q => test2 q = false) mid -> test2 n = true ->
               ogg_f_find test2 (ogg_offs (0 + zlen (render_all b1) + page_size h) (mid ++ n :: r2)) =
               Some (ogg_offs (zlen (render_all (b1 ++ h :: mid))) (n :: r2))).
  { intros test2 A B. rewrite (find_offs_first test2 mid n r2 _ A B), Epos. reflexivity. }
  assert (Fs : forall g : page -> bool, Forall (fun q => (p_serial q =? p_serial h) && g q = false) mid).
  { intros g. eapply Forall_impl; [|exact Fm]. cbn beta. intros q ->. reflexivity. }
  assert (Ns : (p_serial n =? p_serial h) = true) by (apply Z.eqb_eq; exact Hn).
  destruct c; cbn [ogg_f_locate ogg_f_idprefix ogg_f_tagprefix] in *;
    rewrite (find_offs_first _ b1 h (mid ++ n :: r2) 0 Hb Hh) in H; cbn [ogg_offs snd] in H.
  - rewrite (S2 _ (Fs _)) in H by (rewrite Ns, Hpk; reflexivity). inversion H. reflexivity.
  - destruct (negb (first h)); [discriminate|].
    destruct (negb (zlen (zslice 8 19 (hd [] (p_packets h))) =? 11)); [discriminate|].
    destruct (negb (znth 0 (zslice 8 19 (hd [] (p_packets h))) / 16 =? 0)); [discriminate|].
    rewrite (S2 _ (Fs _)) in H by (rewrite Ns, Hpk; reflexivity). inversion H. reflexivity.
  - rewrite (S2 (fun p => p_serial p =? p_serial h) Fm Ns) in H. inversion H. reflexivity.
  - rewrite (S2 _ (Fs _)) in H by (rewrite Ns, Hpk; reflexivity). inversion H. reflexivity.
  - destruct (Hfl eq_refl) as (Sh & Sn).
    change ((0 + zlen (render_all b1), h) :: ogg_offs (0 + zlen (render_all b1) + page_size h) (mid ++ n :: r2))
      with (ogg_offs (0 + zlen (render_all b1)) ((h :: mid) ++ n :: r2)) in H.
    rewrite (find_offs_first _ (h :: mid) n r2) in H.
    + cbn [ogg_f_need] in H. inversion H. rewrite render_all_app, zlen_app. reflexivity.
    + constructor.
      * destruct (p_sequence h =? 1) eqn:E; [apply Z.eqb_eq in E; contradiction|reflexivity].
      * eapply Forall_impl; [|exact Fm]. cbn beta. intros q ->. apply andb_false_r.
    + rewrite Sn, Ns. reflexivity.
Qed.

(* two prefixes of one page list with renderings of the same length are the same prefix *)
Lemma render_prefix_unique a : forall b x y, a ++ x = b ++ y -> zlen (render_all a) = zlen (render_all b) -> a = b.
Proof.
  assert (Pos : forall p r, 0 < zlen (render_all (p :: r))).
  { intros p r. pose proof (render_all_length (p :: r)) as X. cbn [length] in X. unfold zlen. lia. }
  induction a as [|p a IH]; intros [|q b] x y E L.
  - reflexivity.
  - pose proof (Pos q b). change (render_all []) with (@nil Z) in L. rewrite zlen_nil in L. lia.
  - pose proof (Pos p a). change (render_all []) with (@nil Z) in L. rewrite zlen_nil in L. lia.
  - cbn [app] in E. injection E as E1 E2. subst q. f_equal. apply (IH b x y E2).
    rewrite !render_all_cons, !zlen_app in L. lia.
Qed.

Theorem mapped_aligned c t pad cb pages olds news k : Forall page_wf pages ->
  ogg_mapped c pages -> cut_ok c t pad cb pages olds news k ->
  ogg_f_inject c t pad cb (render_all pages) = Ok (olds, news) -> ogg_aligned c pages k.
Proof.
  intros W (b1 & h & mid & n & r2 & Ep & Hb & Hh & Hb1 & Hmid & Hn & Hpk & Ch & H1 & Cn & Hfl & Tg) K I.
  (* the head of the old pages, from the run of _inject *)
  assert (Hd : exists tl, olds = (zlen (render_all (b1 ++ h :: mid)), n) :: tl).
  { unfold ogg_f_inject in I. rewrite (scan_file pages W) in I.
    destruct (ogg_f_locate c (ogg_offs 0 pages) EEOF) as [l|e] eqn:L; [|discriminate].
    rewrite Ep in L. rewrite (locate_mapped c b1 h mid n r2 EEOF l Hb Hh Hmid Hn Hpk Hfl L) in I.
    cbn [ogg_offs snd] in I.
    change ((zlen (render_all (b1 ++ h :: mid)), n) :: ogg_offs (zlen (render_all (b1 ++ h :: mid)) + page_size n) r2)
      with (ogg_offs (zlen (render_all (b1 ++ h :: mid))) (n :: r2)) in I.
    destruct (ogg_f_collect (p_serial n) (ogg_offs (zlen (render_all (b1 ++ h :: mid))) (n :: r2)) EEOF) as [olds0|e] eqn:C; [|discriminate].
    destruct (collect_offs_head (p_serial n) EEOF n r2 _ olds0 eq_refl C) as (a & on & Gn & E1 & E2 & _).
    assert (olds = olds0) as ->.
    { destruct (to_packets false (map snd olds0)) as [[|p0 rest]|e]; try discriminate.
      destruct (ogg_f_new_packet c t pad cb (zlen (render_all pages)) p0); [|discriminate].
      match type of I with match ?X with Ok _ => _ | Raise _ => _ end = _ => destruct X; [|discriminate] end.
      inversion I. reflexivity. }
    rewrite E2. destruct a as [|[o G] a'].
    - cbn [app old_args]. unfold old_pages_of in E1. cbn [app map concat fst snd] in E1. injection E1 as E1 _. subst on. eauto.
    - cbn [app old_args]. unfold old_pages_of in E1. cbn [app map concat fst snd] in E1. injection E1 as E1 _. subst o. eauto. }
  destruct Hd as (tl & Eolds).
  pose proof K as (Ep' & Eo & _).
  assert (Hk : cut_old0 k = n /\ zlen (render_all (cut_before k)) = zlen (render_all (b1 ++ h :: mid))).
  { unfold cut_old0. pose proof (cut_run_ne k) as Hne. rewrite Eo in Eolds. destruct (cut_run k) as [|[o G] r]; [contradiction|].
    cbn [old_args hd fst] in *. injection Eolds as E1 E2 _. auto. }
  destruct Hk as (Ko & Kb).
  assert (Eb : cut_before k = b1 ++ h :: mid).
  { apply (render_prefix_unique _ _ (old_pages_of (cut_run k)) (n :: r2)); [|exact Kb].
    rewrite <- Ep', Ep, <- app_assoc. reflexivity. }
  unfold ogg_aligned, cut_s. rewrite Ko, Hn. split; [exact Cn|]. split; [exact Tg|].
  rewrite Eb, filter_app, Hb1. cbn [app filter]. unfold is_serial at 1. rewrite Z.eqb_refl, Hmid.
  unfold ogg_f_unpage. cbn [fold_left]. unfold ogg_f_unpage_step. rewrite Ch.
  destruct (p_packets h) as [|f others]; [rewrite zlen_nil in H1; lia|]. cbn [app]. exact H1.
Qed.

(* C01 (+ C09) at file level for files laid out as the codec mapping prescribes *)
Theorem save_load_mapped f c t cb f' pages :
  ogg_parse f = Ok pages -> ogg_f_streams_ok pages = true -> ogg_mapped c pages ->
  ogg_save f c t cb = Ok f' ->
  exists olds news k pad,
    cut_ok c t pad cb pages olds news k /\
    ((c = OFlac -> exists h r, cut_p0 k = h :: r /\ h mod 128 = 4) ->
     ogg_load f' c =
     Ok (t, match c with
            | OFlac => -1
            | _ => match c, pad with
                   | OOpus, _ :: _ => -1
                   | _, _ => Z.max 0 (_get_padding cb (zlen (cut_p0 k) - zlen (ogg_vdata c t)) (zlen f - zlen (cut_p0 k))) end
            end)).
Proof.
  intros Hp Hs Hm H. unfold ogg_save in H. destruct (ogg_open f c) as [[v pad]|e] eqn:Op; [|discriminate].
  destruct (save_obj_load f c t pad cb f' pages Hp Hs H) as (olds & news & k & K & Inj & L).
  exists olds, news, k, pad. split; [exact K|]. intros Hfl.
  pose proof K as (_ & _ & _ & _ & _ & _ & _ & N & _).
  apply parse_iff in Hp as (Ef & W). rewrite <- Ef in N. rewrite Ef in Inj.
  apply (L (mapped_aligned _ _ _ _ _ _ _ _ W Hm K Inj)).
  apply (new_packet_decode _ _ _ _ _ _ _ N); [intros _; exact (open_pad _ _ _ _ Op)|exact Hfl].
Qed.

Theorem delete_load_mapped f c f' pages :
  ogg_parse f = Ok pages -> ogg_f_streams_ok pages = true -> ogg_mapped c pages ->
  ogg_delete f c = Ok f' ->
  exists olds news k vendor pad,
    ogg_open f c = Ok (vendor, pad) /\
    cut_ok c (mkVC vendor []) pad (Some (fun _ _ => 0)) pages olds news k /\
    ((c = OFlac -> exists h r, cut_p0 k = h :: r /\ h mod 128 = 4) ->
     ogg_load f' c = Ok (mkVC vendor [], match c with
                                         | OFlac => -1
                                         | _ => match c, pad with OOpus, _ :: _ => -1 | _, _ => 0 end end)).
Proof.
  intros Hp Hs Hm H. unfold ogg_delete, ogg_delete_obj in H. destruct (ogg_open f c) as [[v pad]|e] eqn:Op; [|discriminate].
  destruct (save_obj_load f c _ pad _ f' pages Hp Hs H) as (olds & news & k & K & Inj & L).
  exists olds, news, k, v, pad. split; [reflexivity|]. split; [exact K|]. intros Hfl.
  pose proof K as (_ & _ & _ & _ & _ & _ & _ & N & _).
  apply parse_iff in Hp as (Ef & W). rewrite Ef in Inj.
  apply (L (mapped_aligned _ _ _ _ _ _ _ _ W Hm K Inj)).
  apply (delete_packet_decode _ _ _ _ _ _ N); [intros _; exact (open_pad _ _ _ _ Op)|exact Hfl].
Qed.
