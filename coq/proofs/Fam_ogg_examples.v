(* Ogg family: small concrete files showing that the hypotheses of the theorems are satisfiable (vm_compute) *)
From Coq Require Import ZArith List Bool Lia.
Import ListNotations.
Require Import Base.Py Base.ZList Gen.Gen_tags Model.Crc Model.Ogg Model.Fam_flac Model.Fam_ogg.
Require Import Proofs.C15_lacing Proofs.C15_page Proofs.C15_file.
Open Scope Z_scope.

Definition ex_tags : vc := mkVC [109; 117] [([116; 105; 116; 108; 101], [195; 164; 61; 120])].
Definition ex_old : vc := mkVC [118] [([97], [98])].
(* a Vorbis stream (serial 5): identification page, comment packet + setup packet on one page, one audio page;
   multiplexed with a stream of another codec (serial 9) *)
Definition ex_vorbis_pages : list page :=
  [ mkPage 0 2 0 5 0 true [ogg_f_vorbis1 ++ zeros 23];
    mkPage 0 2 0 9 0 true [[102; 105; 115; 104]];
    mkPage 0 0 0 5 1 true [ogg_f_vorbis3 ++ vc_render ex_old ++ [1; 0; 0; 0]; [5; 115; 101; 116]];
    mkPage 0 0 3 9 1 true [[1]; []];
    mkPage 0 4 40 5 2 true [[7; 7; 7]];
    mkPage 0 4 4 9 2 true [[2]] ].
Definition ex_vorbis : list Z := render_all ex_vorbis_pages.

(* an Opus stream whose comment packet has a tail to be preserved *)
Definition ex_opus_pages : list page :=
  [ mkPage 0 2 0 3 0 true [ogg_f_opushead ++ [1; 2; 0; 0; 0; 0; 0; 0; 0; 0; 0]];
    mkPage 0 0 0 3 1 true [ogg_f_opustags ++ vc_render ex_old ++ [1; 200]];
    mkPage 0 4 9 3 2 true [[8]] ].
Definition ex_opus : list Z := render_all ex_opus_pages.

Definition unwrap (r : result (list Z)) : list Z := match r with Ok d => d | Raise _ => [] end.
Definition ex_vorbis_saved : list Z := Eval vm_compute in unwrap (ogg_save ex_vorbis OVorbis ex_tags (Some (cb_const 2))).
Definition ex_vorbis_deleted : list Z := Eval vm_compute in unwrap (ogg_delete ex_vorbis OVorbis).
Definition ex_opus_saved : list Z := Eval vm_compute in unwrap (ogg_save ex_opus OOpus ex_tags (Some (cb_const 50))).

Lemma ex_vorbis_wf : ogg_wf ex_vorbis = true /\ ogg_parse ex_vorbis = Ok ex_vorbis_pages /\
  ogg_load ex_vorbis OVorbis = Ok (ex_old, 3).
Proof. repeat split; vm_compute; reflexivity. Qed.

Lemma ex_vorbis_save :
  ogg_save ex_vorbis OVorbis ex_tags (Some (cb_const 2)) = Ok ex_vorbis_saved /\ ogg_wf ex_vorbis_saved = true /\
  ogg_load ex_vorbis_saved OVorbis = Ok (ex_tags, 2) /\ zlen ex_vorbis_saved = zlen ex_vorbis + 7.
Proof. repeat split; vm_compute; reflexivity. Qed.

Lemma ex_vorbis_delete :
  ogg_delete ex_vorbis OVorbis = Ok ex_vorbis_deleted /\ ogg_wf ex_vorbis_deleted = true /\
  ogg_load ex_vorbis_deleted OVorbis = Ok (mkVC [118] [], 0).
Proof. repeat split; vm_compute; reflexivity. Qed.

Lemma ex_vorbis_history :
  ogg_wf (fold_left (ogg_step OVorbis) [OggSave ex_tags None; OggDelete; OggSave ex_old (Some cb_keep); OggSave ex_tags (Some (cb_const 0)); OggDelete; OggDelete] ex_vorbis) = true.
Proof. vm_compute. reflexivity. Qed.

Lemma ex_opus_wf : ogg_wf ex_opus = true /\ ogg_load ex_opus OOpus = Ok (ex_old, -1) /\ ogg_open ex_opus OOpus = Ok ([118], [1; 200]).
Proof. repeat split; vm_compute; reflexivity. Qed.
Lemma ex_opus_save :
  ogg_save ex_opus OOpus ex_tags (Some (cb_const 50)) = Ok ex_opus_saved /\ ogg_wf ex_opus_saved = true /\
  ogg_load ex_opus_saved OOpus = Ok (ex_tags, -1) /\ ogg_open ex_opus_saved OOpus = Ok ([109; 117], [1; 200]).
Proof. repeat split; vm_compute; reflexivity. Qed.

(* ---- regression: the page search is restricted to the stream of the identification header ------------------------ *)
(* stream 9 (some other codec) has a page whose first packet starts with "\x03vorbis", in front of the comment page of
   the Vorbis stream 5.  Before the fix of /repo (oggvorbis.py / oggtheora.py _inject) save() overwrote that packet and
   the tags were not saved; now the comment of stream 5 is replaced and stream 9 is untouched. *)
Definition ex_bait_pages : list page :=
  [ mkPage 0 2 0 5 0 true [ogg_f_vorbis1 ++ zeros 23];
    mkPage 0 2 0 9 0 true [[102; 105; 115; 104]];
    mkPage 0 0 3 9 1 true [ogg_f_vorbis3 ++ [33; 33]];
    mkPage 0 0 0 5 1 true [ogg_f_vorbis3 ++ vc_render ex_old ++ [1; 0; 0; 0]; [5; 115; 101; 116]];
    mkPage 0 4 40 5 2 true [[7; 7; 7]];
    mkPage 0 4 4 9 2 true [[2]] ].
Definition ex_bait : list Z := render_all ex_bait_pages.
Definition ex_bait_saved : list Z := Eval vm_compute in unwrap (ogg_save ex_bait OVorbis ex_tags (Some (cb_const 0))).
Definition ex_bait_saved_pages : list page := Eval vm_compute in match ogg_parse ex_bait_saved with Ok l => l | Raise _ => [] end.

Lemma ex_bait_regression :
  ogg_wf ex_bait = true /\ ogg_load ex_bait OVorbis = Ok (ex_old, 3) /\
  ogg_save ex_bait OVorbis ex_tags (Some (cb_const 0)) = Ok ex_bait_saved /\ ogg_wf ex_bait_saved = true /\
  ogg_load ex_bait_saved OVorbis = Ok (ex_tags, 0) /\
  ogg_parse ex_bait_saved = Ok ex_bait_saved_pages /\
  ogg_f_tagged OVorbis ex_bait_pages = Some 5 /\
  filter (ogg_f_is_serial 9) ex_bait_saved_pages = filter (ogg_f_is_serial 9) ex_bait_pages.
Proof. repeat split; vm_compute; reflexivity. Qed.
