(* Base.FileModel: the file object as a state monad.  The state survives a Raise, because what a
   failed call leaves behind is what C06/C19 are about.  One concrete monad; the flavour of the file
   object (BytesIO-like / real-file-like, capacity limit, scheduled fault, short reads) is part of the
   state, so the same program text runs under every flavour. *)
From Coq Require Import ZArith List Bool.
Import ListNotations.
Require Import Base.Py.
Open Scope Z_scope.

Record fcfg := mkC {
  c_real : bool;            (* true: negative seek target raises OSError(EINVAL); false: BytesIO semantics *)
  c_cap : option Z;         (* Some c: the file cannot grow beyond c bytes (ENOSPC) *)
  c_partial : Z;            (* how many bytes of the failing write still reach the file *)
  c_fault : option Z;       (* Some k: the k-th (0-based) file-object call from now raises EIO 5, once *)
  c_short : option Z        (* Some b: reads return at most b more bytes in total (short reads) *)
}.
Definition plain : fcfg := mkC false None 0 None None.
Definition realfile : fcfg := mkC true None 0 None None.

Record fstate := mkF { fdata : list Z; fpos : Z; fcfg_of : fcfg }.
Definition M (A : Type) := fstate -> result A * fstate.
Definition ret {A} (a : A) : M A := fun s => (Ok a, s).
Definition raise {A} (e : exc) : M A := fun s => (Raise e, s).
Definition bind {A B} (m : M A) (k : A -> M B) : M B :=
  fun s => match m s with (Ok a, s') => k a s' | (Raise e, s') => (Raise e, s') end.
Notation "x <- m ;; k" := (bind m (fun x => k)) (at level 61, m at next level, right associativity).
Notation "' pat <- m ;; k" := (bind m (fun x => match x with pat => k end))
  (at level 61, pat pattern, m at next level, right associativity).
Notation "m ;; k" := (bind m (fun _ => k)) (at level 61, right associativity).
Definition lift {A} (r : result A) : M A := fun s => (r, s).

(* every file-object call first consumes one tick of the fault schedule *)
Definition tick : M unit := fun s =>
  let c := fcfg_of s in
  match c_fault c with
  | None => (Ok tt, s)
  | Some k =>
    if k <=? 0 then (Raise (EIO 5), mkF (fdata s) (fpos s) (mkC (c_real c) (c_cap c) (c_partial c) None (c_short c)))
    else (Ok tt, mkF (fdata s) (fpos s) (mkC (c_real c) (c_cap c) (c_partial c) (Some (k - 1)) (c_short c)))
  end.

Definition neg_seek (s : fstate) : result unit * fstate :=
  if c_real (fcfg_of s) then (Raise (EIO 22), s) else (Raise EValue, s).

Definition f_seek (off whence : Z) : M unit := tick ;; fun s =>
  let c := fcfg_of s in
  if whence =? 0 then (if off <? 0 then neg_seek s else (Ok tt, mkF (fdata s) off c))
  else
    let target := (if whence =? 1 then fpos s else zlen (fdata s)) + off in
    if target <? 0 then (if c_real c then (Raise (EIO 22), s) else (Ok tt, mkF (fdata s) 0 c))
    else (Ok tt, mkF (fdata s) target c).
Definition f_tell : M Z := tick ;; fun s => (Ok (fpos s), s).
Definition f_read (n : Z) : M (list Z) := tick ;; fun s =>
  let c := fcfg_of s in
  let avail := zdrop (fpos s) (fdata s) in
  let r := if n <? 0 then avail else ztake n avail in
  match c_short c with
  | None => (Ok r, mkF (fdata s) (fpos s + zlen r) c)
  | Some b =>
    let r' := ztake b r in
    (Ok r', mkF (fdata s) (fpos s + zlen r')
                (mkC (c_real c) (c_cap c) (c_partial c) (c_fault c) (Some (b - zlen r'))))
  end.
(* plain write of bs at position p into d (zero-fill when p is past the end) *)
Definition write_at (d : list Z) (p : Z) (bs : list Z) : list Z :=
  let d' := if zlen d <? p then d ++ zeros (p - zlen d) else d in
  ztake p d' ++ bs ++ zdrop (p + zlen bs) d'.
Definition f_write (bs : list Z) : M unit := tick ;; fun s =>
  let c := fcfg_of s in
  let d := fdata s in let p := fpos s in
  match c_cap c with
  | None => (Ok tt, mkF (write_at d p bs) (p + zlen bs) c)
  | Some cap =>
    if Z.max (zlen d) (p + zlen bs) <=? cap then (Ok tt, mkF (write_at d p bs) (p + zlen bs) c)
    else
      (* the device fills up: a prefix of bs (at most c_partial bytes, never beyond cap) is written *)
      let k := Z.max 0 (Z.min (c_partial c) (Z.min (zlen bs) (cap - p))) in
      let pre := ztake k bs in
      (Raise (EIO 28), mkF (if k =? 0 then d else write_at d p pre) (p + zlen pre) c)
  end.
Definition f_truncate (n : Z) : M unit := tick ;; fun s =>
  let c := fcfg_of s in
  if n <? 0 then (if c_real c then (Raise (EIO 22), s) else (Raise EValue, s))
  else if zlen (fdata s) <? n then
    (Ok tt, mkF (if c_real c then fdata s ++ zeros (n - zlen (fdata s)) else fdata s) (fpos s) c)
  else (Ok tt, mkF (ztake n (fdata s)) (fpos s) c).
Definition f_flush : M unit := tick.

(* try: ... except IOError as e: h(e.errno) *)
Definition try_io {A} (m : M A) (h : Z -> M A) : M A := fun s =>
  match m s with (Raise (EIO e), s') => h e s' | r => r end.
(* try: ... except <any exception in the class test>: h *)
Definition try_catch {A} (m : M A) (p : exc -> bool) (h : exc -> M A) : M A := fun s =>
  match m s with
  | (Raise e, s') => if p e then h e s' else (Raise e, s')
  | r => r
  end.

Definition run {A} (m : M A) (d : list Z) (c : fcfg) : result A * fstate := m (mkF d 0 c).
