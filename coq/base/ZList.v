(* Base.ZList: lemma library for the Z-indexed list primitives of Base.Py *)
From Coq Require Import ZArith List Bool Lia.
Import ListNotations.
Require Import Base.Py.
Open Scope Z_scope.

Ltac bset t v := let H := fresh in assert (H : t = v) by lia; rewrite H; clear H.

Lemma zlen_nonneg {A} (l : list A) : 0 <= zlen l. Proof. unfold zlen; lia. Qed.
Lemma zlen_nil {A} : zlen (@nil A) = 0. Proof. reflexivity. Qed.
Lemma zlen_cons {A} (x : A) l : zlen (x :: l) = 1 + zlen l.
Proof. unfold zlen; cbn [length]; lia. Qed.
Lemma zlen_app {A} (a b : list A) : zlen (a ++ b) = zlen a + zlen b.
Proof. unfold zlen; rewrite app_length; lia. Qed.
Lemma zlen_ztake {A} n (l : list A) : 0 <= n -> zlen (ztake n l) = Z.min n (zlen l).
Proof. unfold zlen, ztake; intros; rewrite firstn_length; lia. Qed.
Lemma zlen_ztake_le {A} n (l : list A) : zlen (ztake n l) <= zlen l.
Proof. unfold zlen, ztake; rewrite firstn_length; lia. Qed.
Lemma zlen_zdrop {A} n (l : list A) : 0 <= n -> zlen (zdrop n l) = Z.max 0 (zlen l - n).
Proof. unfold zlen, zdrop; intros; rewrite skipn_length; lia. Qed.
Lemma zlen_zeros n : 0 <= n -> zlen (zeros n) = n.
Proof. unfold zlen, zeros; intros; rewrite repeat_length; lia. Qed.
Lemma zlen_rev {A} (l : list A) : zlen (rev l) = zlen l.
Proof. unfold zlen; rewrite rev_length; reflexivity. Qed.
Lemma zlen_map {A B} (f : A -> B) l : zlen (map f l) = zlen l.
Proof. unfold zlen; rewrite map_length; reflexivity. Qed.

Lemma zrepeat_zero n : zrepeat_bytes [0] n = zeros n.
Proof. unfold zrepeat_bytes, zeros. induction (Z.to_nat n); simpl; congruence. Qed.
Lemma zeros_app a b : 0 <= a -> 0 <= b -> zeros a ++ zeros b = zeros (a + b).
Proof. intros; unfold zeros. rewrite <- repeat_app. f_equal; lia. Qed.
Lemma zeros_0 : zeros 0 = []. Proof. reflexivity. Qed.
Lemma zeros_neg n : n <= 0 -> zeros n = [].
Proof. intros; unfold zeros. replace (Z.to_nat n) with O by lia. reflexivity. Qed.

Lemma ztake_all {A} (l : list A) n : zlen l <= n -> ztake n l = l.
Proof. unfold ztake, zlen; intros. apply firstn_all2; lia. Qed.
Lemma zdrop_all {A} (l : list A) n : zlen l <= n -> zdrop n l = [].
Proof. unfold zdrop, zlen; intros. apply skipn_all2; lia. Qed.
Lemma ztake_0 {A} (l : list A) : ztake 0 l = []. Proof. reflexivity. Qed.
Lemma zdrop_0 {A} (l : list A) : zdrop 0 l = l. Proof. reflexivity. Qed.
Lemma ztake_neg {A} (l : list A) n : n <= 0 -> ztake n l = [].
Proof. intros; unfold ztake. replace (Z.to_nat n) with O by lia. reflexivity. Qed.
Lemma zdrop_neg {A} (l : list A) n : n <= 0 -> zdrop n l = l.
Proof. intros; unfold zdrop. replace (Z.to_nat n) with O by lia. reflexivity. Qed.
Lemma ztake_zdrop {A} n (l : list A) : ztake n l ++ zdrop n l = l.
Proof. apply firstn_skipn. Qed.

Lemma ztake_app_l {A} n (a b : list A) : n <= zlen a -> ztake n (a ++ b) = ztake n a.
Proof.
  unfold ztake, zlen; intros. rewrite firstn_app.
  replace (Z.to_nat n - length a)%nat with O by lia. cbn [firstn]. apply app_nil_r.
Qed.
Lemma ztake_app_r {A} n (a b : list A) : zlen a <= n -> ztake n (a ++ b) = a ++ ztake (n - zlen a) b.
Proof.
  unfold ztake, zlen; intros. rewrite firstn_app. rewrite firstn_all2 by lia.
  f_equal. f_equal. lia.
Qed.
Lemma zdrop_app_l {A} n (a b : list A) : 0 <= n <= zlen a -> zdrop n (a ++ b) = zdrop n a ++ b.
Proof.
  unfold zdrop, zlen; intros. rewrite skipn_app.
  replace (Z.to_nat n - length a)%nat with O by lia. reflexivity.
Qed.
Lemma zdrop_app_r {A} n (a b : list A) : zlen a <= n -> zdrop n (a ++ b) = zdrop (n - zlen a) b.
Proof.
  unfold zdrop, zlen; intros. rewrite skipn_app. rewrite skipn_all2 by lia.
  cbn [app]. f_equal. lia.
Qed.
Lemma skipn_skipn' {A} : forall y x (l : list A), skipn x (skipn y l) = skipn (y + x) l.
Proof.
  induction y as [|y IH]; intros x l; cbn [skipn Nat.add]; [reflexivity|].
  destruct l as [|a l]; [destruct x; reflexivity|]. apply IH.
Qed.
Lemma zdrop_zdrop {A} a b (l : list A) : 0 <= a -> 0 <= b -> zdrop a (zdrop b l) = zdrop (a + b) l.
Proof.
  unfold zdrop; intros. replace (Z.to_nat (a + b)) with (Z.to_nat b + Z.to_nat a)%nat by lia.
  apply skipn_skipn'.
Qed.
Lemma ztake_ztake {A} a b (l : list A) : ztake a (ztake b l) = ztake (Z.min a b) l.
Proof.
  unfold ztake. rewrite firstn_firstn. f_equal. lia.
Qed.
Lemma ztake_app_exact {A} (a b : list A) : ztake (zlen a) (a ++ b) = a.
Proof. rewrite ztake_app_l by lia. apply ztake_all; lia. Qed.
Lemma zdrop_app_exact {A} (a b : list A) : zdrop (zlen a) (a ++ b) = b.
Proof. rewrite zdrop_app_r by lia. rewrite Z.sub_diag. reflexivity. Qed.

Lemma znth_ext (l1 l2 : list Z) :
  zlen l1 = zlen l2 -> (forall i, 0 <= i < zlen l1 -> znth i l1 = znth i l2) -> l1 = l2.
Proof.
  unfold zlen, znth; intros Hl H. apply nth_ext with (d := 0) (d' := 0); [lia|].
  intros n Hn. specialize (H (Z.of_nat n)). rewrite Nat2Z.id in H. apply H; lia.
Qed.
Lemma znth_app (a b : list Z) i : 0 <= i ->
  znth i (a ++ b) = if i <? zlen a then znth i a else znth (i - zlen a) b.
Proof.
  unfold znth, zlen; intros Hi. destruct (i <? Z.of_nat (length a)) eqn:E.
  - apply app_nth1; lia.
  - rewrite app_nth2 by lia. f_equal; lia.
Qed.
Lemma znth_ztake n (l : list Z) i : 0 <= i < n -> znth i (ztake n l) = znth i l.
Proof.
  unfold znth, ztake; intros Hi.
  assert (Hk : forall j k (l : list Z), (j < k)%nat -> nth j (firstn k l) 0 = nth j l 0).
  { induction j; intros k l0 Hk; destruct k; try lia; destruct l0; simpl; auto.
    apply IHj; lia. }
  apply Hk; lia.
Qed.
Lemma znth_zdrop n (l : list Z) i : 0 <= i -> 0 <= n -> znth i (zdrop n l) = znth (n + i) l.
Proof.
  unfold znth, zdrop; intros Hi Hn. replace (Z.to_nat (n + i)) with (Z.to_nat n + Z.to_nat i)%nat by lia.
  assert (H : forall k j (l0 : list Z), nth j (skipn k l0) 0 = nth (k + j) l0 0).
  { induction k; intros j l0; [reflexivity|]. destruct l0; simpl. { destruct j; reflexivity. } apply IHk. }
  apply H.
Qed.
Lemma znth_zeros n i : znth i (zeros n) = 0.
Proof.
  unfold znth, zeros. generalize (Z.to_nat i) as k. induction (Z.to_nat n); intros [|k]; cbn; auto.
Qed.

Lemma list_eqb_spec a b : list_eqb a b = true <-> a = b.
Proof.
  revert b; induction a as [|x a IH]; intros [|y b]; cbn; split; intros H; try congruence; try discriminate.
  - apply andb_true_iff in H as [H1 H2]. apply Z.eqb_eq in H1. apply IH in H2. congruence.
  - inversion H; subst. rewrite Z.eqb_refl. cbn. apply IH. reflexivity.
Qed.
