(* Base.Py: Python values as Gallina values: exceptions, results, Z-indexed lists, byte codecs.
   Definitions only (proofs live in Base.ZList / proofs/), so the model always builds. *)
From Coq Require Import ZArith List Bool.
Import ListNotations.
Open Scope Z_scope.

(* Exception classes that the modelled code can raise.  EMutagen stands for mutagen.MutagenError
   and every subclass of it (the properties never distinguish subclasses). *)
Inductive exc :=
| EValue | EKey | EType | EIndex | EStruct | EUnicode | EOverflow | EZeroDiv | EAttr
| EIO (errno : Z) | EEOF | EAssert | ENotImpl | EMutagen | EOutOfFuel.

Inductive result (A : Type) := Ok (a : A) | Raise (e : exc).
Arguments Ok {A} a. Arguments Raise {A} e.

Definition rbind {A B} (r : result A) (k : A -> result B) : result B :=
  match r with Ok a => k a | Raise e => Raise e end.
Definition rmap {A B} (f : A -> B) (r : result A) : result B :=
  match r with Ok a => Ok (f a) | Raise e => Raise e end.
Definition is_ok {A} (r : result A) : bool := match r with Ok _ => true | Raise _ => false end.

Definition exc_eqb (a b : exc) : bool :=
  match a, b with
  | EValue, EValue | EKey, EKey | EType, EType | EIndex, EIndex | EStruct, EStruct
  | EUnicode, EUnicode | EOverflow, EOverflow | EZeroDiv, EZeroDiv | EAttr, EAttr
  | EEOF, EEOF | EAssert, EAssert | ENotImpl, ENotImpl | EMutagen, EMutagen
  | EOutOfFuel, EOutOfFuel => true
  | EIO x, EIO y => x =? y
  | _, _ => false
  end.
Definition is_eio (e : exc) : bool := match e with EIO _ => true | _ => false end.

(* Z-indexed list primitives: Python len / slicing with clamping. *)
Definition zlen {A} (l : list A) : Z := Z.of_nat (length l).
Definition ztake {A} (n : Z) (l : list A) := firstn (Z.to_nat n) l.
Definition zdrop {A} (n : Z) (l : list A) := skipn (Z.to_nat n) l.
Definition znth (i : Z) (l : list Z) : Z := nth (Z.to_nat i) l 0.
Definition zeros (n : Z) : list Z := repeat 0 (Z.to_nat n).
Definition zrepeat_bytes (b : list Z) (n : Z) : list Z := concat (repeat b (Z.to_nat n)).
(* data[a:b] for 0 <= a, b (Python clamps; negative indices are not used by modelled code) *)
Definition zslice {A} (a b : Z) (l : list A) : list A := ztake (b - a) (zdrop a l).

Fixpoint list_eqb (a b : list Z) : bool :=
  match a, b with
  | [], [] => true
  | x :: a', y :: b' => (x =? y) && list_eqb a' b'
  | _, _ => false
  end.

Fixpoint starts_with (p l : list Z) : bool :=
  match p, l with
  | [], _ => true
  | x :: p', y :: l' => (x =? y) && starts_with p' l'
  | _ :: _, [] => false
  end.

(* unsigned big-/little-endian integers *)
Fixpoint be_decode_acc (acc : Z) (l : list Z) : Z :=
  match l with [] => acc | b :: r => be_decode_acc (acc * 256 + b) r end.
Definition be_decode (l : list Z) : Z := be_decode_acc 0 l.
Fixpoint le_decode (l : list Z) : Z :=
  match l with [] => 0 | b :: r => b + 256 * le_decode r end.
Fixpoint le_encode (n : nat) (v : Z) : list Z :=
  match n with O => [] | S n' => (v mod 256) :: le_encode n' (v / 256) end.
Definition be_encode (n : nat) (v : Z) : list Z := rev (le_encode n v).

Definition is_byte (b : Z) : bool := (0 <=? b) && (b <? 256).
Definition all_bytes (l : list Z) : bool := forallb is_byte l.
