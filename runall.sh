#!/bin/bash
# run every claimed check's quick tier sequentially and summarise (development aid)
cd "$(dirname "$0")"
for p in ${@:-$(ls harness/props/c[0-9]*.py | sed 's/.*\/c\([0-9]*\).py/C\1/')}; do
  s=$(date +%s)
  out=$(timeout 3000 ./check $p quick 2>&1)
  rc=$?
  e=$(( $(date +%s) - s ))
  echo "$p rc=$rc ${e}s $(echo "$out" | grep -c '^VIOLATION') violations, $(echo "$out" | grep -c '^KNOWN-FINDING') known | $(echo "$out" | tail -1)"
done
