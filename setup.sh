#!/bin/bash
# One-time build after a fresh restore (offline): regenerate gen/*.v from /repo, compile the whole
# Coq development (full .vo), extract and build the model binary.
cd "$(dirname "$0")"
export PYTHONPATH=/repo PYTHONHASHSEED=0 PYTHONDONTWRITEBYTECODE=1
mkdir -p coq/gen evidence replays bin .run
/venv/bin/python py2v/run.py || exit 1
(cd coq && ./mk.sh -k) > .run/setup_make.log 2>&1; rc=$?
tail -5 .run/setup_make.log
./ocaml/build.sh || exit 1
exit 0
